#!/venv/bin/python
"""Regenerate /verif/MANIFEST.json from the property modules that exist."""
import importlib, json, os, sys
HERE = os.path.dirname(os.path.dirname(os.path.abspath(__file__)))
sys.path[:0] = ['/repo/src', HERE]
ALL = [f'C{i:02d}' for i in range(1, 21)]
READY = set(open(os.path.join(HERE, 'rv', 'props', 'READY')).read().split())
NA_REASON = {}
checks, na = [], []
for pid in ALL:
    path = os.path.join(HERE, 'rv', 'props', pid.lower() + '.py')
    if not os.path.exists(path) or pid not in READY:
        na.append({'property_id': pid, 'reason': NA_REASON.get(pid, 'monitor not built yet in this session (runtime monitoring applies; see DESIGN.md section 4)')})
        continue
    m = importlib.import_module('rv.props.' + pid.lower())
    if getattr(m, 'NOT_CLAIMED', None):
        na.append({'property_id': pid, 'reason': m.NOT_CLAIMED})
        continue
    checks.append({
        'property_id': pid,
        'quick_cmd': f'./check {pid} quick',
        'thorough_cmd': f'./check {pid} thorough',
        'evidence_file': f'/verif/evidence/{pid}.json',
        'replay_cmd_template': f'./check {pid} quick --replay {{path}}',
        'engine': 'rv',
        'level_claimed': {'category': getattr(m, 'LEVEL', 'exploration'), 'text': m.LEVEL_TEXT,
                          'design_ref': getattr(m, 'DESIGN_REF', f'DESIGN.md section 4, {pid}')},
        'level_note': m.LEVEL_NOTE,
        'technique': m.TECHNIQUE,
    })
man = {
    'version': 1,
    'setup_cmd': "/venv/bin/pip install --quiet --no-index --no-deps --find-links /opt/veriftools/wheels --target /verif/.deps mpmath && /venv/bin/python -c \"import sys; sys.path.append('/verif/.deps'); import mpmath\"",
    'hooks': {
        'guard': 'SCIPPNEUTRON_VERIF',
        'enable': 'no source hooks: monitors attach to code objects of the working tree with sys.monitoring at run time (PYTHONPATH=/repo/src); nothing in /repo is instrumented',
        'baseline_off_cmd': 'cd /repo && /venv/bin/python -m pytest -ra -q -p no:cacheprovider --timeout=900 --continue-on-collection-errors',
        'source_commits': [],
        'add_only': True,
    },
    'engines': [{'name': 'rv', 'path': '/verif/rv', 'serves_properties': [c['property_id'] for c in checks],
                 'kind_free_text': 'runtime verification: sys.monitoring call-boundary monitors, independent reference models (long double / own decoders / simulators), artefact and history checkers; sharded runner with three-valued verdicts'}],
    'checks': checks,
    'not_applicable': na,
    'notes': 'exit 0 held / exit 1 VIOLATION / exit 2 INCONCLUSIVE (monitor never reached, watchdog, oracle self-test). Known findings: /verif/known_findings.json.',
}
with open(os.path.join(HERE, 'MANIFEST.json'), 'w') as f:
    json.dump(man, f, indent=1)
print('checks:', [c['property_id'] for c in checks], 'na:', [n['property_id'] for n in na])
