#!/bin/sh
# tools/mut.sh <patchfile|-e 'sed-expr' file> -- <ID> [tier]
# Applies a change to a scratch copy of /repo/src (never /repo itself), runs the
# check against the copy via RV_REPO_SRC, prints the verdict lines, removes the copy.
set -u
here="$(cd "$(dirname "$0")/.." && pwd)"
d=$(mktemp -d /tmp/rv-mut-XXXXXX)
trap 'rm -rf "$d"' EXIT
cp -r /repo/src "$d/src"
if [ "$1" = "-e" ]; then
  sed -i -E "$2" "$d/src/scippneutron/$3" || exit 3
  if cmp -s "$d/src/scippneutron/$3" "/repo/src/scippneutron/$3"; then echo "MUTATION DID NOT APPLY"; exit 3; fi
  shift 3
else
  pf="$(cd "$(dirname "$1")" && pwd)/$(basename "$1")"
  (cd "$d" && patch -p1 -s < "$pf") || { echo "PATCH FAILED"; exit 3; }
  shift 1
fi
[ "$1" = "--" ] && shift
id="$1"; tier="${2:-quick}"
RV_REPO_SRC="$d/src" "$here/check" "$id" "$tier" --no-evidence 2>&1 | grep -E "^(VIOLATION|HELD|INCONCLUSIVE|KNOWN-FINDING|  [A-Za-z0-9_.]+: )" | head -${MUT_LINES:-8}
