#!/venv/bin/python
"""tools/reach_report.py <ID> [tier] [--all-files]
Runs the check of one property with the reach monitor dumping everything it saw and prints, for the
source files the property is anchored in, what the workload did NOT execute: functions never entered,
lines never executed, conditional jumps only ever taken one way (with the source line).
Gap-hunting aid; nothing here is evidence."""
import json, os, subprocess, sys, tempfile, linecache, dis
here = os.path.dirname(os.path.dirname(os.path.abspath(__file__)))
sys.path.insert(0, here)
from rv import reach
from rv.runner import anchored_files
pid = sys.argv[1].upper(); tier = sys.argv[2] if len(sys.argv) > 2 and not sys.argv[2].startswith('-') else 'quick'
root = os.environ.get('RV_REPO_SRC', '/repo/src')
fd, dump = tempfile.mkstemp(suffix='.json'); os.close(fd)
env = dict(os.environ, RV_REACH_DUMP=dump)
out = subprocess.run([os.path.join(here, 'check'), pid, tier, '--no-evidence'], env=env, capture_output=True, text=True).stdout
print(out.strip().splitlines()[-1])
d = json.load(open(dump)); os.unlink(dump)
files = [f[4:] if f.startswith('src/') else f for f in anchored_files(pid)]
if '--all-files' in sys.argv:
    files = sorted(d)
for rel in files:
    uni = reach.universe(root, rel); seen = d.get(rel, {})
    path = os.path.join(root, rel)
    print(f'== {rel}')
    for k, (lines, branches) in sorted(uni.items(), key=lambda kv: int(kv[0].rsplit('@', 1)[1])):
        name = k.rsplit('@', 1)[0]
        if k not in seen:
            print(f'  NEVER ENTERED {k}'); continue
        s = seen[k]
        miss = sorted(lines - set(s['lines']))
        for ln in miss:
            print(f'  {name}: line {ln} not executed: {linecache.getline(path, ln).strip()[:110]}')
        by = {}
        for a, b in s['arms']: by.setdefault(a, set()).add(b)
        for off, ln in sorted(branches.items()):
            n = len(by.get(off, ()))
            if n < 2:
                print(f'  {name}: branch at line {ln} {"never evaluated" if n == 0 else "one-sided"}: {linecache.getline(path, ln).strip()[:110]}')
