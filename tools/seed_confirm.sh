#!/bin/sh
# tools/seed_confirm.sh <seeded/dir> : confirm a seeded change in a scratch worktree of /repo (never /repo itself):
#  patch applies to HEAD; demo exits non-zero with the patch and 0 without; the repository's tests for the touched
#  areas give the same result with and without the patch. Prints one line; removes the worktree.
dir="$(cd "$1" && pwd)"
wt=$(mktemp -d /tmp/seedconfirm-XXXXXX); rmdir "$wt"
git -C /repo worktree add --detach "$wt" HEAD -q || exit 2
trap 'git -C /repo worktree remove --force "$wt" >/dev/null 2>&1; rm -rf "$wt"' EXIT
cd "$wt" || exit 2
areas=$(grep '^+++ b/src/scippneutron/' "$dir/patch.diff" | sed 's#+++ b/src/scippneutron/##' | cut -d/ -f1 | sort -u)
tests=""
for a in $areas; do case "$a" in
  conversion|core|_utils|beamline_components.py) tests="$tests tests/conversion tests/convert_test.py tests/beamline_components_test.py";;
  chopper) tests="$tests tests/chopper tests/tof";; tof) tests="$tests tests/tof";;
  peaks) tests="$tests tests/peaks";; absorption) tests="$tests tests/absorption";;
  io) tests="$tests tests/io";; atoms) tests="$tests tests/atoms tests/absorption";; metadata) tests="$tests tests/metadata tests/io/cif_test.py";;
  *) tests="$tests tests";; esac; done
tests=$(echo $tests | tr ' ' '\n' | sort -u | tr '\n' ' ')
run_tests() { OMP_NUM_THREADS=1 OPENBLAS_NUM_THREADS=1 MKL_NUM_THREADS=1 PYTHONPATH="$wt/src" /venv/bin/python -m pytest -q -p no:cacheprovider --continue-on-collection-errors -p no:randomly -n 6 $tests 2>&1 | tail -1 | sed 's/ in [0-9.]*s.*//'; }
base_demo=$(PYTHONPATH="$wt/src" /venv/bin/python "$dir/demo.py" >/dev/null 2>&1; echo $?)
base_tests=$(run_tests)
git apply "$dir/patch.diff" 2>/dev/null || { echo "$(basename $dir): PATCH DOES NOT APPLY to HEAD"; exit 1; }
mut_demo=$(PYTHONPATH="$wt/src" /venv/bin/python "$dir/demo.py" >/dev/null 2>&1; echo $?)
mut_tests=$(run_tests)
ok="CONFIRMED"; [ "$base_demo" = 0 ] && [ "$mut_demo" != 0 ] && [ "$base_tests" = "$mut_tests" ] || ok="NOT-CONFIRMED"
echo "$(basename $dir): $ok demo(base=$base_demo,patched=$mut_demo) tests[$tests] base='$base_tests' patched='$mut_tests'"
