#!/venv/bin/python
"""Run confirmation + the property's quick check for each seeded change and record it in its meta.json.
usage: tools/seed_record.py seeded/C01-A [...]   (everything runs on scratch copies / scratch worktrees)"""
import json, os, subprocess, sys
here = os.path.dirname(os.path.dirname(os.path.abspath(__file__)))
for d in sys.argv[1:]:
    d = d.rstrip('/')
    meta_p = os.path.join(d, 'meta.json')
    meta = json.load(open(meta_p))
    conf = subprocess.run([os.path.join(here, 'tools/seed_confirm.sh'), d], capture_output=True, text=True).stdout.strip()
    ev = subprocess.run([os.path.join(here, 'tools/seed_eval.sh'), d, 'quick'], capture_output=True, text=True).stdout.strip()
    meta['verif'] = {
        'confirmed': conf.split(': ', 1)[-1] if conf else 'not run',
        'confirm_cmd': f'tools/seed_confirm.sh {d}',
        'check_cmd': f'tools/seed_eval.sh {d} quick   # = tools/mut.sh {d}/patch.diff -- {meta["property"]} quick',
        'check_result': ev,
        'note': meta.get('verif', {}).get('note', ''),
    }
    json.dump(meta, open(meta_p, 'w'), indent=1)
    print(d, '|', conf[:60], '|', ev[:110])
