#!/bin/sh
# tools/seed_eval.sh <seed-dir> [tier] [extra property ids...]
# Runs the check(s) of the property a seeded change breaks against a scratch copy of /repo/src
# with the change applied (tools/mut.sh), and prints one summary line per check.
here="$(cd "$(dirname "$0")/.." && pwd)"
dir="$1"; tier="${2:-quick}"; shift; [ $# -gt 0 ] && shift
prop=$(/venv/bin/python -c "import json,sys; print(json.load(open('$dir/meta.json'))['property'])")
for p in $prop "$@"; do
  out=$(MUT_LINES=40 "$here/tools/mut.sh" "$dir/patch.diff" -- "$p" "$tier")
  v=$(echo "$out" | grep -c '^VIOLATION')
  first=$(echo "$out" | grep -E '^  [A-Za-z0-9_.]+: ' | head -1 | cut -c1-150)
  verdict=$(echo "$out" | grep -E '^(HELD|INCONCLUSIVE|PATCH FAILED|MUTATION)' | head -1 | cut -c1-120)
  echo "$(basename $dir) $p $tier: violations=$v $verdict $first"
done
