#!/usr/bin/env python3
"""tools/rebase_seed.py <seeded/dir> <file under src/scippneutron> <<EOF-separated old/new>>
Re-create a seed's patch.diff against the current /repo HEAD: reads OLD and NEW text blocks from stdin separated by a
line '=====' ; OLD must occur exactly once in the current file."""
import os, shutil, subprocess, sys, tempfile
d, rel = sys.argv[1], sys.argv[2]
old, new = sys.stdin.read().split('\n=====\n')
src = open('/repo/src/scippneutron/' + rel).read()
assert src.count(old) == 1, src.count(old)
t = tempfile.mkdtemp()
for x in 'ab':
    os.makedirs(os.path.dirname(f'{t}/{x}/src/scippneutron/{rel}'))
open(f'{t}/a/src/scippneutron/{rel}', 'w').write(src)
open(f'{t}/b/src/scippneutron/{rel}', 'w').write(src.replace(old, new))
p = subprocess.run(['diff', '-u', f'a/src/scippneutron/{rel}', f'b/src/scippneutron/{rel}'], cwd=t, capture_output=True, text=True).stdout
open(os.path.join(d, 'patch.diff'), 'w').write(p)
shutil.rmtree(t)
print('rebased', d, len(p.splitlines()), 'lines')
