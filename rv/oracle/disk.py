"""A uniformly rotating chopper disk (independent of scippneutron).

Written from the definitions in the module documentation of
``scippneutron.chopper.disk_chopper`` (TDC, beam position, phase, slit begin/end
measured anticlockwise from TDC, signed frequency: positive = anticlockwise), not
from the package's formulas.

Model.  At chopper reference time t0' = t0 + delta_t the disk is in its reference
orientation: the disk point with disk angle theta sits at lab angle theta.  The disk
turns with signed angular speed omega (anticlockwise positive), so at time t the disk
point theta sits at lab angle ``theta + omega (t - t0')``.  The beam crosses the disk at
lab angle ``beam_position``.  Hence the disk angle under the beam at time offset
``dt = t - T0`` from the pulse is

    alpha(dt) = beam_position + phase - omega * dt   (mod 2 pi),   phase = omega (t0' - T0)

and the chopper is open iff alpha(dt) lies in some slit ``[begin_k, end_k]`` (mod 2 pi).
Everything is evaluated in long double; nothing solves for opening times.
"""

from __future__ import annotations

import numpy as np

LD = np.longdouble
PI = LD('3.14159265358979323846264338327950288419716939937510')
TWO_PI = 2 * PI
EPS64 = float(np.finfo(np.float64).eps)


class Disk:
    """omega [rad/s, signed], theta0 = beam_position + phase [rad], slits [rad]."""

    def __init__(self, omega, theta0, begin, end):
        self.omega = LD(omega)
        self.theta0 = LD(theta0)
        self.begin = np.asarray(begin, dtype=LD).ravel()
        self.end = np.asarray(end, dtype=LD).ravel()
        self.width = self.end - self.begin
        self.n = self.begin.size

    # -- state of the disk at a time offset ---------------------------------
    def alpha(self, dt):
        """Disk angle under the beam (not reduced)."""
        return self.theta0 - self.omega * np.asarray(dt, dtype=LD)

    def slit_at(self, dt):
        """Index of the slit over the beam at each time offset, -1 where closed."""
        a = self.alpha(dt)
        out = np.full(a.shape, -1, dtype=np.int64)
        for k in range(self.n):
            inside = np.mod(a - self.begin[k], TWO_PI) <= self.width[k]
            out = np.where(inside & (out < 0), k, out)
        return out

    def is_open(self, dt):
        return self.slit_at(dt) >= 0

    def n_slits_over_beam(self, dt):
        a = self.alpha(dt)
        c = np.zeros(a.shape, dtype=np.int64)
        for k in range(self.n):
            c += np.mod(a - self.begin[k], TWO_PI) <= self.width[k]
        return c

    def edge_distance(self, dt, k):
        """Angular distance [rad] from the beam to the nearest edge of slit(s) k."""
        a = self.alpha(dt)
        k = np.asarray(k)
        out = None
        for edge in (self.begin[k], self.end[k]):
            d = np.abs(np.mod(a - edge + PI, TWO_PI) - PI)
            out = d if out is None else np.minimum(out, d)
        return out

    # -- geometry of the slit set on the circle ------------------------------
    def circle_gaps(self):
        """Gaps [rad] between circularly consecutive slits (after sorting by begin mod
        2 pi), the last entry being the gap through 2 pi back to the first slit.
        A gap <= 0 means two slits overlap (or touch) on the disk."""
        b = np.mod(self.begin, TWO_PI)
        order = np.argsort(b, kind='stable')
        b, w = b[order], self.width[order]
        nxt = np.concatenate([b[1:], b[:1] + TWO_PI])
        return nxt - (b + w)

    def line_gaps(self):
        """The same with the angles taken as points on the real line (no wrap-around):
        what an overlap test that forgets the circle would see."""
        order = np.argsort(self.begin, kind='stable')
        b, e = self.begin[order], self.end[order]
        return b[1:] - e[:-1]

    def min_feature(self):
        """Narrowest slit or gap [rad]."""
        g = self.circle_gaps()
        return min(LD(np.min(self.width)), LD(np.min(g)))

    # -- scanning ------------------------------------------------------------
    def count_rising_edges(self, t_lo, t_hi, feature_fraction=8):
        """Number of closed->open transitions of is_open on [t_lo, t_hi], on a grid
        ``feature_fraction`` times finer than the narrowest slit or gap; an open state at
        t_lo counts as one opening."""
        step = self.min_feature() / feature_fraction / abs(self.omega)
        n = int(np.ceil((LD(t_hi) - LD(t_lo)) / step)) + 1
        total = 0
        prev = None
        chunk = 200_000
        i0 = 0
        while i0 < n:
            i1 = min(n, i0 + chunk)
            t = LD(t_lo) + np.arange(i0, i1).astype(LD) * step
            t = np.minimum(t, LD(t_hi))
            s = self.is_open(t)
            if prev is None:
                total += int(s[0])
            else:
                total += int((not prev) and s[0])
            total += int(np.count_nonzero(~s[:-1] & s[1:]))
            prev = bool(s[-1])
            i0 = i1
        return total, n


def slit_set_geometry(begin, end, band):
    """Is (begin, end) [rad] a slit set the documentation allows?

    Documented (module docstring of ``scippneutron.chopper.disk_chopper`` and the property
    text): every slit has ``begin < end``; slits may not overlap on the disk, also not
    through top-dead-centre -- which includes a slit that is wider than a full turn and
    therefore overlaps itself.  ``band`` [rad] is the width of the undecided band around
    every threshold (zero width, exactly one turn, touching slits).

    Returns a dict: ``verdict`` in {'valid', 'invalid', 'undecided', 'out_of_domain'},
    ``reason`` (primary: 'reversed' > 'self_overlap' > 'overlap'; or the undecided
    threshold), ``reasons`` (all that apply), ``margin`` (rad by which the primary
    condition is violated, or the smallest gap / width for a valid set), ``n``.
    """
    b = np.asarray(begin, dtype=LD)
    e = np.asarray(end, dtype=LD)
    if b.shape != e.shape or b.ndim > 1 or b.size == 0:
        return {'verdict': 'out_of_domain', 'reason': 'shape', 'reasons': ['shape'],
                'margin': None, 'n': int(b.size)}
    b, e = b.ravel(), e.ravel()
    if not (np.all(np.isfinite(b.astype(np.float64))) and np.all(np.isfinite(e.astype(np.float64)))):
        return {'verdict': 'out_of_domain', 'reason': 'non_finite', 'reasons': ['non_finite'],
                'margin': None, 'n': int(b.size)}
    band = LD(band)
    w = e - b
    invalid, undecided = {}, {}
    if np.any(w < -band):
        invalid['reversed'] = float(-np.min(w))
    if np.any(np.abs(w) <= band):
        undecided['zero_width'] = float(np.min(np.abs(w)))
    if np.any(w > TWO_PI + band):
        invalid['self_overlap'] = float(np.max(w) - TWO_PI)
    if np.any(np.abs(w - TWO_PI) <= band):
        undecided['full_turn'] = float(np.min(np.abs(w - TWO_PI)))
    # overlap between different slits: the slits of positive width, each cut to one turn
    pos = w > band
    mg = None
    if np.count_nonzero(pos) >= 2 or (np.count_nonzero(pos) == 1 and not invalid and not undecided):
        d = Disk(1, 0, b[pos], b[pos] + np.minimum(w[pos], TWO_PI))
        mg = LD(np.min(d.circle_gaps()))
        if np.count_nonzero(pos) >= 2:
            if mg < -band:
                invalid['overlap'] = float(-mg)
            elif mg <= band:
                undecided['touching'] = float(abs(mg))
    n = int(b.size)
    for name in ('reversed', 'self_overlap', 'overlap'):
        if name in invalid:
            return {'verdict': 'invalid', 'reason': name, 'reasons': sorted(invalid),
                    'margin': invalid[name], 'n': n}
    for name in ('zero_width', 'full_turn', 'touching'):
        if name in undecided:
            return {'verdict': 'undecided', 'reason': name, 'reasons': sorted(undecided),
                    'margin': undecided[name], 'n': n}
    margin = float(min(LD(np.min(w)), mg)) if mg is not None else float(np.min(w))
    return {'verdict': 'valid', 'reason': 'disjoint', 'reasons': [], 'margin': margin, 'n': n}


def ratio_distance(f_hz, fp_hz, nmax=64):
    """Relative distance of |f|/fp from the nearest integer n or inverse integer 1/n.

    Returns (kind, n, rel) with kind 'multiple' (ratio ~ n) or 'divisor' (ratio ~ 1/n).
    """
    r = abs(LD(f_hz)) / LD(fp_hz)
    n = np.arange(1, nmax + 1).astype(LD)
    inv = LD(1) / n
    rel_m = np.abs(r - n) / n
    rel_d = np.abs(r - inv) / inv
    i_m, i_d = int(np.argmin(rel_m)), int(np.argmin(rel_d))
    # order of preference on ties: (1, multiple), (1, divisor), (2, multiple), ...
    if rel_m[i_m] < rel_d[i_d] or (rel_m[i_m] == rel_d[i_d] and i_m <= i_d):
        best = ('multiple', i_m + 1, rel_m[i_m])
    else:
        best = ('divisor', i_d + 1, rel_d[i_d])
    return best[0], best[1], float(best[2]), float(r)
