"""Reference models for C19: plateau segmentation, collapse intervals, in-phase predicate.

Written from the documentation of ``find_plateaus`` / ``collapse_plateaus`` /
``filter_in_phase`` and the property text.  Nothing here imports scippneutron;
scipp is only used to *identify* units (equality), conversion factors come from the
independent exact table in ``rv.oracle.si``.
"""

from __future__ import annotations

from fractions import Fraction

import numpy as np
import scipp as sc

from rv.oracle import si

LD = np.longdouble
EPS64 = float(np.finfo(np.float64).eps)
EPS32 = float(np.finfo(np.float32).eps)


# ------------------------------------------------------------ segmentation ---
def as_number_array(a: np.ndarray) -> np.ndarray:
    """datetime64 -> its int64 tick count (differences of time points are integers)."""
    a = np.asarray(a)
    if a.dtype.kind == 'M':
        return a.astype('int64')
    return a


def slopes(y: np.ndarray, x: np.ndarray) -> np.ndarray:
    """The documented derivative: (y[i+1] - y[i]) / (x[i+1] - x[i]), same IEEE expression."""
    y = as_number_array(y)
    x = as_number_array(x)
    with np.errstate(all='ignore'):
        return (y[1:] - y[:-1]) / (x[1:] - x[:-1])


def strong(thr):
    """The tolerance as a numpy scalar of its own type (a Python float would be demoted
    to float32 when compared with a float32 array; the definition compares exactly)."""
    if isinstance(thr, bool | np.bool_):
        raise TypeError('boolean tolerance')
    if isinstance(thr, int | np.integer):
        return np.int64(thr)
    return np.float64(thr)


def runs_from_breaks(brk: np.ndarray, n: int, min_n: int) -> list[tuple[int, int]]:
    """Maximal runs [a, b) of consecutive points without a break, at least min_n long."""
    cuts = np.flatnonzero(brk) + 1
    starts = np.concatenate([[0], cuts])
    stops = np.concatenate([cuts, [n]])
    return [(int(a), int(b)) for a, b in zip(starts, stops, strict=True) if b - a >= min_n]


def segment(y, x, thr, min_n):
    """Break between i and i+1 iff |slope_i| > thr.  Returns (runs, |slopes|)."""
    s = np.abs(slopes(y, x))
    thr = strong(thr)
    with np.errstate(invalid='ignore'):
        brk = s > thr
    return runs_from_breaks(brk, len(np.asarray(y)), min_n), s


def segment_scaled(y, x, atol_value, factor: Fraction, min_n, ulps=16):
    """Threshold given in another unit: thr = atol * factor, known only to rounding.

    Returns (runs | None, |slopes|); None when a slope lies within ``ulps`` of the
    converted threshold (undecided).
    """
    s = np.abs(slopes(y, x))
    thr = LD(atol_value) * si.ld(factor)
    band = abs(thr) * LD(ulps) * LD(EPS64)
    sl = s.astype(LD)
    with np.errstate(invalid='ignore'):
        hi = sl > thr + band
        lo = sl > thr - band
    if np.any(hi != lo):
        return None, s
    return runs_from_breaks(hi, len(np.asarray(y)), min_n), s


# ------------------------------------------------------------------- units ---
_UCACHE: dict = {}


def _base_of(unit):
    try:
        return si.lookup(unit)
    except KeyError:
        return None


def derivative_factor(atol_unit, data_unit, coord_unit):
    """Exact factor F with  atol [atol_unit] = atol * F [data_unit / coord_unit].

    The tolerance is documented as a tolerance *for the derivative*, whose unit is
    data unit / coordinate unit.  Returns None when a unit is outside the table or the
    dimensions do not match (then the case is not judged).
    """
    key = (repr(atol_unit), repr(data_unit), repr(coord_unit))
    if key in _UCACHE:
        return _UCACHE[key]
    out = None
    d = _base_of(data_unit)
    c = _base_of(coord_unit)
    if d is not None and c is not None:
        want = d[0] / c[0]
        for dn, (df, dd) in si.BASE.items():
            if si._D[dd] != d[1]:
                continue
            for cn, (cf, cd) in si.BASE.items():
                if si._D[cd] != c[1]:
                    continue
                try:
                    u = sc.Unit(dn) / sc.Unit(cn)
                except Exception:  # noqa: BLE001
                    continue
                if u == atol_unit:
                    out = (df / cf) / want
                    break
            if out is not None:
                break
    _UCACHE[key] = out
    return out


# ---------------------------------------------------------------- collapse ---
def next_above(a: np.ndarray) -> np.ndarray:
    """Smallest representable coordinate value above each element."""
    a = np.asarray(a)
    if a.dtype.kind == 'f':
        with np.errstate(over='ignore'):
            return np.nextafter(a, np.array(np.inf, dtype=a.dtype))
    return as_number_array(a) + 1


def mean_ld(y: np.ndarray):
    y = as_number_array(y).astype(LD)
    return y.sum() / LD(len(y)), np.abs(y).sum() / LD(len(y))


# ---------------------------------------------------------------- in phase ---
def in_phase_decision(f: np.ndarray, ref, rtol: float, eps: float):
    """Decide each element: +1 keep, -1 remove, 0 undecided (band), 2 ambiguous (n = 0 divisor).

    keep  iff |f/ref - n| < rtol for an integer n, or |ref/f - n| < rtol for a non-zero
    integer n.  Decided outside a factor-2 band around rtol, widened by the rounding
    of the quotient in the working precision ``eps``.
    The 'zeroth divisor' (|ref/f| < rtol, i.e. round(ref/f) == 0) is reported
    separately: "multiple of the reference or vice versa" read symmetrically allows
    n = 0 on both sides, "integer divisor" does not.
    """
    f = np.asarray(f).astype(LD)
    ref = LD(ref)
    rt = LD(rtol)
    with np.errstate(all='ignore'):
        q = f / ref
        d1 = np.abs(q - np.rint(q))
        e1 = 4 * LD(eps) * np.maximum(np.abs(q), 1)
        r = ref / f
        n2 = np.rint(r)
        d2 = np.abs(r - n2)
        e2 = 8 * LD(eps) * np.maximum(np.abs(r), 1)
    zero_f = f == 0
    d2 = np.where(zero_f, LD(np.inf), d2)  # ref/0: no integer n is within rtol
    e2 = np.where(zero_f, LD(0), e2)
    n2 = np.where(zero_f, LD(1), n2)
    keep1 = d1 + e1 < rt / 2
    keep2 = (n2 != 0) & (d2 + e2 < rt / 2)
    far1 = d1 - e1 > 2 * rt
    far2 = d2 - e2 > 2 * rt
    out = np.zeros(f.shape, dtype=np.int8)
    out[keep1 | keep2] = 1
    out[far1 & far2] = -1
    amb = far1 & (n2 == 0) & ~far2
    out[amb] = 2
    bad = ~np.isfinite(q)
    out[bad] = 0
    return out, {'d1': d1, 'd2': d2, 'n2': n2, 'q': q}
