"""Analytic definitions of the peak / background shapes, in long double.

Written from the mathematical definitions (normalised Gaussian, Cauchy-Lorentz
distribution, pseudo-Voigt as a convex mix of the two *with equal FWHM*,
power-basis polynomial).  Nothing here imports scippneutron.

Every ``*_ref`` function returns ``(value, tol)``: the value of the closed form
at the given abscissae (exactly the floats passed, lifted to long double) and an
absolute tolerance that is a forward error bound of the *definition* evaluated in
float64 at those inputs, inflated to 64 eps:

* Lorentzian: sums of non-negative terms only -> 64 eps |f|.
* Gaussian: exp(-z) amplifies the rounding of its argument by z ->
  64 eps (1 + z) |f| with z = (x - mu)^2 / (2 sigma^2).
* polynomial: Horner / power-sum forward bound -> 64 eps sum |a_i| |x|^i
  (gamma_2n = 2 n u <= 6 eps for degree 6).
* sums of parts: the tolerances of the parts plus 64 eps (|l| + |r|).

A floor of 1e-300 absorbs gradual underflow of float64 in the far Gaussian tail
(the long-double reference itself does not underflow there).  For z > ~708 the
float64 value of exp(-z) is subnormal and carries an *absolute* rounding error (unit
roundoff 2^-1075) which the prefactor A / (sqrt(2 pi) sigma) multiplies: the Gaussian
bound has the term 64 * 2^-1075 * |A| / (sqrt(2 pi) sigma) (below the floor
for |A| <= 1e6, sigma >= 1e-6; it matters for the amplitudes of 1e30 that ``guess``
returns for data dominated by a polynomial background).
"""

from __future__ import annotations

import numpy as np

LD = np.longdouble
EPS = float(np.finfo(np.float64).eps)
K = 64.0
FLOOR = LD('1e-300')
SUBNORMAL = LD(2) ** LD(-1075)  # absolute unit roundoff of float64 in the subnormal range

PI = LD('3.14159265358979323846264338327950288419716939937510')
TWO = LD(2)
LN2 = np.log(TWO)
SQRT_2PI = np.sqrt(TWO * PI)
# sigma_G = scale / sqrt(2 ln 2): the Gaussian with FWHM 2*scale
SQRT_2LN2 = np.sqrt(TWO * LN2)
GAUSS_FWHM_FACTOR = TWO * SQRT_2LN2  # 2 sqrt(2 ln 2) = 2.3548200450309493...


def _ld(x):
    return np.asarray(x, dtype=LD)


def gaussian_ref(x, amplitude, loc, scale):
    x, a, m, s = _ld(x), LD(amplitude), LD(loc), LD(scale)
    d = x - m
    z = d * d / (TWO * s * s)
    val = a / (SQRT_2PI * s) * np.exp(-z)
    tol = LD(K * EPS) * (LD(1) + z) * np.abs(val) + LD(K) * np.abs(a / (SQRT_2PI * s)) * SUBNORMAL + FLOOR
    return val, tol


def lorentzian_ref(x, amplitude, loc, scale):
    x, a, m, s = _ld(x), LD(amplitude), LD(loc), LD(scale)
    d = x - m
    val = a / PI * s / (d * d + s * s)
    tol = LD(K * EPS) * np.abs(val) + FLOOR
    return val, tol


def pseudo_voigt_ref(x, amplitude, loc, scale, fraction):
    """fraction * L(scale) + (1 - fraction) * G(sigma_G), both with FWHM 2*scale."""
    f = LD(fraction)
    lv, lt = lorentzian_ref(x, amplitude, loc, scale)
    sg = LD(scale) / SQRT_2LN2
    gv, gt = gaussian_ref(x, amplitude, loc, sg)
    val = f * lv + (LD(1) - f) * gv
    tol = np.abs(f) * lt + np.abs(LD(1) - f) * gt + LD(K * EPS) * (
        np.abs(f * lv) + np.abs((LD(1) - f) * gv)) + FLOOR
    return val, tol


def polynomial_ref(x, coeffs):
    """sum_i coeffs[i] x^i (term by term, no Horner) and the bound on sum |a_i||x|^i."""
    x = _ld(x)
    val = np.zeros(x.shape, dtype=LD)
    mag = np.zeros(x.shape, dtype=LD)
    p = np.ones(x.shape, dtype=LD)
    for c in coeffs:
        t = LD(c) * p
        val = val + t
        mag = mag + np.abs(t)
        p = p * x
    tol = LD(K * EPS) * mag + FLOOR
    return val, tol


def sum_ref(lv, lt, rv, rt):
    val = lv + rv
    tol = lt + rt + LD(K * EPS) * (np.abs(lv) + np.abs(rv)) + FLOOR
    return val, tol


# ------------------------------------------------------------ quadrature ---
_GL_CACHE: dict[int, tuple] = {}


def gauss_legendre(n: int):
    """Nodes and weights of n-point Gauss-Legendre on (-1, 1), long double.

    numpy's float64 nodes are polished by Newton steps on P_n evaluated with the
    three-term recurrence in long double.
    """
    hit = _GL_CACHE.get(n)
    if hit is not None:
        return hit
    x0, _ = np.polynomial.legendre.leggauss(n)
    x = x0.astype(LD)
    for _ in range(3):
        p0 = np.ones_like(x)
        p1 = x.copy()
        for k in range(2, n + 1):
            p0, p1 = p1, ((2 * k - 1) * x * p1 - (k - 1) * p0) / LD(k)
        dp = LD(n) * (x * p1 - p0) / (x * x - LD(1))
        x = x - p1 / dp
    p0 = np.ones_like(x)
    p1 = x.copy()
    for k in range(2, n + 1):
        p0, p1 = p1, ((2 * k - 1) * x * p1 - (k - 1) * p0) / LD(k)
    dp = LD(n) * (x * p1 - p0) / (x * x - LD(1))
    w = TWO / ((LD(1) - x * x) * dp * dp)
    _GL_CACHE[n] = (x, w)
    return x, w


def tan_nodes(loc, scale, n: int = 400):
    """Quadrature abscissae x = loc + scale tan(u), u Gauss-Legendre on (-pi/2, pi/2).

    Returns (x as float64 -- what is handed to the model --, weights in long double
    that already contain the interval scaling).  The Jacobian is *not* included: it is
    recomputed from the rounded abscissa by ``integrate``.
    """
    t, w = gauss_legendre(n)
    u = t * (PI / TWO)
    x = (LD(loc) + LD(scale) * np.tan(u)).astype(np.float64)
    return x, w * (PI / TWO)


def integrate(values, x64, weights, loc, scale):
    """sum_k w_k f(x_k) dx/du(x_k) with dx/du = scale (1 + ((x_k - loc)/scale)^2)."""
    s = LD(scale)
    t = (_ld(x64) - LD(loc)) / s
    jac = s * (LD(1) + t * t)
    return np.sum(weights * _ld(values) * jac)


def two_sum_exact(a, b, target):
    """Elementwise: a + b == target exactly (error-free transformation, float64)."""
    a = np.asarray(a, dtype=np.float64)
    b = np.asarray(b, dtype=np.float64)
    s = a + b
    bb = s - a
    err = (a - (s - bb)) + (b - bb)
    return (s == target) & (err == 0.0) & np.isfinite(s)


def self_test(n: int = 400):
    """Quadrature of the closed forms themselves; returns max relative defect."""
    worst = LD(0)
    for loc, scale, frac in ((0.0, 1.0, 0.3), (1000.0, 1.0, 0.0), (-3.7e-4, 1e-6, 1.0),
                             (2.5e8, 1e6, 0.6), (0.125, 7.3, 0.5)):
        x, w = tan_nodes(loc, scale, n)
        for ref in (lambda xx: gaussian_ref(xx, 2.5, loc, scale)[0],
                    lambda xx: lorentzian_ref(xx, 2.5, loc, scale)[0],
                    lambda xx: pseudo_voigt_ref(xx, 2.5, loc, scale, frac)[0]):
            got = integrate(ref(x), x, w, loc, scale)
            worst = max(worst, abs(got - LD(2.5)) / LD(2.5))
    return float(worst)
