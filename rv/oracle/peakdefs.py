"""Analytic definitions of the peak / background shapes, in long double.

Written from the mathematical definitions (normalised Gaussian, Cauchy-Lorentz
distribution, pseudo-Voigt as a convex mix of the two *with equal FWHM*,
power-basis polynomial).  Nothing here imports scippneutron.

Every ``*_ref`` function returns ``(value, tol)``: the value of the closed form
at the given abscissae (exactly the floats passed, lifted to long double) and an
absolute tolerance that is a forward error bound of the *definition* evaluated in
float64 at those inputs, inflated to 64 eps:

* Lorentzian: sums of non-negative terms only -> 64 eps |f|.
* Gaussian: exp(-z) amplifies the rounding of its argument by z ->
  64 eps (1 + z) |f| with z = (x - mu)^2 / (2 sigma^2).
* polynomial: Horner / power-sum forward bound -> 64 eps sum |a_i| |x|^i
  (gamma_2n = 2 n u <= 6 eps for degree 6).
* sums of parts: the tolerances of the parts plus 64 eps (|l| + |r|).

A floor of 1e-300 absorbs gradual underflow of float64 in the far Gaussian tail
(the long-double reference itself does not underflow there).  For z > ~708 the
float64 value of exp(-z) is subnormal and carries an *absolute* rounding error (unit
roundoff 2^-1075) which the prefactor A / (sqrt(2 pi) sigma) multiplies: the Gaussian
bound has the term 64 * 2^-1075 * |A| / (sqrt(2 pi) sigma) (below the floor
for |A| <= 1e6, sigma >= 1e-6; it matters for the amplitudes of 1e30 that ``guess``
returns for data dominated by a polynomial background).
"""

from __future__ import annotations

from fractions import Fraction

import numpy as np

LD = np.longdouble
EPS = float(np.finfo(np.float64).eps)
K = 64.0
FLOOR = LD('1e-300')
SUBNORMAL = LD(2) ** LD(-1075)  # absolute unit roundoff of float64 in the subnormal range

PI = LD('3.14159265358979323846264338327950288419716939937510')
TWO = LD(2)
LN2 = np.log(TWO)
SQRT_2PI = np.sqrt(TWO * PI)
# sigma_G = scale / sqrt(2 ln 2): the Gaussian with FWHM 2*scale
SQRT_2LN2 = np.sqrt(TWO * LN2)
GAUSS_FWHM_FACTOR = TWO * SQRT_2LN2  # 2 sqrt(2 ln 2) = 2.3548200450309493...


def _ld(x):
    return np.asarray(x, dtype=LD)


def gaussian_ref(x, amplitude, loc, scale):
    x, a, m, s = _ld(x), LD(amplitude), LD(loc), LD(scale)
    d = x - m
    z = d * d / (TWO * s * s)
    val = a / (SQRT_2PI * s) * np.exp(-z)
    tol = LD(K * EPS) * (LD(1) + z) * np.abs(val) + LD(K) * np.abs(a / (SQRT_2PI * s)) * SUBNORMAL + FLOOR
    return val, tol


def lorentzian_ref(x, amplitude, loc, scale):
    x, a, m, s = _ld(x), LD(amplitude), LD(loc), LD(scale)
    d = x - m
    val = a / PI * s / (d * d + s * s)
    tol = LD(K * EPS) * np.abs(val) + FLOOR
    return val, tol


def pseudo_voigt_ref(x, amplitude, loc, scale, fraction):
    """fraction * L(scale) + (1 - fraction) * G(sigma_G), both with FWHM 2*scale."""
    f = LD(fraction)
    lv, lt = lorentzian_ref(x, amplitude, loc, scale)
    sg = LD(scale) / SQRT_2LN2
    gv, gt = gaussian_ref(x, amplitude, loc, sg)
    val = f * lv + (LD(1) - f) * gv
    tol = np.abs(f) * lt + np.abs(LD(1) - f) * gt + LD(K * EPS) * (
        np.abs(f * lv) + np.abs((LD(1) - f) * gv)) + FLOOR
    return val, tol


def polynomial_ref(x, coeffs):
    """sum_i coeffs[i] x^i (term by term, no Horner) and the bound on sum |a_i||x|^i."""
    x = _ld(x)
    val = np.zeros(x.shape, dtype=LD)
    mag = np.zeros(x.shape, dtype=LD)
    p = np.ones(x.shape, dtype=LD)
    for c in coeffs:
        t = LD(c) * p
        val = val + t
        mag = mag + np.abs(t)
        p = p * x
    tol = LD(K * EPS) * mag + FLOOR
    return val, tol


def sum_ref(lv, lt, rv, rt):
    val = lv + rv
    tol = lt + rt + LD(K * EPS) * (np.abs(lv) + np.abs(rv)) + FLOOR
    return val, tol


# ------------------------------------------------------------ quadrature ---
_GL_CACHE: dict[int, tuple] = {}


def gauss_legendre(n: int):
    """Nodes and weights of n-point Gauss-Legendre on (-1, 1), long double.

    numpy's float64 nodes are polished by Newton steps on P_n evaluated with the
    three-term recurrence in long double.
    """
    hit = _GL_CACHE.get(n)
    if hit is not None:
        return hit
    x0, _ = np.polynomial.legendre.leggauss(n)
    x = x0.astype(LD)
    for _ in range(3):
        p0 = np.ones_like(x)
        p1 = x.copy()
        for k in range(2, n + 1):
            p0, p1 = p1, ((2 * k - 1) * x * p1 - (k - 1) * p0) / LD(k)
        dp = LD(n) * (x * p1 - p0) / (x * x - LD(1))
        x = x - p1 / dp
    p0 = np.ones_like(x)
    p1 = x.copy()
    for k in range(2, n + 1):
        p0, p1 = p1, ((2 * k - 1) * x * p1 - (k - 1) * p0) / LD(k)
    dp = LD(n) * (x * p1 - p0) / (x * x - LD(1))
    w = TWO / ((LD(1) - x * x) * dp * dp)
    _GL_CACHE[n] = (x, w)
    return x, w


def tan_nodes(loc, scale, n: int = 400):
    """Quadrature abscissae x = loc + scale tan(u), u Gauss-Legendre on (-pi/2, pi/2).

    Returns (x as float64 -- what is handed to the model --, weights in long double
    that already contain the interval scaling).  The Jacobian is *not* included: it is
    recomputed from the rounded abscissa by ``integrate``.
    """
    t, w = gauss_legendre(n)
    u = t * (PI / TWO)
    x = (LD(loc) + LD(scale) * np.tan(u)).astype(np.float64)
    return x, w * (PI / TWO)


def integrate(values, x64, weights, loc, scale):
    """sum_k w_k f(x_k) dx/du(x_k) with dx/du = scale (1 + ((x_k - loc)/scale)^2)."""
    s = LD(scale)
    t = (_ld(x64) - LD(loc)) / s
    jac = s * (LD(1) + t * t)
    return np.sum(weights * _ld(values) * jac)


def two_sum_exact(a, b, target):
    """Elementwise: a + b == target exactly (error-free transformation, float64)."""
    a = np.asarray(a, dtype=np.float64)
    b = np.asarray(b, dtype=np.float64)
    s = a + b
    bb = s - a
    err = (a - (s - bb)) + (b - bb)
    return (s == target) & (err == 0.0) & np.isfinite(s)


def self_test(n: int = 400):
    """Quadrature of the closed forms themselves; returns max relative defect."""
    worst = LD(0)
    for loc, scale, frac in ((0.0, 1.0, 0.3), (1000.0, 1.0, 0.0), (-3.7e-4, 1e-6, 1.0),
                             (2.5e8, 1e6, 0.6), (0.125, 7.3, 0.5)):
        x, w = tan_nodes(loc, scale, n)
        for ref in (lambda xx: gaussian_ref(xx, 2.5, loc, scale)[0],
                    lambda xx: lorentzian_ref(xx, 2.5, loc, scale)[0],
                    lambda xx: pseudo_voigt_ref(xx, 2.5, loc, scale, frac)[0]):
            got = integrate(ref(x), x, w, loc, scale)
            worst = max(worst, abs(got - LD(2.5)) / LD(2.5))
    return float(worst)


# ------------------------------------------------- sensitivity to the inputs ---
def peak_ref_inputs(kind, x, amplitude, loc, scale, fraction=None):
    """Closed form (long-double arguments allowed) and a tolerance that also covers a relative
    rounding of 64 eps in every *input* (abscissa, location, scale): what an evaluation that first
    brings the arguments to a common unit is entitled to.  d f/dx is taken from the definitions:
    Gaussian f' = -f d/s^2, Lorentzian f' = -2 f d/(d^2 + s^2); the scale enters with
    |s df/ds| <= (1 + 2 z) |f| (Gaussian), <= |f| (Lorentzian)."""
    x, a, m, s = _ld(x), LD(amplitude), LD(loc), LD(scale)
    d = x - m
    span = np.abs(x) + np.abs(m)

    def gauss(sig):
        v, t = gaussian_ref(x, a, m, sig)
        z = d * d / (TWO * sig * sig)
        return v, t + LD(K * EPS) * np.abs(v) * (span * np.abs(d) / (sig * sig) + LD(1) + TWO * z)

    def lorentz():
        v, t = lorentzian_ref(x, a, m, s)
        return v, t + LD(K * EPS) * np.abs(v) * (span * TWO * np.abs(d) / (d * d + s * s) + LD(1))

    if kind == 'gauss':
        return gauss(s)
    if kind == 'lorentz':
        return lorentz()
    f = LD(fraction)
    lv, lt = lorentz()
    gv, gt = gauss(s / SQRT_2LN2)
    val = f * lv + (LD(1) - f) * gv
    tol = np.abs(f) * lt + np.abs(LD(1) - f) * gt + LD(K * EPS) * (
        np.abs(lv) + np.abs(gv)) + FLOOR
    return val, tol


# ------------------------------------------------------------------ units ---
# Own model of the units the C16 workload hands to the models: a unit is a *descriptor*, a tuple of
# (base name, integer exponent); its SI factor (exact Fraction) and its dimension vector are computed
# here from the table below.  scipp is used (a) to build the container unit from a descriptor by unit
# algebra (product of sc.Unit(base) ** exponent) and (b) to *identify* an observed unit by equality
# with a unit built that way -- never to obtain a conversion factor.  ``units_self_test`` cross-checks
# the base table against sc.to_unit once per process (a disagreement makes the run inconclusive).
DIM_NAMES = ('length', 'mass', 'time', 'temperature', 'angle', 'counts')
# a difference in one of these components is a dimensional inconsistency beyond doubt; 'angle' and
# 'counts' are pure numbers in SI (scipp keeps them apart, an implementation need not): a difference in
# those alone is never judged
HARD = (0, 1, 2, 3)
ZERO_DIM = (0, 0, 0, 0, 0, 0)
_PI_F = Fraction('3.14159265358979323846264338327950288419716939937510')
_E_CHARGE = Fraction(1602176634, 10**28)  # exact by definition (2019 SI)


def _dim(**kw):
    return tuple(kw.get(n, 0) for n in DIM_NAMES)


_L, _M, _T, _TH, _ANG, _CNT = (_dim(length=1), _dim(mass=1), _dim(time=1), _dim(temperature=1),
                               _dim(angle=1), _dim(counts=1))
_EN = _dim(length=2, mass=1, time=-2)
UNIT_BASE = {
    # name: (SI factor, dimension, SI unit to cross-check against)
    'm': (Fraction(1), _L, 'm'), 'cm': (Fraction(1, 100), _L, 'm'), 'mm': (Fraction(1, 1000), _L, 'm'),
    'um': (Fraction(1, 10**6), _L, 'm'), 'nm': (Fraction(1, 10**9), _L, 'm'),
    'angstrom': (Fraction(1, 10**10), _L, 'm'), 'km': (Fraction(1000), _L, 'm'),
    's': (Fraction(1), _T, 's'), 'ms': (Fraction(1, 1000), _T, 's'), 'us': (Fraction(1, 10**6), _T, 's'),
    'ns': (Fraction(1, 10**9), _T, 's'),
    'kg': (Fraction(1), _M, 'kg'), 'g': (Fraction(1, 1000), _M, 'kg'), 'mg': (Fraction(1, 10**6), _M, 'kg'),
    'K': (Fraction(1), _TH, 'K'), 'mK': (Fraction(1, 1000), _TH, 'K'),
    'rad': (Fraction(1), _ANG, 'rad'), 'deg': (_PI_F / 180, _ANG, 'rad'), 'mrad': (Fraction(1, 1000), _ANG, 'rad'),
    'counts': (Fraction(1), _CNT, 'counts'),
    'percent': (Fraction(1, 100), ZERO_DIM, 'dimensionless'),
    'J': (Fraction(1), _EN, 'J'), 'kJ': (Fraction(1000), _EN, 'J'), 'eV': (_E_CHARGE, _EN, 'J'),
    'meV': (_E_CHARGE / 1000, _EN, 'J'),
}


def siblings(base):
    """Other base units of the same dimension (a different scale of the same quantity)."""
    f, d, _ = UNIT_BASE[base]
    return [b for b, (bf, bd, _) in UNIT_BASE.items() if bd == d and bf != f]


def u_mul(a, b, k=1):
    """Descriptor of a * b**k."""
    exps: dict = {}
    for base, e in a:
        exps[base] = exps.get(base, 0) + e
    for base, e in b:
        exps[base] = exps.get(base, 0) + k * e
    return tuple((base, e) for base, e in exps.items() if e != 0)


def u_pow(a, k):
    return u_mul((), a, k)


def u_factor(desc) -> Fraction:
    f = Fraction(1)
    for base, e in desc:
        f *= UNIT_BASE[base][0] ** e
    return f


def u_dim(desc):
    d = list(ZERO_DIM)
    for base, e in desc:
        for i, c in enumerate(UNIT_BASE[base][1]):
            d[i] += e * c
    return tuple(d)


def u_name(desc):
    if not desc:
        return 'dimensionless'
    return '*'.join(base if e == 1 else f'{base}^{e}' for base, e in desc)


def dim_add(a, b, k=1):
    return tuple(x + k * y for x, y in zip(a, b, strict=True))


def dim_relation(a, b):
    """'same' | 'soft' (differ in angle / counts only) | 'hard' (differ in length, mass, time, temperature)."""
    if tuple(a) == tuple(b):
        return 'same'
    if any(a[i] != b[i] for i in HARD):
        return 'hard'
    return 'soft'


class UnitTableError(Exception):
    pass


_UNIT_REG: list = []  # (container unit, Fraction factor, dimension, name)
_UNIT_CACHE: dict = {}  # repr of an observed unit -> (factor, dimension); positive hits only
_DESC_CACHE: dict = {}  # descriptor -> container unit


def _frac_ld(f: Fraction):
    return LD(str(f.numerator)) / LD(str(f.denominator))


def u_register(desc):
    """Container unit of a descriptor; remembers (factor, dimension) for ``u_lookup``."""
    import scipp as sc

    desc = tuple(desc)
    u = _DESC_CACHE.get(desc)
    if u is not None:
        return u
    u = sc.Unit('dimensionless')
    for base, e in desc:
        u = u * sc.Unit(base) ** e
    f, d = u_factor(desc), u_dim(desc)
    for ru, rf, rd, rn in _UNIT_REG:
        if ru == u:
            # scipp compares multipliers with a tolerance; mathematically equal descriptors give the same Fraction
            if rd != d or abs(rf - f) > Fraction(1, 10**9) * abs(f):
                raise UnitTableError(f'{u_name(desc)} and {rn} are the same unit for scipp but differ in the table')
            break
    else:
        _UNIT_REG.append((u, f, d, u_name(desc)))
    _DESC_CACHE[desc] = u
    return u


def u_lookup(unit):
    """(long-double SI factor, dimension) of an observed unit; KeyError when it was never registered."""
    key = repr(unit) + '|' + str(unit)
    hit = _UNIT_CACHE.get(key)
    if hit is None:
        for ru, rf, rd, _ in _UNIT_REG:
            if ru == unit:
                hit = (_frac_ld(rf), rd)
                break
        else:
            raise KeyError(f'unit {unit!r} was not built from the independent table')
        _UNIT_CACHE[key] = hit
    return hit


def units_self_test():
    """Base table against sc.to_unit (once per process); list of disagreements."""
    import scipp as sc

    bad = []
    for name, (f, _, target) in UNIT_BASE.items():
        try:
            got = float(sc.scalar(1.0, unit=name).to(unit=target).value)
        except Exception as e:  # noqa: BLE001
            bad.append(f'{name}: {type(e).__name__}: {e}')
            continue
        if abs(got - float(f)) > 4e-16 * float(f):
            bad.append(f'{name}: scipp {got!r}, table {float(f)!r}')
    return bad
