"""Independent SI unit table and long-double helpers.

Nothing here imports scippneutron.  scipp is used (a) to *identify* a unit
(equality with ``sc.Unit(name)``), never to obtain a conversion factor, and
(b) once per process in ``self_test`` to cross-check the table against
``sc.to_unit`` — a disagreement makes a run inconclusive.
"""

from __future__ import annotations

from fractions import Fraction

import numpy as np
import scipp as sc
import scipp.constants  # noqa: F401  (needed for sc.constants)

LD = np.longdouble
EPS64 = float(np.finfo(np.float64).eps)
EPS32 = float(np.finfo(np.float32).eps)
PI = LD('3.14159265358979323846264338327950288419716939937510')

E_CHARGE = Fraction(1602176634, 10**28)  # exact by definition (2019 SI)
DALTON = Fraction('1.6605388628e-27')  # the value scipp's unit library uses for 'u'


def ld(x) -> np.longdouble:
    """Exact-as-possible long double from int / Fraction / float / str."""
    if isinstance(x, Fraction):
        return LD(str(x.numerator)) / LD(str(x.denominator))
    if isinstance(x, int):
        return LD(str(x))
    return LD(x)


# dimension vectors: (m, kg, s, rad, counts)
_D = {
    'time': (0, 0, 1, 0, 0),
    'length': (1, 0, 0, 0, 0),
    'energy': (2, 1, -2, 0, 0),
    'angle': (0, 0, 0, 1, 0),
    'frequency': (0, 0, -1, 0, 0),
    'area': (2, 0, 0, 0, 0),
    'mass': (0, 1, 0, 0, 0),
    'one': (0, 0, 0, 0, 0),
    'counts': (0, 0, 0, 0, 1),
}

_PI_F = Fraction('3.14159265358979323846264338327950288419716939937510')

BASE = {
    # time
    'ps': (Fraction(1, 10**12), 'time'),
    'ns': (Fraction(1, 10**9), 'time'),
    'us': (Fraction(1, 10**6), 'time'),
    'ms': (Fraction(1, 10**3), 'time'),
    's': (Fraction(1), 'time'),
    'min': (Fraction(60), 'time'),
    'h': (Fraction(3600), 'time'),
    # length
    'fm': (Fraction(1, 10**15), 'length'),
    'pm': (Fraction(1, 10**12), 'length'),
    'angstrom': (Fraction(1, 10**10), 'length'),
    'nm': (Fraction(1, 10**9), 'length'),
    'um': (Fraction(1, 10**6), 'length'),
    'mm': (Fraction(1, 10**3), 'length'),
    'cm': (Fraction(1, 10**2), 'length'),
    'm': (Fraction(1), 'length'),
    'km': (Fraction(1000), 'length'),
    # energy
    'ueV': (E_CHARGE / 10**6, 'energy'),
    'meV': (E_CHARGE / 10**3, 'energy'),
    'eV': (E_CHARGE, 'energy'),
    'keV': (E_CHARGE * 10**3, 'energy'),
    'J': (Fraction(1), 'energy'),
    # angle
    'rad': (Fraction(1), 'angle'),
    'deg': (_PI_F / 180, 'angle'),
    'mrad': (Fraction(1, 1000), 'angle'),
    'urad': (Fraction(1, 10**6), 'angle'),
    'arcmin': (_PI_F / 10800, 'angle'),
    'arcsec': (_PI_F / 648000, 'angle'),
    # frequency
    'Hz': (Fraction(1), 'frequency'),
    'kHz': (Fraction(1000), 'frequency'),
    'MHz': (Fraction(10**6), 'frequency'),
    '1/min': (Fraction(1, 60), 'frequency'),
    # misc
    'barn': (Fraction(1, 10**28), 'area'),
    'Da': (DALTON, 'mass'),
    'kg': (Fraction(1), 'mass'),
    'dimensionless': (Fraction(1), 'one'),
    'counts': (Fraction(1), 'counts'),
}

_SI_NAME = {
    'time': 's', 'length': 'm', 'energy': 'J', 'angle': 'rad', 'frequency': 'Hz',
    'area': 'm^2', 'mass': 'kg', 'one': 'dimensionless', 'counts': 'counts',
}


def _dim_mul(a, b, sign=1):
    return tuple(x + sign * y for x, y in zip(a, b, strict=True))


_TABLE: list[tuple[sc.Unit, Fraction, tuple]] = []
_CACHE: dict[str, tuple[Fraction, tuple]] = {}


def _build():
    ents = []
    for name, (f, d) in BASE.items():
        ents.append((name, f, _D[d]))
    lengths = [(n, f) for n, (f, d) in BASE.items() if d == 'length']
    times = [(n, f) for n, (f, d) in BASE.items() if d == 'time']
    for n, f in lengths:
        ents.append((f'1/{n}', 1 / f, _dim_mul(_D['one'], _D['length'], -1)))
        ents.append((f'1/{n}^3', 1 / f**3, (-3, 0, 0, 0, 0)))
        ents.append((f'{n}^2', f**2, (2, 0, 0, 0, 0)))
        ents.append((f'{n}^3', f**3, (3, 0, 0, 0, 0)))
        for tn, tf in (('s', Fraction(1)), ('ms', Fraction(1, 1000)), ('us', Fraction(1, 10**6))):
            ents.append((f'{n}/{tn}^2', f / tf**2, (1, 0, -2, 0, 0)))
            ents.append((f'{n}/{tn}', f / tf, (1, 0, -1, 0, 0)))
            ents.append((f'{tn}/{n}', tf / f, (-1, 0, 1, 0, 0)))
    for n, f in times:
        if n not in ('min',):
            ents.append((f'1/{n}', 1 / f, _D['frequency']))
    for an, af in (('rad', Fraction(1)), ('deg', _PI_F / 180)):
        for tn, tf in (('s', Fraction(1)), ('ms', Fraction(1, 1000)), ('us', Fraction(1, 10**6)), ('min', Fraction(60))):
            ents.append((f'{an}/{tn}', af / tf, (0, 0, -1, 1, 0)))
    seen = []
    for name, f, d in ents:
        try:
            u = sc.Unit(name)
        except Exception:  # noqa: BLE001
            continue
        seen.append((u, f, d))
    return seen


def lookup(unit) -> tuple[Fraction, tuple]:
    """(exact SI factor, dimension vector) of a scipp unit; KeyError if unknown."""
    global _TABLE
    if not _TABLE:
        _TABLE = _build()
    key = repr(unit) + str(unit)
    hit = _CACHE.get(key)
    if hit is not None:
        return hit
    for u, f, d in _TABLE:
        if u == unit:
            _CACHE[key] = (f, d)
            return f, d
    raise KeyError(f'unit {unit!r} not in the independent SI table')


def factor(unit) -> np.longdouble:
    return ld(lookup(unit)[0])


def dim(unit) -> tuple:
    return lookup(unit)[1]


def elem(var):
    """(values ndarray, unit, dtype) of a dense variable or of the event buffer."""
    if var.bins is not None:
        data = var.bins.constituents['data']
        return np.asarray(data.values), data.unit, data.dtype
    return np.asarray(var.values), var.unit, var.dtype


def si(var) -> np.ndarray:
    """Values of a (dense) scipp variable in SI, long double."""
    vals, unit, _ = elem(var)
    return vals.astype(LD) * factor(unit)


def from_si(x, unit) -> np.ndarray:
    return np.asarray(x, dtype=LD) / factor(unit)


def constants():
    """h and m_n exactly as scipp exposes them (CODATA values in SI)."""
    h = sc.constants.h
    m = sc.constants.m_n
    g = sc.constants.g
    assert str(h.unit) == 'J*s' or h.unit == sc.Unit('J*s')
    assert m.unit == sc.Unit('kg')
    return {'h': LD(h.value), 'm_n': LD(m.value), 'g': LD(g.value)}


def self_test() -> list[str]:
    """Cross-check the table with sc.to_unit; returns list of disagreements."""
    bad = []
    for name, (f, d) in BASE.items():
        target = _SI_NAME[d]
        try:
            got = sc.scalar(1.0, unit=name).to(unit=target).value
        except Exception as e:  # noqa: BLE001
            bad.append(f'{name}: {e}')
            continue
        want = float(f)
        if abs(got - want) > 4e-16 * abs(want):
            bad.append(f'{name}: scipp {got!r} table {want!r}')
    # long double must really be wider than double
    if np.finfo(LD).eps > 2e-19:
        bad.append(f'long double eps {np.finfo(LD).eps}')
    return bad


def relerr(got, want):
    """Elementwise relative error |got-want|/|want| in long double (0 where both 0)."""
    got = np.asarray(got, dtype=LD)
    want = np.asarray(want, dtype=LD)
    with np.errstate(divide='ignore', invalid='ignore'):
        r = np.abs(got - want) / np.abs(want)
    r = np.where((got == want), LD(0), r)
    return r
