"""CIF 1.1 lexer / parser used as the oracle of C14.

Written from the IUCr "CIF version 1.1 syntax specification" (formal grammar,
paragraphs on character set, reserved words, character strings and text
fields).  It shares no code with any writer and imports nothing of the package
under test.

Grammar implemented (names as in the specification)::

    <CIF>        ::= <Comments>? <WhiteSpace>? { <DataBlock> { <WhiteSpace> <DataBlock> }* <WhiteSpace>? }?
    <DataBlock>  ::= <DataBlockHeading> { <WhiteSpace> <DataItems> }*
    <DataBlockHeading> ::= <DATA_> { <NonBlankChar> }+
    <DataItems>  ::= <Tag> <WhiteSpace> <Value> | <LoopHeader> <LoopBody>
    <LoopHeader> ::= <LOOP_> { <WhiteSpace> <Tag> }+
    <LoopBody>   ::= <Value> { <WhiteSpace> <Value> }*
    <Tag>        ::= '_' { <NonBlankChar> }+
    <Value>      ::= '.' | '?' | <Numeric> | <CharString> | <TextField>
    <eol><UnquotedString>    ::= <eol><OrdinaryChar> { <NonBlankChar> }*
    <noteol><UnquotedString> ::= <noteol>{ <OrdinaryChar> | ';' } { <NonBlankChar> }*
    <SingleQuotedString><WhiteSpace> ::= ' { <AnyPrintChar> }* ' <WhiteSpace>
    <DoubleQuotedString><WhiteSpace> ::= " { <AnyPrintChar> }* " <WhiteSpace>
    <eol><SemiColonTextField> ::= <eol> ';' { <AnyPrintChar> }* <eol>
                                  { { <TextLeadChar> { <AnyPrintChar> }* }? <eol> }* ';'
    <WhiteSpace> ::= { <SP> | <HT> | <eol> | <TokenizedComments> }+
    <Comments>   ::= { '#' { <AnyPrintChar> }* <eol> }+

* ``<OrdinaryChar>`` is printable ASCII without ``" # $ ' _ ; [ ]`` and blank, so an
  unquoted string cannot start with one of those (``;`` may start one only when it
  is not the first character of a line).
* Reserved words ``data_ loop_ global_ save_ stop_`` are case-insensitive.  ``data_``
  and ``save_`` are heading prefixes; an unquoted string may not begin with any
  of the five (the strict reading, shared by the common parsers; the error
  carries ``exact`` so that a caller can tell ``loop_`` from ``loop_x``).
  ``global_`` / ``stop_`` / save frames are not part of a CIF 1.1 data file.
* A quoted string ends at the first matching quote that is followed by white
  space (or the end of the file); a quote followed by anything else is content.
  Quoted strings do not span lines.
* A text field opens with ``;`` as the first character of a line and closes at
  the next line that begins with ``;``.
* Character set: printable ASCII, HT, LF, CR.  Anything else is rejected.

The parser rejects what the grammar rejects: content before the first data
heading, a tag without a value, a value without a tag, a loop without tags or
without values, a loop whose value count is not a multiple of its tag count, an
unterminated text field or quoted string, a heading or tag without a name.
"""

from __future__ import annotations

import re
from dataclasses import dataclass, field

ORDINARY = frozenset(
    "!%&()*+,-./0123456789:<=>?@ABCDEFGHIJKLMNOPQRSTUVWXYZ\\^`abcdefghijklmnopqrstuvwxyz{|}~"
)
NONBLANK = ORDINARY | frozenset('"#$\'_;[]')
ANYPRINT = NONBLANK | frozenset(' \t')
RESERVED = ('data_', 'loop_', 'global_', 'save_', 'stop_')
WS = ' \t\n'

# <Numeric> of the specification (number with an optional standard uncertainty)
_NUMERIC = re.compile(
    r'^(?P<num>[+-]?(?:(?:[0-9]+\.?[0-9]*|\.[0-9]+)(?:[eE][+-]?[0-9]+)?))(?:\((?P<su>[0-9]+)\))?$'
)


class CifSyntaxError(Exception):
    """The text is not CIF 1.1.  ``code`` is a stable identifier of the rule."""

    def __init__(self, code, msg, line=0, col=0, **detail):
        super().__init__(f'{code} at line {line} col {col}: {msg}')
        self.code = code
        self.msg = msg
        self.line = line
        self.col = col
        self.detail = detail


@dataclass(frozen=True)
class Token:
    kind: str  # 'data' | 'loop' | 'tag' | 'value'
    text: str  # block code / tag name without '_' / value content
    form: str = ''  # values: 'unquoted' | 'single' | 'double' | 'text'
    line: int = 0
    col: int = 0


@dataclass(frozen=True)
class Value:
    text: str
    form: str  # 'unquoted' | 'single' | 'double' | 'text'

    @property
    def quoted(self):
        return self.form != 'unquoted'


@dataclass
class Pair:
    tag: str
    value: Value


@dataclass
class Loop:
    tags: list
    rows: list  # list of lists of Value


@dataclass
class Block:
    name: str
    items: list = field(default_factory=list)  # Pair | Loop in file order


@dataclass
class Document:
    blocks: list = field(default_factory=list)
    comments: list = field(default_factory=list)  # text after '#', in file order
    warnings: list = field(default_factory=list)  # semantic remarks (duplicate names)


def _normalise_eol(text: str) -> str:
    return text.replace('\r\n', '\n').replace('\r', '\n')


def _check_charset(text: str):
    line = 1
    col = 0
    for ch in text:
        col += 1
        if ch == '\n':
            line += 1
            col = 0
            continue
        o = ord(ch)
        if o > 126:
            raise CifSyntaxError('non_ascii', f'non-ASCII character {ch!r}', line, col, char=ch)
        if (o < 32 and ch != '\t') or o == 127:
            raise CifSyntaxError('illegal_character', f'control character {ch!r}', line, col, char=ch)


def lex(text: str, *, strict_block_code: bool = True):
    """Return ``(tokens, comments)``; raises CifSyntaxError."""
    text = _normalise_eol(text)
    _check_charset(text)
    toks: list[Token] = []
    comments: list[str] = []
    n = len(text)
    pos = 0
    line = 1
    line_start = 0  # index of the first character of the current line

    def here(p):
        return line, p - line_start + 1

    while pos < n:
        c = text[pos]
        if c == '\n':
            pos += 1
            line += 1
            line_start = pos
            continue
        if c == ' ' or c == '\t':
            pos += 1
            continue
        bol = pos == line_start
        ln, col = here(pos)
        if c == '#':
            end = text.find('\n', pos)
            if end < 0:
                end = n
            comments.append(text[pos + 1:end])
            pos = end
            continue
        if c == ';' and bol:
            idx = text.find('\n;', pos + 1)
            if idx < 0:
                raise CifSyntaxError('unterminated_text_field',
                                     'text field opened here is never closed', ln, col)
            content = text[pos + 1:idx]
            newlines = content.count('\n') + 1
            pos = idx + 2
            line += newlines
            line_start = idx + 1
            if pos < n and text[pos] not in WS:
                l2, c2 = here(pos)
                raise CifSyntaxError('text_field_close_not_followed_by_whitespace',
                                     f'closing ; is followed by {text[pos]!r}', l2, c2)
            toks.append(Token('value', content, 'text', ln, col))
            continue
        if c == "'" or c == '"':
            eol = text.find('\n', pos)
            if eol < 0:
                eol = n
            j = pos + 1
            while True:
                k = text.find(c, j, eol)
                if k < 0:
                    raise CifSyntaxError('unterminated_quoted_string',
                                         'no closing quote followed by white space on this line',
                                         ln, col, quote=c)
                if k + 1 == n or text[k + 1] in WS:
                    break
                j = k + 1
            toks.append(Token('value', text[pos + 1:k], 'single' if c == "'" else 'double', ln, col))
            pos = k + 1
            continue
        # a run of non-blank characters
        end = pos
        while end < n and text[end] not in WS:
            end += 1
        word = text[pos:end]
        pos = end
        low = word.lower()
        if c == '_':
            if len(word) == 1:
                raise CifSyntaxError('empty_tag', "'_' without a name", ln, col)
            toks.append(Token('tag', word[1:], '', ln, col))
            continue
        if low.startswith('data_'):
            if len(word) == 5 and strict_block_code:
                raise CifSyntaxError('empty_block_code', "'data_' without a block code", ln, col)
            toks.append(Token('data', word[5:], '', ln, col))
            continue
        if low == 'loop_':
            toks.append(Token('loop', '', '', ln, col))
            continue
        for w in RESERVED:
            if low.startswith(w):
                raise CifSyntaxError(
                    'reserved_word', f'{word!r} begins with the reserved word {w}', ln, col,
                    word=w, exact=(low == w))
        if c in '$[]':
            raise CifSyntaxError('illegal_unquoted_start',
                                 f'an unquoted string cannot start with {c!r}', ln, col, char=c)
        # ';' not in column 1 may start an unquoted string; quotes, '#', '_' handled above
        toks.append(Token('value', word, 'unquoted', ln, col))
    return toks, comments


def parse(text: str, *, strict_block_code: bool = True) -> Document:
    toks, comments = lex(text, strict_block_code=strict_block_code)
    doc = Document(comments=comments)
    cur: Block | None = None
    seen_tags: set = set()
    seen_blocks: set = set()
    i = 0
    n = len(toks)
    while i < n:
        t = toks[i]
        if t.kind == 'data':
            cur = Block(t.text)
            if t.text.lower() in seen_blocks:
                doc.warnings.append(('duplicate_block_code', t.text))
            seen_blocks.add(t.text.lower())
            seen_tags = set()
            doc.blocks.append(cur)
            i += 1
            continue
        if cur is None:
            raise CifSyntaxError('content_before_data_block',
                                 f'{t.kind} {t.text!r} before the first data_ heading', t.line, t.col)
        if t.kind == 'tag':
            if i + 1 >= n or toks[i + 1].kind != 'value':
                nxt = toks[i + 1] if i + 1 < n else None
                raise CifSyntaxError(
                    'tag_without_value',
                    f'_{t.text} is followed by ' + (f'{nxt.kind} {nxt.text!r}' if nxt else 'end of file'),
                    t.line, t.col, tag=t.text, next_kind=nxt.kind if nxt else 'eof')
            v = toks[i + 1]
            if t.text.lower() in seen_tags:
                doc.warnings.append(('duplicate_tag', t.text))
            seen_tags.add(t.text.lower())
            cur.items.append(Pair(t.text, Value(v.text, v.form)))
            i += 2
            continue
        if t.kind == 'loop':
            i += 1
            tags = []
            while i < n and toks[i].kind == 'tag':
                tags.append(toks[i].text)
                i += 1
            if not tags:
                raise CifSyntaxError('loop_without_tags', 'loop_ is not followed by a tag', t.line, t.col)
            vals = []
            while i < n and toks[i].kind == 'value':
                vals.append(Value(toks[i].text, toks[i].form))
                i += 1
            if not vals:
                raise CifSyntaxError('loop_without_values', 'loop header without values', t.line, t.col,
                                     tags=tags)
            if len(vals) % len(tags):
                raise CifSyntaxError(
                    'loop_value_count',
                    f'{len(vals)} values for {len(tags)} tags: values left over', t.line, t.col,
                    tags=tags, n_values=len(vals))
            for tg in tags:
                if tg.lower() in seen_tags:
                    doc.warnings.append(('duplicate_tag', tg))
                seen_tags.add(tg.lower())
            k = len(tags)
            cur.items.append(Loop(tags, [vals[r:r + k] for r in range(0, len(vals), k)]))
            continue
        # a value that belongs neither to a tag nor to a loop
        raise CifSyntaxError('value_without_tag', f'value {t.text[:40]!r} does not follow a tag',
                             t.line, t.col, form=t.form)
    return doc


def parse_bytes(data: bytes, **kw) -> Document:
    try:
        text = data.decode('ascii')
    except UnicodeDecodeError as e:
        raise CifSyntaxError('non_ascii', f'byte 0x{data[e.start]:02x} at offset {e.start}',
                             0, 0, offset=e.start) from None
    return parse(text, **kw)


def numeric(text: str):
    """``(number_text, su_digits | None)`` if ``text`` is a <Numeric>, else None."""
    m = _NUMERIC.match(text)
    if not m:
        return None
    return m.group('num'), m.group('su')


# ------------------------------------------------------------------ self-test
_ACCEPT = [
    # (text, expected structure)  structure: list of blocks (name, [items])
    ("data_a\n_t v\n", [('a', [('t', 'v', 'unquoted')])]),
    ("#\\#CIF_1.1\n# c\ndata_a\n\n_t 'a b'\n", [('a', [('t', 'a b', 'single')])]),
    ("data_a _t 'it's'\n", [('a', [('t', "it's", 'single')])]),
    ('data_a _t "a"b" \n', [('a', [('t', 'a"b', 'double')])]),
    ("data_a _t 'a' b'\n", None),  # closes after a, then b' is a value without tag
    ("data_a\n_t\n; l1\nl2\n;\n", [('a', [('t', ' l1\nl2', 'text')])]),
    ("data_a\n_t\n;\n;\n", [('a', [('t', '', 'text')])]),
    ("data_a\n_t ;x\n", [('a', [('t', ';x', 'unquoted')])]),
    ("data_a\n_t a#b\n", [('a', [('t', 'a#b', 'unquoted')])]),
    ("data_a\n_t a #b\n", [('a', [('t', 'a', 'unquoted')])]),
    ("data_a\n_t ?\n_u .\n", [('a', [('t', '?', 'unquoted'), ('u', '.', 'unquoted')])]),
    ("data_a\nloop_\n_x\n_y\n1 2\n3 4\n", [('a', [(['x', 'y'], [['1', '2'], ['3', '4']])])]),
    ("data_a\nloop_ _x 1 2 3 _t v\n", [('a', [(['x'], [['1'], ['2'], ['3']]), ('t', 'v', 'unquoted')])]),
    ("DATA_a\nLoOp_\n_x\n1\n", [('a', [(['x'], [['1']])])]),
    ("data_a\n_t 'a\tb'\n", [('a', [('t', 'a\tb', 'single')])]),
    ("data_a\r\n_t v\r\n", [('a', [('t', 'v', 'unquoted')])]),
    ("data_a\n_t x_data_\n", [('a', [('t', 'x_data_', 'unquoted')])]),
    ("data_a\n_t\n;a\n ;b\n;\n", [('a', [('t', 'a\n ;b', 'text')])]),
    ("", []),
    ("# only a comment", []),
    ("data_a\ndata_b\n_t v", [('a', []), ('b', [('t', 'v', 'unquoted')])]),
]
_REJECT = [
    ("data_a\n_t\n", 'tag_without_value'),
    ("data_a\n_t _x\n", 'tag_without_value'),
    ("data_a\n_t #c\n", 'tag_without_value'),
    ("data_a\n_t $f\n", 'illegal_unquoted_start'),
    ("data_a\n_t [a]\n", 'illegal_unquoted_start'),
    ("data_a\n_t ]a\n", 'illegal_unquoted_start'),
    ("data_a\n_t a\tb\n", 'value_without_tag'),
    ("data_a\n_t data_x\n", 'tag_without_value'),
    ("data_a\n_t loop_\n", 'tag_without_value'),
    ("data_a\n_t LOOP_\n", 'tag_without_value'),
    ("data_a\n_t loop_x\n", 'reserved_word'),
    ("data_a\n_t global_\n", 'reserved_word'),
    ("data_a\n_t Stop_\n", 'reserved_word'),
    ("data_a\n_t save_x\n", 'reserved_word'),
    ("data_a\n_t\n;t\n", 'unterminated_text_field'),
    ("data_a\n_t\n; l1\n;l2\n;\n", 'text_field_close_not_followed_by_whitespace'),
    ("data_a\n_t\n; l1\n; l2\n;\n", 'unterminated_text_field'),  # closes early, last ; reopens
    ("data_a\n_t 'abc\n", 'unterminated_quoted_string'),
    ("data_a\n_t 'a'b\n", 'unterminated_quoted_string'),
    ("data_a\n_t 'a\nb'\n", 'unterminated_quoted_string'),
    ("data_a\nloop_\n_x\n_y\n1 2 3\n", 'loop_value_count'),
    ("data_a\nloop_\n_x\n", 'loop_without_values'),
    ("data_a\nloop_\n1 2\n", 'loop_without_tags'),
    ("_t v\n", 'content_before_data_block'),
    ("data_a\nv\n", 'value_without_tag'),
    ("data_a\n_t é\n", 'non_ascii'),
    ("data_a\n_t a\x0cb\n", 'illegal_character'),
    ("data_\n_t v\n", 'empty_block_code'),
    ("data_a\n_ v\n", 'empty_tag'),
]


def _shape(doc):
    out = []
    for b in doc.blocks:
        items = []
        for it in b.items:
            if isinstance(it, Pair):
                items.append((it.tag, it.value.text, it.value.form))
            else:
                items.append((it.tags, [[v.text for v in r] for r in it.rows]))
        out.append((b.name, items))
    return out


def self_test():
    """List of disagreements between this parser and its own specification table."""
    bad = []
    for text, want in _ACCEPT:
        try:
            got = _shape(parse(text))
        except CifSyntaxError as e:
            if want is not None:
                bad.append(f'accept case {text!r} rejected: {e.code}')
            continue
        if want is None:
            bad.append(f'case {text!r} must be rejected')
        elif got != want:
            bad.append(f'accept case {text!r}: got {got!r}')
    for text, code in _REJECT:
        try:
            parse(text)
        except CifSyntaxError as e:
            if e.code != code:
                bad.append(f'reject case {text!r}: code {e.code}, expected {code}')
            continue
        bad.append(f'reject case {text!r} accepted')
    try:
        parse_bytes('data_a\n_t é\n'.encode())
        bad.append('non-ASCII bytes accepted')
    except CifSyntaxError as e:
        if e.code != 'non_ascii':
            bad.append('non-ASCII bytes: wrong code ' + e.code)
    if numeric('1.234(10)') != ('1.234', '10') or numeric('-4(2)') != ('-4', '2'):
        bad.append('numeric with su')
    for s in ('1e-05', '1.5e+20', '-0.0', '12', '.5', '5.', '+3'):
        if numeric(s) is None:
            bad.append(f'numeric {s!r} not recognised')
    for s in ('abc', '1.2.3', '1e', '(3)', '', '1.0(2', 'inf', 'nan'):
        if numeric(s) is not None:
            bad.append(f'{s!r} recognised as numeric')
    return bad
