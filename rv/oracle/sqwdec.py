"""Independent decoder of the SQW v4.0 container (oracle for C12 / C13).

Written from the format description (docs/developer/file-formats/sqw.md: file
header, block allocation table, block storage, logical / number / character
array / shape objects) and, for the parts the document leaves as TODO (struct,
object array, self-serialising objects), from the published Horace layout of
``hlp_serialize``-style objects:

    object array  :=  [u8 32]?  u8 tag  u8 ndim  ndim x u32 shape  payload
    payload(char) :=  shape[0] bytes per string (one uint8 per character)
    payload(num)  :=  prod(shape) items, first index fastest (column-major)
    payload(logical) := prod(shape) bytes
    payload(cell) :=  prod(shape) object arrays
    payload(struct) := u32 n_fields, n_fields x u32 name length, names,
                       one cell object array holding the field values of all
                       structs (field index fastest)

Nothing here imports scippneutron or scipp.  The decoder reports *facts*
(what is in the bytes); judging them is the business of the property modules.
"""

from __future__ import annotations

import struct
from dataclasses import dataclass, field

import numpy as np

TAG_NAMES = {
    0: 'logical', 1: 'char', 3: 'f64', 4: 'f32', 5: 'i8', 6: 'u8', 9: 'i32',
    10: 'u32', 11: 'i64', 12: 'u64', 23: 'cell', 24: 'struct',
}
SELF_SERIALIZING = 32
_NUMERIC = {3: 'f8', 4: 'f4', 5: 'i1', 6: 'u1', 9: 'i4', 10: 'u4', 11: 'i8', 12: 'u8'}
BLOCK_TYPES = ('data_block', 'pix_data_block', 'dnd_data_block')
MAX_DEPTH = 40


class DecodeError(Exception):
    """The bytes do not decode as the declared thing."""

    def __init__(self, what: str, offset: int):
        super().__init__(f'{what} (at byte {offset})')
        self.what = what
        self.offset = offset


class Cursor:
    """Bounded reader over ``buf[pos:end]`` in a fixed byte order."""

    def __init__(self, buf, pos: int, end: int, bo: str):
        if bo not in ('little', 'big'):
            raise ValueError(bo)
        self.buf = buf
        self.pos = pos
        self.end = min(end, len(buf))
        self.hard_end = end
        self.bo = bo
        self.c = '<' if bo == 'little' else '>'

    def take(self, n: int) -> bytes:
        if n < 0 or self.pos + n > self.end:
            raise DecodeError(
                f'need {n} bytes, only {self.end - self.pos} left in the extent', self.pos)
        out = bytes(self.buf[self.pos:self.pos + n])
        self.pos += n
        return out

    def u8(self) -> int:
        return self.take(1)[0]

    def u32(self) -> int:
        return struct.unpack(self.c + 'I', self.take(4))[0]

    def u64(self) -> int:
        return struct.unpack(self.c + 'Q', self.take(8))[0]

    def f64(self) -> float:
        return struct.unpack(self.c + 'd', self.take(8))[0]

    def array(self, code: str, n: int) -> np.ndarray:
        size = np.dtype(code).itemsize
        raw = self.take(n * size)
        return np.frombuffer(raw, dtype=np.dtype(self.c + code), count=n).astype(
            np.dtype('=' + code))

    def char_array(self) -> bytes:
        """``u32 length`` followed by that many bytes."""
        return self.take(self.u32())


# ------------------------------------------------------------- object tree ---
@dataclass
class Node:
    tag: str                      # name from TAG_NAMES
    shape: tuple                  # as stored (column-major / MATLAB order)
    value: object                 # see decode_object
    offset: int
    self_serializing: bool = False
    end: int = 0

    # -- convenience accessors used by the content monitor ------------------
    def count(self) -> int:
        return _volume(self.shape)

    def text(self) -> str:
        if self.tag != 'char':
            raise DecodeError(f'expected a char array, found {self.tag}', self.offset)
        if len(self.value) == 0:
            return ''
        if len(self.value) != 1:
            raise DecodeError('expected one string, found several', self.offset)
        try:
            return self.value[0].decode('utf-8')
        except UnicodeDecodeError as e:
            raise DecodeError(f'char array is not valid UTF-8: {e}', self.offset) from None

    def array(self) -> np.ndarray:
        """Numeric payload as ndarray in row-major order (reversed file shape)."""
        if self.tag not in ('f64', 'f32', 'i8', 'u8', 'i32', 'u32', 'i64', 'u64'):
            raise DecodeError(f'expected a numeric array, found {self.tag}', self.offset)
        return np.asarray(self.value).reshape(tuple(reversed(self.shape)))

    def scalar(self):
        if self.tag in ('cell', 'struct', 'char'):
            raise DecodeError(f'expected a scalar, found {self.tag}', self.offset)
        if self.count() != 1 or len(self.value) != 1:
            raise DecodeError(f'expected one element, shape is {self.shape}', self.offset)
        v = self.value[0]
        return v.item() if hasattr(v, 'item') else v

    def struct(self) -> dict:
        if self.tag != 'struct':
            raise DecodeError(f'expected a struct, found {self.tag}', self.offset)
        if len(self.value) != 1:
            raise DecodeError(f'expected one struct, found {len(self.value)}', self.offset)
        return self.value[0]


def _volume(shape) -> int:
    n = 1
    for s in shape:
        n *= int(s)
    return n if len(shape) else 0


def _take_utf8_chars(cur: Cursor, n: int) -> bytes:
    """n UTF-8 encoded characters (diagnostic mode only)."""
    start = cur.pos
    for _ in range(n):
        b = cur.u8()
        extra = 0 if b < 0x80 else 1 if b >> 5 == 0b110 else 2 if b >> 4 == 0b1110 else \
            3 if b >> 3 == 0b11110 else None
        if extra is None:
            raise DecodeError('invalid UTF-8 lead byte', cur.pos - 1)
        cur.take(extra)
    return bytes(cur.buf[start:cur.pos])


def decode_object(cur: Cursor, depth: int = 0, char_unit: str = 'byte') -> Node:
    """One object array at the cursor.

    value: char -> list[bytes]; numeric -> flat ndarray (file order); logical ->
    list[bool]; cell -> list[Node]; struct -> list[dict name -> Node].
    ``char_unit='utf8char'`` is a *diagnostic* reading (length fields counted in
    characters instead of bytes); the format is ``'byte'``.  A second diagnostic
    reading is switched on by ``cur.alt = {'at': k, 'itemsize': 4, 'seen': 0}``: the
    k-th f64-tagged array met is read with 4 instead of 8 bytes per element (its
    offset / shape are left in ``cur.alt['hit']``).
    """
    if depth > MAX_DEPTH:
        raise DecodeError('nesting too deep', cur.pos)
    offset = cur.pos
    tag = cur.u8()
    selfser = False
    if tag == SELF_SERIALIZING:
        selfser = True
        tag = cur.u8()
    if tag not in TAG_NAMES:
        raise DecodeError(f'{tag} is not a type tag', cur.pos - 1)
    name = TAG_NAMES[tag]
    ndim = cur.u8()
    shape = tuple(cur.u32() for _ in range(ndim))
    n = _volume(shape)
    if tag == 1:
        if ndim == 0 or n == 0:
            value = []
        else:
            each = shape[0]
            k = n // each if each else 0
            if char_unit == 'byte':
                value = [cur.take(each) for _ in range(k)]
            else:
                value = [_take_utf8_chars(cur, each) for _ in range(k)]
    elif tag in _NUMERIC:
        code = _NUMERIC[tag]
        alt = getattr(cur, 'alt', None)
        if alt is not None and tag == 3:
            k = alt['seen']
            alt['seen'] = k + 1
            if k == alt['at']:
                code = {4: 'f4'}[alt['itemsize']]
                alt['hit'] = (offset, shape)
        value = cur.array(code, n)
    elif tag == 0:
        value = [b != 0 for b in cur.take(n)]
    elif tag == 23:
        if n > cur.end - cur.pos:
            raise DecodeError(f'cell array of {n} items does not fit the extent', offset)
        value = [decode_object(cur, depth + 1, char_unit) for _ in range(n)]
    else:  # struct
        value = _decode_structs(cur, shape, n, depth, char_unit)
    return Node(name, shape, value, offset, selfser, cur.pos)


def _decode_structs(cur, shape, n, depth, char_unit):
    if n == 0:
        return []
    at = cur.pos
    n_fields = cur.u32()
    if n_fields * 4 > cur.end - cur.pos:
        raise DecodeError(f'struct with {n_fields} fields does not fit the extent', at)
    lens = [cur.u32() for _ in range(n_fields)]
    names = []
    for ln in lens:
        raw = cur.take(ln)
        try:
            names.append(raw.decode('ascii'))
        except UnicodeDecodeError:
            raise DecodeError('struct field name is not ASCII', cur.pos - ln) from None
    if len(set(names)) != len(names):
        raise DecodeError('duplicate struct field names', at)
    cell = decode_object(cur, depth + 1, char_unit)
    if cell.tag != 'cell':
        raise DecodeError(f'struct field values are a {cell.tag}, not a cell array', cell.offset)
    want = (n_fields, 1) if n == 1 else (n_fields, 1, *shape)
    if cell.shape != want:
        raise DecodeError(
            f'struct array of shape {shape} with {n_fields} fields has a value cell of shape '
            f'{cell.shape}, expected {want}', cell.offset)
    out = []
    for i in range(n):
        vals = cell.value[i * n_fields:(i + 1) * n_fields]
        out.append(dict(zip(names, vals, strict=True)))
    return out


# ------------------------------------------------------------------ blocks ---
@dataclass
class Descriptor:
    block_type: str
    name: tuple
    position: int
    size: int
    locked: int
    offset: int          # where the descriptor starts in the file
    position_offset: int  # where its u64 position field is


@dataclass
class Block:
    descriptor: Descriptor
    ok: bool = False
    consumed: int = 0          # bytes the decoder needed for a block of the declared type
    error: str | None = None
    error_offset: int | None = None
    value: object = None       # Node | dict (pix / dnd)


@dataclass
class SqwFile:
    length: int
    byteorder: str
    header: dict = field(default_factory=dict)
    header_error: str | None = None
    header_end: int = 0
    bat_size_field: int | None = None
    bat_n: int | None = None
    bat_end: int | None = None
    bat_error: str | None = None
    descriptors: list = field(default_factory=list)
    blocks: dict = field(default_factory=dict)   # name -> Block (first of each name)
    block_list: list = field(default_factory=list)
    base: int = 0                                # offset of the file header in the buffer

    def names(self):
        return [d.name for d in self.descriptors]


def decode_header(buf, bo: str, base: int = 0) -> tuple[dict, int]:
    """File header at offset ``base`` of ``buf`` (a stream that was written from position
    ``base`` on: positions in the allocation table are stream offsets)."""
    cur = Cursor(buf, base, len(buf), bo)
    n = cur.u32()
    if n > 4096:
        raise DecodeError(f'program name length {n} is not plausible', base)
    name = cur.take(n)
    version = cur.f64()
    sqw_type = cur.u32()
    ndims = cur.u32()
    return {'name_length': n, 'prog_name': name, 'prog_version': version,
            'sqw_type': sqw_type, 'n_dims': ndims}, cur.pos


def header_literal(bo: str, sqw_type: int = 1, n_dims: int = 0) -> bytes:
    c = '<' if bo == 'little' else '>'
    return (struct.pack(c + 'I', 6) + b'horace' + struct.pack(c + 'd', 4.0)
            + struct.pack(c + 'I', sqw_type) + struct.pack(c + 'I', n_dims))


def plausible_byteorders(buf) -> list[str]:
    """Byte orders under which the file starts with the 'horace' 4.0 header."""
    out = []
    for bo in ('little', 'big'):
        try:
            h, _ = decode_header(buf, bo)
        except DecodeError:
            continue
        if h['prog_name'] == b'horace' and h['prog_version'] == 4.0 and h['sqw_type'] in (0, 1):
            out.append(bo)
    return out


def decode_pix(cur: Cursor) -> dict:
    rows = cur.u32()
    npix = cur.u64()
    need = rows * npix * 4
    if need > cur.hard_end - cur.pos:
        raise DecodeError(
            f'pixel array of {rows} x {npix} float32 needs {need} bytes, the extent has '
            f'{cur.hard_end - cur.pos} after its 12-byte head', cur.pos)
    have = cur.end - cur.pos
    if need > have:
        raise DecodeError(
            f'pixel array of {rows} x {npix} float32 needs {need} bytes, only {have} are in '
            f'the file', cur.pos)
    data = cur.array('f4', rows * npix).reshape(npix, rows)  # column-major rows x npix
    return {'rows': rows, 'npix': npix, 'data': data}


def decode_dnd(cur: Cursor) -> dict:
    nd = cur.u32()
    if nd > 64:
        raise DecodeError(f'{nd} histogram dimensions is not plausible', cur.pos - 4)
    lengths = tuple(cur.u32() for _ in range(nd))
    n = 1
    for s in lengths:
        n *= s
    if nd == 0:
        n = 0
    if 24 * n > cur.hard_end - cur.pos:
        raise DecodeError(
            f'histogram of shape {lengths} needs {24 * n} bytes, the extent has '
            f'{cur.hard_end - cur.pos} after its head', cur.pos)
    shape = tuple(reversed(lengths))
    values = cur.array('f8', n).reshape(shape)
    errors = cur.array('f8', n).reshape(shape)
    counts = cur.array('u8', n).reshape(shape)
    return {'lengths': lengths, 'values': values, 'errors': errors, 'counts': counts}


def decode_block(buf, d: Descriptor, bo: str, char_unit: str = 'byte', alt=None) -> Block:
    """Decode the extent of ``d`` as a block of its declared type (``alt``: diagnostic
    reading of one f64 array, see decode_object)."""
    b = Block(d)
    cur = Cursor(buf, d.position, d.position + d.size, bo)
    if alt is not None:
        cur.alt = alt
    try:
        if d.position > len(buf):
            raise DecodeError('extent starts beyond end of file', d.position)
        if d.block_type == 'data_block':
            b.value = decode_object(cur, 0, char_unit)
        elif d.block_type == 'pix_data_block':
            b.value = decode_pix(cur)
        elif d.block_type == 'dnd_data_block':
            b.value = decode_dnd(cur)
        else:
            raise DecodeError(f'unknown block type {d.block_type!r}', d.offset)
        b.consumed = cur.pos - d.position
        b.ok = True
    except DecodeError as e:
        b.ok = False
        b.consumed = cur.pos - d.position
        b.error = e.what
        b.error_offset = e.offset
    return b


def decode_file(buf, bo: str, base: int = 0) -> SqwFile:
    """Header, block allocation table and every block, in byte order ``bo``.  ``base``: offset
    of the file header in ``buf`` (0 for a file; the position a stream was written from)."""
    buf = bytes(buf)
    f = SqwFile(length=len(buf), byteorder=bo)
    f.base = base
    try:
        f.header, f.header_end = decode_header(buf, bo, base)
    except DecodeError as e:
        f.header_error = str(e)
        return f
    cur = Cursor(buf, f.header_end, len(buf), bo)
    try:
        f.bat_size_field = cur.u32()
        f.bat_n = cur.u32()
        if f.bat_n * 28 > len(buf) - cur.pos:
            raise DecodeError(f'{f.bat_n} descriptors do not fit the file', cur.pos)
        for _ in range(f.bat_n):
            at = cur.pos
            ty = cur.char_array()
            n1 = cur.char_array()
            n2 = cur.char_array()
            ppos = cur.pos
            position = cur.u64()
            size = cur.u32()
            locked = cur.u32()
            try:
                d = Descriptor(ty.decode('ascii'), (n1.decode('utf-8'), n2.decode('utf-8')),
                               position, size, locked, at, ppos)
            except UnicodeDecodeError:
                raise DecodeError('descriptor strings are not text', at) from None
            f.descriptors.append(d)
        f.bat_end = cur.pos
    except DecodeError as e:
        f.bat_error = str(e)
        return f
    for d in f.descriptors:
        b = decode_block(buf, d, bo)
        f.block_list.append(b)
        f.blocks.setdefault(d.name, b)
    return f
