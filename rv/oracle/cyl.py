"""Finite solid cylinder: geometry oracle in long double.

Nothing here imports scippneutron.  The solid is

    { x : rho(x) <= r  and  0 <= z(x) <= h },
    z(x) = (x - base) . a^,   rho(x) = | (x - base) - z(x) a^ |,   a^ = axis / |axis|

and everything is evaluated in an orthonormal frame (e1, e2, e3 = a^) obtained by
Gram-Schmidt from coordinate axes (no rotation formula, no angle).

Path length of a ray {p + t n, t >= 0}: the set of admissible t is the intersection
of  t >= 0,  A t^2 + 2 B t + C <= 0  (A = |n_perp|^2, B = q_perp . n_perp,
C = |q_perp|^2 - r^2)  and  0 <= q_z + t n_z <= h.

Tolerance model (backward error of the *definition*): a result is acceptable when it
lies between the path length through the solid shrunk by delta and through the solid
grown by delta (radius -/+ delta, both caps moved by delta), delta = K eps (|p - base|
+ r + h).  This is 64 eps (r + h)-like for rays that cross the surface transversally,
becomes the sqrt(eps) (r + h) behaviour for tangent rays by itself and is wide
(= undecided) exactly where the definition is discontinuous (ray lying in a cap plane
or along the lateral surface).  For the near-parallel class (direction within 1e-7 rad
of the axis) the radius is perturbed by sqrt(eps) (|p - base| + r + h) instead, the
bound DESIGN C18 gives for that class: such rays are decided unless they run within
that distance of the lateral surface.
"""

from __future__ import annotations

import numpy as np

LD = np.longdouble
EPS = float(np.finfo(np.float64).eps)
PI = LD('3.14159265358979323846264338327950288419716939937510')
REF_WAVELENGTH_M = LD('1.7982') * LD('1e-10')  # C20 / property text: 1.7982 angstrom
_INF = LD(np.inf)


def _dot(a, b):
    return np.sum(a * b, axis=-1)


def _norm(a):
    return np.sqrt(_dot(a, a))


def frame(axis):
    """Orthonormal frame (e1, e2, e3), e3 = axis/|axis|, by (twice iterated) Gram-Schmidt."""
    a = np.asarray(axis, dtype=LD).reshape(3)
    e3 = a / _norm(a)
    order = np.argsort(np.abs(e3))  # helpers: coordinate axes least aligned with e3
    out = [e3]
    for k in order[:2]:
        v = np.zeros(3, dtype=LD)
        v[int(k)] = LD(1)
        for _ in range(2):
            for e in out:
                v = v - _dot(v, e) * e
        out.append(v / _norm(v))
    return out[1], out[2], e3


def frame_defect(fr):
    """max |e_i . e_j - delta_ij| (self-check of the frame)."""
    m = np.stack(fr)
    return float(np.max(np.abs(m @ m.T - np.eye(3, dtype=LD))))


def local(fr, base, x):
    """Coordinates (u, v, z) of points x (..., 3) in the cylinder's own frame."""
    q = np.asarray(x, dtype=LD) - np.asarray(base, dtype=LD)
    return _dot(q, fr[0]), _dot(q, fr[1]), _dot(q, fr[2])


def local_dir(fr, n):
    n = np.asarray(n, dtype=LD)
    return _dot(n, fr[0]), _dot(n, fr[1]), _dot(n, fr[2])


def rho_z(fr, base, x):
    u, v, z = local(fr, base, x)
    return np.sqrt(u * u + v * v), z


def _interval(qu, qv, qz, du, dv, dz, r, h, grow, grow_r=None):
    """[lo, hi] of admissible t >= 0 for the solid grown by ``grow`` (may be negative).

    All arguments broadcastable long-double arrays.  Empty sets come back as hi < lo.
    """
    if grow_r is None:
        grow_r = grow
    shape = np.broadcast(qu, qv, qz, du, dv, dz, r, h, grow, grow_r).shape
    rr = np.broadcast_to(np.asarray(r + grow_r, dtype=LD), shape)
    zlo = np.broadcast_to(np.asarray(-grow, dtype=LD), shape)
    zhi = np.broadcast_to(np.asarray(h + grow, dtype=LD), shape)
    empty = (rr < 0) | (zhi < zlo)
    A = np.broadcast_to(du * du + dv * dv, shape)
    B = np.broadcast_to(qu * du + qv * dv, shape)
    C = np.broadcast_to(qu * qu + qv * qv, shape) - rr * rr
    lo = np.zeros(shape, dtype=LD)
    hi = np.full(shape, _INF, dtype=LD)
    with np.errstate(all='ignore'):
        # lateral surface: A t^2 + 2 B t + C <= 0
        # discriminant B^2 - A C = A rr^2 - (q_perp x n_perp)^2, in the form that does not
        # cancel for start points far from the solid
        cr = np.abs(np.broadcast_to(qu * dv - qv * du, shape))
        sA = np.sqrt(A)
        disc = (rr * sA - cr) * (rr * sA + cr)
        par = A == 0
        miss = np.where(par, C > 0, disc < 0)
        sq = np.sqrt(np.where(disc > 0, disc, LD(0)))
        # numerically stable pair of roots
        s = np.where(B >= 0, -B - sq, -B + sq)
        t_a = np.where(par, LD(0), s / np.where(par, LD(1), A))
        # disc is known to an absolute error e_d ~ eps_LD (A rr^2 + cr^2) only.  For a ray that
        # starts on the lateral surface and is tangent there to rounding (B ~ 0, C ~ 0,
        # disc ~ 0) s consists of rounding errors and C / s is arbitrary: the two roots then
        # coincide to ~1e-8 r / sqrt(A) - a double root (chord below any decided width).
        e_d = LD(8) * LD(np.finfo(LD).eps) * (A * rr * rr + cr * cr)
        solid_s = s * s > LD(256) * e_d
        t_b = np.where(solid_s, C / np.where(solid_s, s, LD(1)), t_a)
        c_lo = np.where(par, -_INF, np.minimum(t_a, t_b))
        c_hi = np.where(par, _INF, np.maximum(t_a, t_b))
        # slab
        flat = np.broadcast_to(dz == 0, shape)
        dzs = np.where(flat, LD(1), dz)
        t0 = (zlo - qz) / dzs
        t1 = (zhi - qz) / dzs
        s_lo = np.where(flat, -_INF, np.minimum(t0, t1))
        s_hi = np.where(flat, _INF, np.maximum(t0, t1))
        out_slab = flat & ((qz < zlo) | (qz > zhi))
    lo = np.maximum(lo, np.maximum(c_lo, s_lo))
    hi = np.minimum(hi, np.minimum(c_hi, s_hi))
    bad = empty | miss | out_slab
    lo = np.where(bad, LD(0), lo)
    hi = np.where(bad, LD(-1), hi)
    return lo, hi


def _length(lo, hi, nn):
    with np.errstate(all='ignore'):
        d = np.where(hi > lo, hi - lo, LD(0))
    return d * nn


def path(fr, base, r, h, p, n, k_eps=64.0, grow=None, np_tilt=1e-7):
    """Path length of rays {p + t n, t >= 0} through the solid, with its enclosure.

    p, n: arrays (..., 3) broadcastable against each other.  Returns dict with
    ``L`` (exact-geometry length), ``L_in`` / ``L_out`` (lengths through the solid shrunk /
    grown by delta), ``delta``, ``lo`` / ``hi`` (parameter interval), ``nn`` = |n|.
    """
    p = np.asarray(p, dtype=LD)
    n = np.asarray(n, dtype=LD)
    r = LD(r)
    h = LD(h)
    qu, qv, qz = local(fr, base, p)
    du, dv, dz = local_dir(fr, n)
    nn = np.sqrt(du * du + dv * dv + dz * dz)
    dist = np.sqrt(qu * qu + qv * qv + qz * qz)
    delta = LD(k_eps * EPS) * (dist + r + h) if grow is None else LD(grow) + 0 * dist
    # near-parallel class: |n x a^| / |n| <= np_tilt.  The lateral surface is then located
    # only to sqrt(eps) (|p-b| + r + h) (DESIGN C18: bound of the near-parallel class).
    with np.errstate(all='ignore'):
        tilt = np.sqrt(du * du + dv * dv) / nn
    near_par = tilt <= LD(np_tilt)
    delta_r = np.where(near_par, LD(np.sqrt(EPS)) * (dist + r + h), delta)
    lo, hi = _interval(qu, qv, qz, du, dv, dz, r, h, LD(0))
    lo_o, hi_o = _interval(qu, qv, qz, du, dv, dz, r, h, delta, delta_r)
    lo_i, hi_i = _interval(qu, qv, qz, du, dv, dz, r, h, -delta, -delta_r)
    return {
        'L': _length(lo, hi, nn),
        'L_in': _length(lo_i, hi_i, nn),
        'L_out': _length(lo_o, hi_o, nn),
        'delta': np.broadcast_to(delta, np.shape(lo)),
        'lo': lo, 'hi': hi, 'nn': np.broadcast_to(nn, np.shape(lo)),
        'dist': np.broadcast_to(dist, np.shape(lo)),
        'near_parallel': np.broadcast_to(near_par, np.shape(lo)),
        'tilt': np.broadcast_to(tilt, np.shape(lo)),
    }


def inside_direct(axis, base, r, h, x, margin):
    """Membership of points by a formulation that does not use the frame:
    z = w . a^,  rho^2 = |w|^2 - z^2.  Returns (strictly inside, strictly outside) w.r.t.
    ``margin``."""
    a = np.asarray(axis, dtype=LD)
    a = a / _norm(a)
    w = np.asarray(x, dtype=LD) - np.asarray(base, dtype=LD)
    z = _dot(w, a)
    perp = w - z[..., None] * a
    rho = _norm(perp)
    r = LD(r)
    h = LD(h)
    inside = (rho < r - margin) & (z > margin) & (z < h - margin)
    outside = (rho > r + margin) | (z < -margin) | (z > h + margin)
    return inside, outside


def sampled_selfcheck(axis, base, r, h, p, n, res, rng, m=12):
    """Cross-check of ``path``: points sampled along each ray are classified with
    ``inside_direct`` and must agree with the interval [lo, hi].  Returns the number of
    contradictions (0 expected)."""
    p = np.asarray(p, dtype=LD)
    n = np.asarray(n, dtype=LD)
    shape = np.shape(res['lo'])
    p = np.broadcast_to(p, (*shape, 3))
    n = np.broadcast_to(n, (*shape, 3))
    span = (res['dist'] + LD(r) + LD(h)) * LD(1.5) / np.maximum(res['nn'], LD(1e-300))
    frac = np.asarray(rng.random((m, *shape)), dtype=LD)
    t = frac * span
    # half of the samples go inside the reported interval when there is one
    has = res['hi'] > res['lo']
    with np.errstate(all='ignore'):
        t_in = res['lo'] + frac * np.where(has, res['hi'] - res['lo'], LD(0))
    pick = (np.arange(m) % 2 == 0).reshape((m,) + (1,) * len(shape))
    t = np.where(pick & has, t_in, t)
    x = p + t[..., None] * n
    margin = LD(4) * res['delta']
    inside, outside = inside_direct(axis, base, r, h, x, margin)
    in_iv = has & (t >= res['lo']) & (t <= res['hi'])
    bad = (inside & ~in_iv) | (outside & in_iv)
    return int(np.count_nonzero(bad))


def volume(r, h):
    return PI * LD(r) * LD(r) * LD(h)


def attenuation_si(n_si, sigma_s_si, sigma_a_si, wavelength_si):
    """mu = n (sigma_s + sigma_a lambda / 1.7982 angstrom), SI (1/m), long double."""
    return LD(n_si) * (LD(sigma_s_si) + LD(sigma_a_si) * np.asarray(wavelength_si, dtype=LD)
                       / REF_WAVELENGTH_M)


def transmission(fr, base, r, h, pts, w, vol, beam, dets, mu_len, k_eps=64.0):
    """sum_i w_i exp(-mu (Lin_i + Lout_i)) / V with its enclosure.

    pts (N,3), w (N,), dets (D,3), mu_len (M,) attenuation in 1/(length unit of the
    geometry).  Returns (T, T_lo, T_hi) arrays of shape (D, M).
    """
    pts = np.asarray(pts, dtype=LD)
    w = np.asarray(w, dtype=LD)
    dets = np.asarray(dets, dtype=LD).reshape(-1, 3)
    mu_len = np.asarray(mu_len, dtype=LD).reshape(-1)
    beam = np.asarray(beam, dtype=LD).reshape(3)
    lin = path(fr, base, r, h, pts, -beam, k_eps)
    d = dets[:, None, :] - pts[None, :, :]
    d = d / _norm(d)[..., None]
    lout = path(fr, base, r, h, pts[None, :, :], d, k_eps)
    out = []
    for key in ('L', 'L_out', 'L_in'):
        tot = lin[key][None, :] + lout[key]  # (D, N)
        t = np.exp(-mu_len[None, :, None] * tot[:, None, :]) @ w / LD(vol)  # (D, M)
        out.append(t)
    return out[0], out[1], out[2]
