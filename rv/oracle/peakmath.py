"""Independent peak / polynomial formulas and fit statistics for C17.

Nothing here imports scippneutron.  Everything is written from the
definitions in the documentation of the models and of ``FitResult``:

* Gaussian      A / (sqrt(2 pi) s) exp(-(x - m)^2 / (2 s^2)),  FWHM 2 sqrt(2 ln 2) s
* Lorentzian    A / pi * s / ((x - m)^2 + s^2),                FWHM 2 s
* pseudo-Voigt  a L(x; A, m, s) + (1 - a) G(x; A, m, s / sqrt(2 ln 2)), FWHM 2 s
* polynomial    sum_i a_i x^i
* chi^2 = sum (y - f)^2 / var,  red. chi^2 = chi^2 / (n - k),
  p = P(X >= chi^2), X ~ chi^2(n - k),  AIC = n ln(chi^2 / n) + 2 k

Model values are evaluated in long double (x87 80 bit where available).
"""

from __future__ import annotations

import math

import numpy as np
from scipy import stats as _st

LD = np.longdouble
EPS = float(np.finfo(np.float64).eps)
_PI = LD(math.pi) if np.finfo(LD).eps >= 2e-16 else np.arctan(LD(1)) * 4
_LN2 = np.log(LD(2))
_SQRT_2LN2 = np.sqrt(2 * _LN2)

PEAK_PARAMS = {
    'gaussian': ('amplitude', 'loc', 'scale'),
    'lorentzian': ('amplitude', 'loc', 'scale'),
    'pseudo_voigt': ('amplitude', 'loc', 'scale', 'fraction'),
}


def n_params(kind: str, degree: int) -> int:
    return len(PEAK_PARAMS[kind]) + degree + 1


def _ld(a):
    return np.asarray(a, dtype=LD)


def gaussian(x, amplitude, loc, scale):
    x, a, m, s = _ld(x), LD(amplitude), LD(loc), LD(scale)
    return a / (np.sqrt(2 * _PI) * s) * np.exp(-((x - m) ** 2) / (2 * s * s))


def lorentzian(x, amplitude, loc, scale):
    x, a, m, s = _ld(x), LD(amplitude), LD(loc), LD(scale)
    return a / _PI * s / ((x - m) ** 2 + s * s)


def pseudo_voigt(x, amplitude, loc, scale, fraction):
    f = LD(fraction)
    sg = LD(scale) / _SQRT_2LN2
    return f * lorentzian(x, amplitude, loc, scale) + (1 - f) * gaussian(x, amplitude, loc, sg)


def peak(kind: str, x, p: dict):
    """Peak of the given kind; ``p`` maps amplitude/loc/scale[/fraction] to floats."""
    if kind == 'gaussian':
        return gaussian(x, p['amplitude'], p['loc'], p['scale'])
    if kind == 'lorentzian':
        return lorentzian(x, p['amplitude'], p['loc'], p['scale'])
    if kind == 'pseudo_voigt':
        return pseudo_voigt(x, p['amplitude'], p['loc'], p['scale'], p['fraction'])
    raise KeyError(kind)


def peak_height(kind: str, p: dict) -> float:
    """|value at the centre|."""
    return float(abs(peak(kind, np.array([p['loc']]), p)[0]))


def fwhm(kind: str, p: dict) -> float:
    s = LD(p['scale'])
    if kind == 'gaussian':
        return float(2 * _SQRT_2LN2 * s)
    if kind in ('lorentzian', 'pseudo_voigt'):
        return float(2 * s)
    raise KeyError(kind)


def polynomial(x, coef):
    """sum_i coef[i] x^i (term by term, long double)."""
    x = _ld(x)
    out = np.zeros(x.shape, dtype=LD)
    xp = np.ones(x.shape, dtype=LD)
    for c in coef:
        out = out + LD(c) * xp
        xp = xp * x
    return out


def polynomial_abs(x, coef):
    """sum_i |coef[i] x^i|: magnitude entering the forward error bound."""
    x = np.abs(_ld(x))
    out = np.zeros(x.shape, dtype=LD)
    xp = np.ones(x.shape, dtype=LD)
    for c in coef:
        out = out + abs(LD(c)) * xp
        xp = xp * x
    return out


# ------------------------------------------------------------- statistics ---
def chi_square(y, var, f):
    r = _ld(y) - _ld(f)
    return float(np.sum(r * r / _ld(var)))


def chi_square_bound(y, var, f, fmag, rel=64 * EPS):
    """Forward bound on |delta chi^2| when f carries a relative error ``rel`` of ``fmag``
    (the sum of the magnitudes of its terms): sum 2 |r| rel fmag / var."""
    r = np.abs(_ld(y) - _ld(f))
    return float(np.sum(2 * r * rel * (_ld(fmag) + np.abs(_ld(y))) / _ld(var)))


def statistics(chi2: float, n: int, k: int) -> dict:
    """Reduced chi^2, p-value and AIC from their definitions (n points, k parameters)."""
    dof = n - k
    with np.errstate(all='ignore'):
        red = chi2 / dof if dof != 0 else (math.inf if chi2 > 0 else math.nan)
        p = float(_st.chi2.sf(chi2, dof)) if dof > 0 else math.nan
        aic = n * math.log(chi2 / n) + 2 * k if chi2 > 0 and n > 0 else -math.inf
        pdf = float(_st.chi2.pdf(chi2, dof)) if dof > 0 else math.nan
    return {'red_chisq': red, 'p_value': p, 'aic': aic, 'dof': dof, 'pdf': pdf}


def statistics_tolerance(chi2: float, dchi2: float, n: int, k: int, st: dict, rel=1e-9) -> dict:
    """Accepted |reported - recomputed|: ``rel`` relative, plus what a perturbation
    ``dchi2`` (+ rel chi2) of chi^2 does to each statistic (conditioning of the definition)."""
    d = dchi2 + rel * abs(chi2)
    dof = st['dof']
    tol = {}
    tol['red_chisq'] = rel * abs(st['red_chisq']) + (d / abs(dof) if dof else 0.0)
    pdf = st['pdf'] if st['pdf'] == st['pdf'] else 0.0
    tol['p_value'] = rel * abs(st['p_value']) + pdf * d + 16 * EPS
    tol['aic'] = rel * (abs(st['aic']) + 2 * k) + (n * d / chi2 if chi2 > 0 else 0.0)
    return tol


# ---------------------------------------- independent background-only fit ---
def weighted_polyfit(x, y, var, degree: int):
    """Weighted linear least squares for a polynomial of the given degree.

    Solved by QR/SVD (``numpy.linalg.lstsq``) on the Vandermonde matrix of the
    centred and scaled abscissa, rows divided by sigma.  Returns (chi^2 at the
    minimum, coefficients in the scaled variable, (centre, scale)).
    The minimum of a linear least-squares problem is unique; an approximate
    minimiser is second-order accurate in chi^2.
    """
    x = np.asarray(x, dtype=np.float64)
    y = np.asarray(y, dtype=np.float64)
    sig = np.sqrt(np.asarray(var, dtype=np.float64))
    c = 0.5 * (x.max() + x.min())
    h = 0.5 * (x.max() - x.min()) or 1.0
    t = (x - c) / h
    v = np.vander(t, degree + 1, increasing=True)
    a = v / sig[:, None]
    b = y / sig
    coef, *_ = np.linalg.lstsq(a, b, rcond=None)
    # residual in long double from the coefficients
    f = polynomial(_ld(t), coef)
    return chi_square(y, var, f), coef, (c, h)


def background_only_aic(x, y, var, degree: int) -> float:
    chi2, _, _ = weighted_polyfit(x, y, var, degree)
    n = len(x)
    return n * math.log(chi2 / n) + 2 * (degree + 1) if chi2 > 0 else -math.inf


# ----------------------------------------------------------------- windows ---
def in_window(x, lo: float, hi: float):
    """Points selected by a window: lo <= x < hi (label-based slicing of a sorted
    point coordinate, the way the data handed to the fit is selected)."""
    x = np.asarray(x)
    return (x >= lo) & (x < hi)


def separation_limits(est, factor: float):
    """For sorted estimates p: the smallest admissible left edge of window i
    (p[i-1] + factor (p[i] - p[i-1])) and the largest admissible right edge
    (p[i+1] - factor (p[i+1] - p[i])); -inf / +inf where there is no neighbour."""
    p = np.asarray(est, dtype=np.float64)
    n = len(p)
    lo = np.full(n, -np.inf)
    hi = np.full(n, np.inf)
    if n > 1:
        gap = (p[1:] - p[:-1]) * factor
        lo[1:] = p[:-1] + gap
        hi[:-1] = p[1:] - gap
    return lo, hi


# ------------------------------------------------------------------ removal ---
def removed(x, y, fits):
    """Expected result of removing peaks.

    ``fits``: list of (lo, hi, kind, params) of the *successful* results.
    Returns (expected values, covered mask, total subtracted magnitude per point).
    """
    x = np.asarray(x, dtype=np.float64)
    tot = np.zeros(x.shape, dtype=LD)
    mag = np.zeros(x.shape, dtype=LD)
    covered = np.zeros(x.shape, dtype=bool)
    for lo, hi, kind, p in fits:
        m = in_window(x, lo, hi)
        if not m.any():
            continue
        v = peak(kind, x[m], p)
        tot[m] += v
        mag[m] += np.abs(v)
        covered |= m
    return _ld(y) - tot, covered, mag
