"""Independent re-reader of the three nuclear-data tables bundled with scippneutron.

Nothing here imports scippneutron.  The files are located in the working tree
(``$RV_REPO_SRC/scippneutron/atoms``, default ``/repo/src``) and decoded with the
standard ``csv`` module; numbers are parsed with ``decimal`` / ``fractions`` (exact
decimal -> correctly rounded double), never with the package's helpers.

Documented layout used here
---------------------------
``atomic_weights.csv``   '#' comment line, title line ``Element,Z,Atomic Weight [Da],
                         Uncertainty [Da]``, then one row per element.  Columns are
                         located *by title* and the unit is read from the ``[..]`` of
                         the title.  Blank weight = no standard atomic weight.
``atomic_masses.csv``    '#' comment line, title line ``Isotope,Atomic Mass [Da],
                         Uncertainty [Da]``, then one row per nuclide.
``scattering_parameters.csv``  no title line; the column order of the NIST list the
                         class documents (https://www.ncnr.nist.gov/resources/n-lengths/
                         list.html): name, then (value, standard uncertainty) pairs of
                         b_coh re, b_coh im, b_inc re, b_inc im [fm], sigma_coh,
                         sigma_inc, sigma_scatt, sigma_abs [barn].  Because that file
                         carries no titles the layout is *confirmed from the physics* by
                         ``layout_self_check`` (sigma_coh = 4 pi |b_coh|^2,
                         sigma_scatt = sigma_coh + sigma_inc) before it is trusted.

A cell is a plain decimal number or blank in all three files (checked: any other
content makes ``load`` raise ``TableFormatError`` -> the run is inconclusive, since
the oracle would not know what such a marker means).
"""

from __future__ import annotations

import csv
import hashlib
import os
import re
import struct
from dataclasses import dataclass, field
from decimal import Decimal, InvalidOperation
from fractions import Fraction

FILES = ('scattering_parameters.csv', 'atomic_weights.csv', 'atomic_masses.csv')
PINNED_ROWS = {'scattering_parameters.csv': 371, 'atomic_weights.csv': 118,
               'atomic_masses.csv': 3557}

SCATTERING_FIELDS = (
    ('coherent_scattering_length_re', 'fm'),
    ('coherent_scattering_length_im', 'fm'),
    ('incoherent_scattering_length_re', 'fm'),
    ('incoherent_scattering_length_im', 'fm'),
    ('coherent_scattering_cross_section', 'barn'),
    ('incoherent_scattering_cross_section', 'barn'),
    ('total_scattering_cross_section', 'barn'),
    ('absorption_cross_section', 'barn'),
)

_NUM = re.compile(r'[+-]?(\d+(\.\d*)?|\.\d+)([eE][+-]?\d+)?\Z')
_ASCII_DIGITS = '0123456789'


class TableFormatError(Exception):
    pass


def atoms_dir() -> str:
    return os.path.join(os.environ.get('RV_REPO_SRC', '/repo/src'), 'scippneutron', 'atoms')


def exact(cell: str) -> Fraction:
    """Exact rational value of a decimal cell."""
    if not _NUM.match(cell):
        raise TableFormatError(f'cell {cell!r} is not a plain decimal number')
    try:
        return Fraction(Decimal(cell))
    except (InvalidOperation, ValueError) as e:  # pragma: no cover
        raise TableFormatError(f'cell {cell!r}: {e}') from None


def nearest_double(x: Fraction) -> float:
    # int / int true division of Python is correctly rounded
    return x.numerator / x.denominator


def bits(x: float) -> bytes:
    return struct.pack('<d', x)


@dataclass(frozen=True)
class Quantity:
    """One tabulated quantity: value, standard uncertainty (or none), unit."""

    value: float  # correctly rounded double of the decimal cell
    value_exact: Fraction
    std_exact: Fraction | None  # None: the table gives no uncertainty
    unit: str
    cell: str
    std_cell: str

    @property
    def variance_exact(self) -> Fraction | None:
        return None if self.std_exact is None else self.std_exact**2

    @property
    def variance(self) -> float | None:
        v = self.variance_exact
        return None if v is None else nearest_double(v)


def quantity(cell: str, std_cell: str, unit: str) -> Quantity | None:
    """None where the value cell is blank."""
    if cell == '':
        if std_cell != '':
            raise TableFormatError(f'uncertainty {std_cell!r} without a value')
        return None
    v = exact(cell)
    s = exact(std_cell) if std_cell != '' else None
    if s is not None and s < 0:
        raise TableFormatError(f'negative uncertainty {std_cell!r}')
    return Quantity(nearest_double(v), v, s, unit, cell, std_cell)


@dataclass
class Tables:
    scattering: dict = field(default_factory=dict)  # name -> {field: Quantity|None}
    weights: dict = field(default_factory=dict)  # element -> (Z, Quantity|None)
    masses: dict = field(default_factory=dict)  # nuclide -> Quantity
    raw: dict = field(default_factory=dict)  # file -> {name: [cells after the name]}
    non_rows: dict = field(default_factory=dict)  # file -> [first cells of comment/title lines]
    sha256: dict = field(default_factory=dict)
    paths: dict = field(default_factory=dict)

    # -- what a lookup must answer ------------------------------------------
    def element_of(self, name: str) -> str:
        """Element symbol of an element / nuclide name ('2H' -> 'H')."""
        return name.lstrip(_ASCII_DIGITS)

    def atom(self, name: str):
        """(Z, weight Quantity|None, mass Quantity|None) or None if ``name`` is not a row.

        An element name is a row of the weights table (no mass: masses belong to
        specific nuclides); a nuclide name is a row of the masses table and carries
        Z and standard weight of its element.
        """
        if name in self.weights:
            z, w = self.weights[name]
            return z, w, None
        if name in self.masses:
            el = self.element_of(name)
            if el not in self.weights:
                return None
            z, w = self.weights[el]
            return z, w, self.masses[name]
        return None

    def scattering_row(self, name: str):
        return self.scattering.get(name)

    def all_names(self) -> list[str]:
        seen = dict.fromkeys(list(self.scattering) + list(self.weights) + list(self.masses))
        return list(seen)


def _read(path):
    with open(path, 'rb') as f:
        blob = f.read()
    text = blob.decode('utf-8')
    rows = list(csv.reader(text.splitlines(keepends=True)))
    return blob, rows


def _titled(rows, fname, first_title):
    """Split a titled file into (non-row first cells, title row, data rows)."""
    non, title, data = [], None, []
    for r in rows:
        if not r:
            continue
        if title is None:
            if r[0].startswith('#'):
                non.append(','.join(r))
                continue
            if r[0] == first_title:
                title = r
                non.append(r[0])
                continue
            raise TableFormatError(f'{fname}: expected the title line, found {r!r}')
        data.append(r)
    if title is None:
        raise TableFormatError(f'{fname}: no title line')
    return non, title, data


def _col(title, pattern, fname):
    hits = [i for i, t in enumerate(title) if re.fullmatch(pattern, t.strip())]
    if len(hits) != 1:
        raise TableFormatError(f'{fname}: column {pattern!r} not found once in {title!r}')
    return hits[0]


def _unit_of(title_cell, fname):
    m = re.search(r'\[([^\]]+)\]', title_cell)
    if not m:
        raise TableFormatError(f'{fname}: no unit in title {title_cell!r}')
    return m.group(1)


def load(directory: str | None = None) -> Tables:
    d = directory or atoms_dir()
    t = Tables()
    for fn in FILES:
        p = os.path.join(d, fn)
        blob, rows = _read(p)
        t.paths[fn] = p
        t.sha256[fn] = hashlib.sha256(blob).hexdigest()
        t.raw[fn] = {}
        if fn == 'scattering_parameters.csv':
            t.non_rows[fn] = []
            for r in rows:
                if not r:
                    continue
                if len(r) != 17:
                    raise TableFormatError(f'{fn}: row {r!r} has {len(r)} cells, not 17')
                name = r[0]
                if name in t.scattering:
                    raise TableFormatError(f'{fn}: duplicate name {name!r}')
                t.raw[fn][name] = r[1:]
                t.scattering[name] = {
                    f: quantity(r[1 + 2 * i], r[2 + 2 * i], u)
                    for i, (f, u) in enumerate(SCATTERING_FIELDS)
                }
        elif fn == 'atomic_weights.csv':
            non, title, data = _titled(rows, fn, 'Element')
            t.non_rows[fn] = non
            iz = _col(title, r'Z', fn)
            iw = _col(title, r'Atomic Weight \[[^\]]+\]', fn)
            iu = _col(title, r'Uncertainty \[[^\]]+\]', fn)
            unit = _unit_of(title[iw], fn)
            if _unit_of(title[iu], fn) != unit:
                raise TableFormatError(f'{fn}: value and uncertainty units differ')
            for r in data:
                if len(r) != len(title):
                    raise TableFormatError(f'{fn}: row {r!r}')
                name = r[0]
                if name in t.weights:
                    raise TableFormatError(f'{fn}: duplicate name {name!r}')
                if not re.fullmatch(r'[0-9]+', r[iz]):
                    raise TableFormatError(f'{fn}: Z cell {r[iz]!r}')
                t.raw[fn][name] = r[1:]
                t.weights[name] = (int(r[iz]), quantity(r[iw], r[iu], unit))
        else:
            non, title, data = _titled(rows, fn, 'Isotope')
            t.non_rows[fn] = non
            im = _col(title, r'Atomic Mass \[[^\]]+\]', fn)
            iu = _col(title, r'Uncertainty \[[^\]]+\]', fn)
            unit = _unit_of(title[im], fn)
            if _unit_of(title[iu], fn) != unit:
                raise TableFormatError(f'{fn}: value and uncertainty units differ')
            for r in data:
                if len(r) != len(title):
                    raise TableFormatError(f'{fn}: row {r!r}')
                name = r[0]
                if name in t.masses:
                    raise TableFormatError(f'{fn}: duplicate name {name!r}')
                q = quantity(r[im], r[iu], unit)
                if q is None:
                    raise TableFormatError(f'{fn}: blank mass for {name!r}')
                t.raw[fn][name] = r[1:]
                t.masses[name] = q
    return t


def layout_self_check(t: Tables) -> dict:
    """Confirm the (untitled) scattering-table layout from the physics.

    sigma_coh = 4 pi (b_re^2 + b_im^2) [fm^2 = 0.01 barn] and
    sigma_scatt = sigma_coh + sigma_inc must hold to table rounding for the rows
    that list all the quantities involved.  Returns the fractions that agree to 5 %.
    """
    pi = Fraction('3.14159265358979323846')
    n1 = ok1 = n2 = ok2 = 0
    for row in t.scattering.values():
        b, bi = row['coherent_scattering_length_re'], row['coherent_scattering_length_im']
        sc_, si_ = row['coherent_scattering_cross_section'], row['incoherent_scattering_cross_section']
        st = row['total_scattering_cross_section']
        if b is not None and sc_ is not None and sc_.value_exact > Fraction(1, 100):
            n1 += 1
            mod2 = b.value_exact**2 + (bi.value_exact**2 if bi is not None else 0)
            pred = 4 * pi * mod2 / 100
            if abs(pred - sc_.value_exact) <= Fraction(5, 100) * sc_.value_exact + Fraction(2, 100):
                ok1 += 1
        if sc_ is not None and si_ is not None and st is not None and st.value_exact > Fraction(1, 100):
            n2 += 1
            if abs(sc_.value_exact + si_.value_exact - st.value_exact) <= (
                    Fraction(5, 100) * st.value_exact + Fraction(2, 100)):
                ok2 += 1
    return {'coh_rows': n1, 'coh_agree': ok1, 'sum_rows': n2, 'sum_agree': ok2}
