"""Executable model of "which target can convert() derive, and what is its value".

Written from the user guide (coordinate transformations) and the kernels' documented
equations: *if a coordinate is present use it, otherwise derive it from its inputs,
recursively; fail if an input is missing*.  No scippneutron import.
Values are numpy long double arrays in fixed units (m, us, angstrom, meV, 1/angstrom, rad).
"""

from __future__ import annotations

import numpy as np

from . import geom, si

LD = si.LD

ORIGINS = ['tof', 'wavelength', 'energy', 'Q']
TARGETS = ['wavelength', 'energy', 'dspacing', 'Q', 'Qx', 'Q_vec', 'hkl_vec', 'h', 'energy_transfer',
           'time_at_sample', 'L1', 'L2', 'Ltotal', 'two_theta', 'incident_beam', 'scattered_beam']
SUBSET = ['position', 'source_position', 'sample_position', 'incident_beam', 'scattered_beam', 'L1', 'L2',
          'Ltotal', 'two_theta', 'incident_energy', 'final_energy']

_GROUP = {'Qx': 'Qxyz', 'Qy': 'Qxyz', 'Qz': 'Qxyz', 'h': 'hkl', 'k': 'hkl', 'l': 'hkl'}

BEAMLINE_SCATTER = {
    'incident_beam': ('source_position', 'sample_position'),
    'scattered_beam': ('position', 'sample_position'),
    'L1': ('incident_beam',),
    'L2': ('scattered_beam',),
    'two_theta': ('incident_beam', 'scattered_beam'),
    'Ltotal': ('L1', 'L2'),
}
BEAMLINE_NOSCATTER = {'Ltotal': ('source_position', 'position')}
GEOMETRY_TARGETS = set(BEAMLINE_SCATTER)

_QFAMILY = {
    'Q': ('wavelength', 'two_theta'),
    'Qxyz': ('wavelength', 'incident_beam', 'scattered_beam'),
    'Q_vec': ('Qx', 'Qy', 'Qz'),
    'hkl_vec': ('Q_vec', 'ub_matrix', 'sample_rotation'),
    'hkl': ('hkl_vec',),
    'ub_matrix': ('u_matrix', 'b_matrix'),
}
ELASTIC = {
    'tof': {'dspacing': ('tof', 'Ltotal', 'two_theta'), 'energy': ('tof', 'Ltotal'),
            'wavelength': ('tof', 'Ltotal'), 'time_at_sample': ('pulse_time', 'tof', 'L2', 'wavelength'),
            **_QFAMILY},
    'wavelength': {'dspacing': ('wavelength', 'two_theta'), 'energy': ('wavelength',), **_QFAMILY},
    'energy': {'dspacing': ('energy', 'two_theta'), 'wavelength': ('energy',)},
    'Q': {'wavelength': ('Q', 'two_theta')},
}
KINEMATIC = {'wavelength': ('tof', 'Ltotal'), 'energy': ('tof', 'Ltotal')}
INELASTIC = {
    'direct_inelastic': {'energy_transfer': ('tof', 'L1', 'L2', 'incident_energy')},
    'indirect_inelastic': {'energy_transfer': ('tof', 'L1', 'L2', 'final_energy')},
}


class Refuse(Exception):
    """The model says convert must raise RuntimeError."""


def energy_mode(present, origin, target):
    inel = [n for n in ('incident_energy', 'final_energy') if n in present]
    if target == 'energy_transfer':
        if len(inel) != 1:
            raise Refuse('energy_transfer needs exactly one of incident/final energy')
        return 'direct_inelastic' if inel[0] == 'incident_energy' else 'indirect_inelastic'
    if 'energy' in (origin, target) and inel:
        raise Refuse('elastic energy with inelastic coordinates is ambiguous')
    return 'elastic'


def rules(origin, target, scatter, mode):
    """Rule table {node: inputs} that may be used for this request."""
    if not scatter:
        return {**BEAMLINE_NOSCATTER, **KINEMATIC}
    if mode != 'elastic':
        return {**BEAMLINE_SCATTER, **INELASTIC[mode]}
    if target in GEOMETRY_TARGETS:
        return dict(BEAMLINE_SCATTER)
    return {**BEAMLINE_SCATTER, **ELASTIC[origin]}


def node_of(name):
    return _GROUP.get(name, name)


def plan(target, present, table):
    """Ordered list of nodes that must be computed; raises Refuse if not derivable."""
    order = []
    visiting = set()

    def need(name):
        if name in present:
            return
        node = node_of(name)
        if node in order:
            return
        if node not in table or node in visiting:
            raise Refuse(f'{name} is neither present nor derivable')
        visiting.add(node)
        for inp in table[node]:
            need(inp)
        visiting.discard(node)
        order.append(node)

    need(target)
    return order


def used_inputs(target, present, table):
    """The supplied coordinates the derivation actually reads (the leaves of the plan), in first-use order.

    Presence decides, values do not: whatever these coordinates contain (NaN, inf, zero, no elements at all),
    they are what the result is computed from.  Raises Refuse like plan().
    """
    present = set(present)
    leaves, done, visiting = [], set(), set()

    def need(name):
        if name in present:
            if name not in leaves:
                leaves.append(name)
            return
        node = node_of(name)
        if node in done:
            return
        if node not in table or node in visiting:
            raise Refuse(f'{name} is neither present nor derivable')
        visiting.add(node)
        for inp in table[node]:
            need(inp)
        visiting.discard(node)
        done.add(node)

    need(target)
    return leaves


def shallow_inputs(target, table, given=()):
    """The smallest set of SUBSET coordinates from which `target` follows by the shortest derivation: the
    inputs of its rule, each replaced by its own inputs while it is neither a SUBSET coordinate nor `given`
    (origin, auxiliary inputs).  None if some input can be neither supplied nor derived."""
    out = []

    def expand(name, depth, seen):
        if name in given:
            return True
        if name in SUBSET and depth > 0:
            if name not in out:
                out.append(name)
            return True
        node = node_of(name)
        if node not in table or node in seen:
            return False
        return all(expand(inp, depth + 1, seen | {node}) for inp in table[node])

    return out if expand(target, 0, frozenset()) else None


def decide(origin, target, scatter, present):
    """('ok', nodes) or ('refuse', reason)."""
    try:
        mode = energy_mode(present, origin, target)
        nodes = plan(target, set(present), rules(origin, target, scatter, mode))
        return 'ok', nodes, mode
    except Refuse as e:
        return 'refuse', str(e), None


def table_for(origin, target, scatter, mode):
    return rules(origin, target, scatter, mode)


# --------------------------------------------------------------- values ---
def _inv3(m):
    m = np.asarray(m, dtype=LD)
    a, b, c = m[..., 0, 0], m[..., 0, 1], m[..., 0, 2]
    d, e, f = m[..., 1, 0], m[..., 1, 1], m[..., 1, 2]
    g, h, i = m[..., 2, 0], m[..., 2, 1], m[..., 2, 2]
    det = a * (e * i - f * h) - b * (d * i - f * g) + c * (d * h - e * g)
    out = np.empty(m.shape, dtype=LD)
    out[..., 0, 0] = e * i - f * h
    out[..., 0, 1] = c * h - b * i
    out[..., 0, 2] = b * f - c * e
    out[..., 1, 0] = f * g - d * i
    out[..., 1, 1] = a * i - c * g
    out[..., 1, 2] = c * d - a * f
    out[..., 2, 0] = d * h - e * g
    out[..., 2, 1] = b * g - a * h
    out[..., 2, 2] = a * e - b * d
    return out / det[..., None, None]


def evaluate(nodes, values, table, mode):
    """Compute the nodes in order from `values` (dict name -> long double arrays, fixed units).

    Units: lengths m, tof us, wavelength angstrom, energy meV, Q 1/angstrom, angles rad.
    Returns the dict extended with the derived quantities.
    """
    c = si.constants()
    h, m = c['h'], c['m_n']
    meV = si.ld(si.E_CHARGE) / 1000
    ang = LD('1e-10')
    us = LD('1e-6')
    v = dict(values)
    two = LD(2)
    for node in nodes:
        inputs = table[node]
        if node == 'incident_beam':
            v[node] = v['sample_position'] - v['source_position']
        elif node == 'scattered_beam':
            v[node] = v['position'] - v['sample_position']
        elif node == 'L1':
            v[node] = geom.norm(v['incident_beam'])
        elif node == 'L2':
            v[node] = geom.norm(v['scattered_beam'])
        elif node == 'two_theta':
            b1 = np.broadcast_to(v['incident_beam'], np.broadcast(v['incident_beam'], v['scattered_beam']).shape)
            v[node] = geom.angle(b1, v['scattered_beam'])
        elif node == 'Ltotal':
            if inputs == ('L1', 'L2'):
                v[node] = v['L1'] + v['L2']
            else:
                v[node] = geom.norm(v['position'] - v['source_position'])
        elif node == 'wavelength':
            if inputs == ('tof', 'Ltotal'):
                v[node] = h * (v['tof'] * us) / (m * v['Ltotal']) / ang
            elif inputs == ('energy',):
                v[node] = h / np.sqrt(two * m * v['energy'] * meV) / ang
            else:  # ('Q', 'two_theta')
                v[node] = 4 * si.PI * np.sin(v['two_theta'] / 2) / v['Q']
        elif node == 'energy':
            if inputs == ('tof', 'Ltotal'):
                v[node] = m * v['Ltotal'] ** 2 / (two * (v['tof'] * us) ** 2) / meV
            else:
                v[node] = h * h / (two * m * (v['wavelength'] * ang) ** 2) / meV
        elif node == 'dspacing':
            s = two * np.sin(v['two_theta'] / 2)
            if inputs[0] == 'tof':
                v[node] = h * (v['tof'] * us) / (m * v['Ltotal'] * s) / ang
            elif inputs[0] == 'wavelength':
                v[node] = v['wavelength'] / s
            else:
                v[node] = h / np.sqrt(two * m * v['energy'] * meV) / s / ang
        elif node == 'Q':
            v[node] = 4 * si.PI * np.sin(v['two_theta'] / 2) / v['wavelength']
        elif node == 'Qxyz':
            b1, b2 = geom.v3(v['incident_beam']), geom.v3(v['scattered_beam'])
            e = b1 / geom.norm(b1)[..., None] - b2 / geom.norm(b2)[..., None]
            q = (2 * si.PI / v['wavelength'])[..., None] * e
            v['Qx'], v['Qy'], v['Qz'] = q[..., 0], q[..., 1], q[..., 2]
        elif node == 'Q_vec':
            v[node] = np.stack(np.broadcast_arrays(v['Qx'], v['Qy'], v['Qz']), axis=-1)
        elif node == 'hkl_vec':
            M = v['sample_rotation'] @ v['ub_matrix']
            v[node] = np.einsum('...ij,...j->...i', _inv3(M), v['Q_vec']) / (2 * si.PI)
        elif node == 'hkl':
            v['h'], v['k'], v['l'] = (v['hkl_vec'][..., i] for i in range(3))
        elif node == 'energy_transfer':
            t = v['tof'] * us
            if mode == 'direct_inelastic':
                E = v['incident_energy'] * meV
                t0 = v['L1'] * np.sqrt(m / (two * E))
                v[node] = (E - m * v['L2'] ** 2 / (two * (t - t0) ** 2)) / meV
            else:
                E = v['final_energy'] * meV
                t0 = v['L2'] * np.sqrt(m / (two * E))
                v[node] = (m * v['L1'] ** 2 / (two * (t - t0) ** 2) - E) / meV
            # documented: "The result is NaN for unphysical points, that is, where t < t0"
            v[node] = np.where(t0 > t, LD('nan'), v[node])
            v['_t0_over_t'] = t0 / t
        elif node == 'time_at_sample':
            vel = h / (m * v['wavelength'] * ang)  # m/s
            v[node] = v['pulse_time'] + v['tof'] - v['L2'] / vel / us  # pulse_time and tof in us
        else:
            raise KeyError(node)
    return v


# ---------------------------------------------------- uncertainties (first order) ---
# How often an input occurs in the documented formula of a rule (1 unless stated): the energy-transfer formulas
# contain the fixed energy twice (E itself and t0 = L sqrt(m / 2E)).
RULE_USES = {('energy_transfer', 'incident_energy'): 2, ('energy_transfer', 'final_energy'): 2}


def occurrences(target, leaf, present, table):
    """How often the supplied coordinate `leaf` occurs in the formula for `target` written out in terms of the
    supplied coordinates.  0: the target does not depend on it; 1: first-order propagation of its uncertainty is
    defined without any assumption about correlations; > 1: an operand-by-operand propagation (scipp) is
    ambiguous, the result depends on how the formula is arranged."""
    present = set(present)

    def occ(name):
        if name in present:
            return int(name == leaf)
        node = node_of(name)
        return sum(RULE_USES.get((node, inp), 1) * occ(inp) for inp in table[node])

    return occ(target)


def _partial(name, inp, inputs, v, mode):
    """d name / d inp of the documented formula of the rule (name <- inputs), at the evaluated values `v`
    (fixed units of evaluate()).  KeyError where the formula is not differentiated here (angles, vectors)."""
    c = si.constants()
    h, m = c['h'], c['m_n']
    meV = si.ld(si.E_CHARGE) / 1000
    ang, us = LD('1e-10'), LD('1e-6')
    y = v[name]
    if name == 'Ltotal' and inputs == ('L1', 'L2'):
        return LD(1)
    if name in ('wavelength', 'dspacing') and inp in ('tof', 'wavelength'):
        return y / v[inp]            # proportional to tof resp. wavelength
    if name in ('wavelength', 'dspacing') and inp in ('Ltotal', 'Q'):
        return -y / v[inp]           # inversely proportional
    if name in ('wavelength', 'dspacing') and inp == 'energy':
        return -y / (2 * v[inp])     # ~ energy^(-1/2)
    if name == 'energy' and inp == 'tof':
        return -2 * y / v[inp]       # ~ tof^-2
    if name == 'energy' and inp == 'Ltotal':
        return 2 * y / v[inp]        # ~ Ltotal^2
    if name == 'energy' and inp == 'wavelength':
        return -2 * y / v[inp]       # ~ wavelength^-2
    if name in ('Q', 'Qx', 'Qy', 'Qz') and inp == 'wavelength':
        return -y / v[inp]
    if name == 'energy_transfer' and inp in ('tof', 'L1', 'L2'):
        t = v['tof'] * us
        if mode == 'direct_inelastic':
            k = np.sqrt(m / (2 * v['incident_energy'] * meV))
            dt = t - v['L1'] * k
            return {'tof': m * v['L2'] ** 2 / dt ** 3 * us, 'L2': -m * v['L2'] / dt ** 2,
                    'L1': -m * v['L2'] ** 2 / dt ** 3 * k}[inp] / meV
        k = np.sqrt(m / (2 * v['final_energy'] * meV))
        dt = t - v['L2'] * k
        return {'tof': -m * v['L1'] ** 2 / dt ** 3 * us, 'L1': m * v['L1'] / dt ** 2,
                'L2': m * v['L1'] ** 2 / dt ** 3 * k}[inp] / meV
    if name == 'time_at_sample':
        if inp in ('tof', 'pulse_time'):
            return LD(1)
        if inp == 'L2':
            return -m * v['wavelength'] * ang / (h * us)
        if inp == 'wavelength':
            return -v['L2'] * m * ang / (h * us)
    raise KeyError((name, inp))


def derivative(target, leaf, present, table, v, mode):
    """d target / d leaf (chain rule over the derivation, all paths) at the evaluated values `v`."""
    present = set(present)

    def D(name):
        # None: does not depend on the leaf
        if name in present:
            return LD(1) if name == leaf else None
        inputs = table[node_of(name)]
        out = None
        for inp in inputs:
            d = D(inp)
            if d is not None:
                term = _partial(name, inp, inputs, v, mode) * d
                out = term if out is None else out + term
        return out

    return D(target)


def first_order_variance(target, leaf, present, table, v, mode, variances):
    """(variance of `target`, decided mask) when only `leaf` carries variances: (d target / d leaf)^2 var(leaf),
    element by element, from the analytic derivatives of the documented formulas at the long-double values `v`
    (the result of evaluate()).  Undecided: nothing finite, or energy transfer within 1e-3 of the singularity
    t = t0 (there the float64 rounding of t - t0 is amplified without bound)."""
    with np.errstate(all='ignore'):
        d = derivative(target, leaf, present, table, v, mode)
        d = np.asarray(LD(0) if d is None else d, dtype=LD)
        want = d * d * np.asarray(variances, dtype=LD)
        decided = np.isfinite(want.astype(np.float64))
        if '_t0_over_t' in v:
            decided = decided & (np.abs(1 - v['_t0_over_t']) > LD('1e-3'))
        return want, decided
