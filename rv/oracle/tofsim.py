"""Neutron transmission simulator for chopper cascades (oracle of C11).

Independent of scippneutron: a neutron is a pair (emission time [s], wavelength
[angstrom]) inside the source pulse.  It flies with the constant inverse velocity
``lambda * m_n / h`` and is at distance ``d`` at the time

    t(d) = t_emit + d * lambda * m_n / h .

A chopper at distance ``d`` with windows ``[open_k, close_k]`` lets it pass iff
``open_k <= t(d) <= close_k`` for some k; it is *transmitted* iff it passed every
chopper.  Everything is evaluated in long double (x87 80 bit); ``h`` and ``m_n``
are the values scipp exposes (see DESIGN 4a: a hand-typed CODATA-2018 mass is
1.5e-9 off the mass scipp uses).

The second half is plain geometry: even-odd point-in-polygon and point-to-edge
distance in a normalised (time / time-scale, wavelength / wavelength-scale)
plane, used by the monitor to decide whether a neutron lies in the union of the
polygons the code under test reports, with an undecided band around edges.
"""

from __future__ import annotations

from dataclasses import dataclass, field

import numpy as np
import scipp as sc
import scipp.constants  # noqa: F401  (sc.constants needs the explicit import)

LD = np.longdouble
EPS64 = float(np.finfo(np.float64).eps)

_ALPHA = None


def alpha() -> np.longdouble:
    """m_n / h in s / (m * angstrom), long double, from scipp.constants."""
    global _ALPHA
    if _ALPHA is None:
        h = sc.constants.h
        m = sc.constants.m_n
        if h.unit != sc.Unit('J*s') or m.unit != sc.Unit('kg'):
            raise RuntimeError('scipp.constants h / m_n not in SI')
        _ALPHA = LD(m.value) / LD(h.value) * LD('1e-10')
    return _ALPHA


def self_test() -> list[str]:
    """Sanity of the arithmetic the oracle relies on."""
    bad = []
    if np.finfo(LD).eps > 2e-19:
        bad.append(f'long double is not wider than double (eps {np.finfo(LD).eps})')
    a = float(alpha())
    # 1 angstrom neutron: 3956.034 m/s -> 2.52778e-4 s/m
    if not 2.5277e-4 < a < 2.5279e-4:
        bad.append(f'm_n/h = {a!r} s/(m angstrom) is not the neutron value')
    # a hand-checked transmission: pulse 0..1 ms, 1..2 angstrom, chopper at 10 m
    ch = ChopperModel(LD(10), np.array([LD('3e-3')]), np.array([LD('4e-3')]))
    te = np.array([LD(0), LD(0), LD('1e-3')])
    lam = np.array([LD(1), LD('1.4'), LD('1.4')])  # arrival 2.53 ms, 3.54 ms, 4.54 ms
    p, near = transmitted(te, lam, [ch])
    if list(p) != [False, True, False] or near.any():
        bad.append('transmission self-test failed')
    sq = [(np.array([LD(0), LD(1), LD(1), LD(0)]), np.array([LD(0), LD(0), LD(1), LD(1)]))]
    ins, nr, _ = in_polygons(np.array([LD('0.5'), LD('1.5'), LD(1)]),
                             np.array([LD('0.5'), LD('0.5'), LD('0.5')]), sq, LD(1), LD(1), 1e-9)
    if list(ins[:2]) != [True, False] or list(nr) != [False, False, True]:
        bad.append('point-in-polygon self-test failed')
    # degenerate pulses: a monochromatic pulse 0..1 ms at 2 angstrom, 10 m; reported segment covers the
    # emission times 0.2..0.6 ms
    pm = Pulse(LD(0), LD('1e-3'), LD(2), LD(2))
    if [pulse_kind(pm), pulse_kind(Pulse(LD(1), LD(1), LD(1), LD(2))), pulse_kind(Pulse(LD(1), LD(1), LD(2), LD(2))),
            pulse_kind(Pulse(LD(0), LD('1e-4'), LD(1), LD('1.5')))] != ['mono', 'instant', 'point', 'area']:
        bad.append('pulse_kind self-test failed')
    sh = LD(10) * alpha() * LD(2)
    seg = [(np.array([LD('2e-4'), LD('6e-4'), LD('6e-4'), LD('2e-4')]) + sh, np.full(4, LD(2)))]
    tes = np.array([LD('1e-4'), LD('3e-4'), LD('6e-4'), LD('9e-4')])
    r = on_segment(tes + sh, np.full(4, LD(2)), seg, pulse_image_ends(pm, 'mono', LD(10)), LD('1e-2'), LD(2), 1e-9)
    if r is None or list(r[0][[0, 1, 3]]) != [False, True, False] or list(r[1]) != [False, False, True, False]:
        bad.append('segment membership self-test failed')
    if on_segment(tes + sh, np.full(4, LD(2)), [(seg[0][0], np.array([LD(2), LD(2), LD('2.1'), LD(2)]))],
                  pulse_image_ends(pm, 'mono', LD(10)), LD('1e-2'), LD(2), 1e-9) is not None:
        bad.append('segment membership accepts a polygon off the line')
    pp = [(np.full(4, LD(1)), np.full(4, LD(2)))]
    r = at_point(np.array([LD(1), LD('1.1')]), np.array([LD(2), LD(2)]), pp, LD(1), LD(2), 1e-9)
    if list(r[0]) != [True, False] or list(r[1]) != [False, False]:
        bad.append('point membership self-test failed')
    return bad


# ----------------------------------------------------------------- model ---
@dataclass(eq=False)
class ChopperModel:
    distance: np.longdouble  # m
    t_open: np.ndarray  # s, long double
    t_close: np.ndarray  # s, long double
    tag: object = None

    def edges(self):
        return np.concatenate([self.t_open, self.t_close])


@dataclass(eq=False)
class Pulse:
    t0: np.longdouble
    t1: np.longdouble
    l0: np.longdouble
    l1: np.longdouble

    def contains(self, te, lam):
        return (te >= self.t0) & (te <= self.t1) & (lam >= self.l0) & (lam <= self.l1)


@dataclass
class Neutrons:
    te: np.ndarray = field(default_factory=lambda: np.zeros(0, dtype=LD))
    lam: np.ndarray = field(default_factory=lambda: np.zeros(0, dtype=LD))

    def __len__(self):
        return len(self.te)

    def extended(self, other):
        return Neutrons(np.concatenate([self.te, other.te]), np.concatenate([self.lam, other.lam]))


def time_at(te, lam, distance) -> np.ndarray:
    """Time at which the neutrons are at ``distance`` [m]."""
    return te + LD(distance) * alpha() * lam


def pulse_neutrons(pulse: Pulse, rng, n_grid: int = 40, n_edge: int = 24) -> Neutrons:
    """Jittered n_grid x n_grid grid over the pulse rectangle, points on its four
    edges (exactly on them and 1e-6 of the extent inside) and its corners."""
    dt = pulse.t1 - pulse.t0
    dl = pulse.l1 - pulse.l0
    u = (np.arange(n_grid)[:, None] + rng.random((n_grid, n_grid))) / n_grid
    v = (np.arange(n_grid)[None, :] + rng.random((n_grid, n_grid))) / n_grid
    te = [pulse.t0 + dt * u.ravel().astype(LD)]
    lam = [pulse.l0 + dl * v.ravel().astype(LD)]
    s = rng.random(n_edge).astype(LD)
    for off in (LD(0), LD('1e-6')):
        te += [pulse.t0 + dt * s, pulse.t0 + dt * s,
               np.full(n_edge, pulse.t0 + dt * off), np.full(n_edge, pulse.t1 - dt * off)]
        lam += [np.full(n_edge, pulse.l0 + dl * off), np.full(n_edge, pulse.l1 - dl * off),
                pulse.l0 + dl * s, pulse.l0 + dl * s]
    te.append(np.array([pulse.t0, pulse.t1, pulse.t1, pulse.t0], dtype=LD))
    lam.append(np.array([pulse.l0, pulse.l0, pulse.l1, pulse.l1], dtype=LD))
    return Neutrons(np.concatenate(te), np.concatenate(lam))


def edge_neutrons(pulse: Pulse, ch: ChopperModel, rng, per_edge: int = 6,
                  offsets=(1e-6, 1e-4)) -> Neutrons:
    """Neutrons at the pre-images of every window edge of ``ch``, offset by
    +-offsets (relative) in time at the chopper, restricted to the pulse."""
    te, lam = [], []
    a = alpha()
    scale = pulse.t1 - pulse.t0
    for edge in ch.edges():
        for rel in offsets:
            for sign in (-1, 1):
                t_at = edge + LD(sign) * LD(rel) * max(abs(edge), scale)
                # wavelengths for which some emission time inside the pulse arrives at t_at
                lo = max(pulse.l0, (t_at - pulse.t1) / (ch.distance * a)) if ch.distance > 0 else pulse.l0
                hi = min(pulse.l1, (t_at - pulse.t0) / (ch.distance * a)) if ch.distance > 0 else pulse.l1
                if not lo <= hi:
                    continue
                # lo == hi: a pulse without extent in time or in wavelength (one pre-image)
                w = lo + (hi - lo) * rng.random(per_edge if lo < hi else 1).astype(LD)
                e = t_at - ch.distance * a * w
                # an emission time that misses the pulse only by the rounding of this inversion is snapped
                # onto it (changes the time at the chopper by ~1e-19 relative; offsets are >= 3e-9)
                snapped = np.clip(e, pulse.t0, pulse.t1)
                e = np.where(np.abs(e - snapped) <= 8 * np.finfo(LD).eps * max(abs(t_at), abs(pulse.t1)), snapped, e)
                ok = (e >= pulse.t0) & (e <= pulse.t1)
                te.append(e[ok])
                lam.append(w[ok])
    if not te:
        return Neutrons()
    return Neutrons(np.concatenate(te), np.concatenate(lam))


def transmitted(te, lam, choppers, band_rel: float = 1e-9):
    """(passed all choppers, within band_rel of some window edge at some chopper)."""
    passed = np.ones(len(te), dtype=bool)
    near = np.zeros(len(te), dtype=bool)
    for ch in choppers:
        t = time_at(te, lam, ch.distance)
        ok = np.zeros(len(te), dtype=bool)
        for o, c in zip(ch.t_open, ch.t_close, strict=True):
            ok |= (t >= o) & (t <= c)
        for e in ch.edges():
            near |= np.abs(t - e) <= LD(band_rel) * np.maximum(np.abs(t), abs(e))
        passed &= ok
    return passed, near


# -------------------------------------------------------------- geometry ---
def _seg_dist(px, py, x1, y1, x2, y2):
    """Distance of points (N,) to segments (E,) -> (N, E); zero-length segments ok."""
    dx = (x2 - x1)[None, :]
    dy = (y2 - y1)[None, :]
    rx = px[:, None] - x1[None, :]
    ry = py[:, None] - y1[None, :]
    l2 = dx * dx + dy * dy
    with np.errstate(divide='ignore', invalid='ignore'):
        s = (rx * dx + ry * dy) / l2
    s = np.where(l2 > 0, np.clip(s, 0, 1), LD(0))
    ex = rx - s * dx
    ey = ry - s * dy
    return np.sqrt(ex * ex + ey * ey)


def in_polygons(pt, pl, polys, tscale, lscale, band: float, chunk_edges: int = 600):
    """Even-odd membership of points in the union of polygons.

    ``polys`` = list of (time array, wavelength array) (closed implicitly).
    Returns (inside any polygon, within ``band`` of any polygon edge in the
    plane normalised by (tscale, lscale), distance to the nearest edge).
    """
    n = len(pt)
    inside = np.zeros(n, dtype=bool)
    mind = np.full(n, LD(np.inf))
    if not polys or n == 0:
        return inside, np.zeros(n, dtype=bool), mind
    px = np.asarray(pt, dtype=LD) / LD(tscale)
    py = np.asarray(pl, dtype=LD) / LD(lscale)
    group, cur, cur_edges = [], [], 0
    for poly in polys:
        cur.append(poly)
        cur_edges += len(poly[0])
        if cur_edges >= chunk_edges:
            group.append(cur)
            cur, cur_edges = [], 0
    if cur:
        group.append(cur)
    for g in group:
        x1 = np.concatenate([np.asarray(t, dtype=LD) for t, _ in g]) / LD(tscale)
        y1 = np.concatenate([np.asarray(w, dtype=LD) for _, w in g]) / LD(lscale)
        x2 = np.concatenate([np.roll(np.asarray(t, dtype=LD), -1) for t, _ in g]) / LD(tscale)
        y2 = np.concatenate([np.roll(np.asarray(w, dtype=LD), -1) for _, w in g]) / LD(lscale)
        starts = np.cumsum([0] + [len(t) for t, _ in g[:-1]])
        d = _seg_dist(px, py, x1, y1, x2, y2)
        mind = np.minimum(mind, d.min(axis=1))
        below1 = y1[None, :] <= py[:, None]
        below2 = y2[None, :] <= py[:, None]
        straddle = below1 != below2
        with np.errstate(divide='ignore', invalid='ignore'):
            xi = x1[None, :] + (py[:, None] - y1[None, :]) * ((x2 - x1) / (y2 - y1))[None, :]
        cross = straddle & (xi > px[:, None])
        parity = np.add.reduceat(cross.astype(np.int64), starts, axis=1) % 2
        inside |= parity.any(axis=1)
    return inside, mind <= LD(band), mind


# ------------------------------------------------- degenerate pulse rectangles ---
THIN_REL = 1e-13  # an extent of <= ~450 ulp counts as "no extent": generated are 0 and 1..8 ulp


def pulse_kind(pulse: Pulse) -> str:
    """'area' (ordinary rectangle), 'mono' (no extent in wavelength), 'instant' (no extent in
    time) or 'point' (neither), where "no extent" = zero or a few ulp."""
    thin_t = (pulse.t1 - pulse.t0) <= LD(THIN_REL) * max(abs(pulse.t0), abs(pulse.t1))
    thin_l = (pulse.l1 - pulse.l0) <= LD(THIN_REL) * abs(pulse.l1)
    return 'point' if thin_t and thin_l else 'mono' if thin_l else 'instant' if thin_t else 'area'


def pulse_image_ends(pulse: Pulse, kind: str, distance):
    """End points (t, lambda) of the segment the neutrons of a degenerate pulse occupy at ``distance``
    (the thin extent is replaced by its middle); for 'point' both ends coincide."""
    tm = (pulse.t0 + pulse.t1) / 2
    lm = (pulse.l0 + pulse.l1) / 2
    if kind == 'mono':
        ends = [(pulse.t0, lm), (pulse.t1, lm)]
    elif kind == 'instant':
        ends = [(tm, pulse.l0), (tm, pulse.l1)]
    else:
        ends = [(tm, lm), (tm, lm)]
    return [(time_at(te, lam, distance), lam) for te, lam in ends]


def on_segment(pt, pl, polys, ends, tscale, lscale, band: float):
    """Membership along a line, for the neutrons of a pulse without extent in one direction.

    All neutrons lie on the segment ``ends`` (normalised plane); a reported polygon that lies on that
    line (every vertex within ``band`` of it) covers the interval between its extreme vertices.
    Returns (inside some interval, within ``band`` of an interval end, distance along the line to the
    nearest interval end), or None if the segment is too short to carry a band or some polygon has a
    vertex off the line (the caller then uses the plane test)."""
    (t0, l0), (t1, l1) = ends
    ox, oy = LD(t0) / LD(tscale), LD(l0) / LD(lscale)
    dx, dy = LD(t1) / LD(tscale) - ox, LD(l1) / LD(lscale) - oy
    length = np.sqrt(dx * dx + dy * dy)
    if not length > 1000 * LD(band):
        return None
    ux, uy = dx / length, dy / length
    px = np.asarray(pt, dtype=LD) / LD(tscale) - ox
    py = np.asarray(pl, dtype=LD) / LD(lscale) - oy
    s = px * ux + py * uy
    if len(s) and np.max(np.abs(py * ux - px * uy)) > LD(band):
        return None  # (cannot happen for neutrons of this pulse)
    inside = np.zeros(len(s), dtype=bool)
    mind = np.full(len(s), LD(np.inf))
    for t, w in polys:
        vx = np.asarray(t, dtype=LD) / LD(tscale) - ox
        vy = np.asarray(w, dtype=LD) / LD(lscale) - oy
        if np.max(np.abs(vy * ux - vx * uy)) > LD(band):
            return None
        sv = vx * ux + vy * uy
        lo, hi = sv.min(), sv.max()
        inside |= (s >= lo) & (s <= hi)
        mind = np.minimum(mind, np.minimum(np.abs(s - lo), np.abs(s - hi)))
    return inside, mind <= LD(band), mind


def at_point(pt, pl, polys, tscale, lscale, band: float):
    """Membership for the neutrons of a pulse without any extent: a polygon whose vertices are all
    within ``band`` of the neutron is the neutron's point (inside); otherwise the plane test decides.
    Returns (inside, undecided, distance)."""
    inside, near, mind = in_polygons(pt, pl, polys, tscale, lscale, band)
    px = np.asarray(pt, dtype=LD) / LD(tscale)
    py = np.asarray(pl, dtype=LD) / LD(lscale)
    is_point = np.zeros(len(px), dtype=bool)
    for t, w in polys:
        vx = np.asarray(t, dtype=LD) / LD(tscale)
        vy = np.asarray(w, dtype=LD) / LD(lscale)
        r = np.sqrt((px[:, None] - vx[None, :]) ** 2 + (py[:, None] - vy[None, :]) ** 2).max(axis=1)
        is_point |= r <= LD(band)
    return inside | is_point, near & ~is_point, mind


def boundary_distance(qt, ql, poly, tscale, lscale):
    """Normalised distance of points to the boundary of one polygon."""
    t = np.asarray(poly[0], dtype=LD) / LD(tscale)
    w = np.asarray(poly[1], dtype=LD) / LD(lscale)
    d = _seg_dist(np.asarray(qt, dtype=LD) / LD(tscale), np.asarray(ql, dtype=LD) / LD(lscale),
                  t, w, np.roll(t, -1), np.roll(w, -1))
    return d.min(axis=1)


def hausdorff_vertices(a, b, tscale, lscale):
    """Symmetric max-min distance between two vertex sets [(t, w)] (normalised)."""
    at = np.asarray(a[0], dtype=LD) / LD(tscale)
    aw = np.asarray(a[1], dtype=LD) / LD(lscale)
    bt = np.asarray(b[0], dtype=LD) / LD(tscale)
    bw = np.asarray(b[1], dtype=LD) / LD(lscale)
    d = np.sqrt((at[:, None] - bt[None, :]) ** 2 + (aw[:, None] - bw[None, :]) ** 2)
    return max(d.min(axis=1).max(), d.min(axis=0).max())
