"""Euclidean reference geometry in long double (no scippneutron)."""

from __future__ import annotations

import numpy as np

LD = np.longdouble


def v3(a) -> np.ndarray:
    """(..., 3) long double array."""
    return np.asarray(a, dtype=LD)


def norm(a) -> np.ndarray:
    a = v3(a)
    m = np.max(np.abs(a), axis=-1, keepdims=True)
    m = np.where(m == 0, LD(1), m)
    s = a / m
    return (m[..., 0]) * np.sqrt(np.sum(s * s, axis=-1))


def dot(a, b):
    return np.sum(v3(a) * v3(b), axis=-1)


def cross(a, b):
    return np.cross(v3(a), v3(b))


def angle(a, b) -> np.ndarray:
    """Exact-in-the-limit angle between vectors (Kahan), evaluated in long double.

    2 atan2(| |b| a - |a| b |, | |b| a + |a| b |); absolute error a few long-double eps
    for every configuration including (anti)parallel vectors.
    """
    a, b = v3(a), v3(b)
    na, nb = norm(a)[..., None], norm(b)[..., None]
    p = nb * a - na * b
    q = nb * a + na * b
    return 2 * np.arctan2(norm(p), norm(q))


def norm_blocks(a, block=1 << 15) -> np.ndarray:
    """``norm`` evaluated in blocks of rows (bounded long-double temporaries)."""
    a = np.asarray(a)
    n = int(np.prod(a.shape[:-1], dtype=np.int64))
    if n <= block:
        return norm(a)
    f = a.reshape(n, 3)
    out = np.empty(n, dtype=LD)
    for i in range(0, n, block):
        out[i:i + block] = norm(f[i:i + block])
    return out.reshape(a.shape[:-1])


def angle_blocks(a, b, block=1 << 15) -> np.ndarray:
    """``angle`` of broadcast (..., 3) operands, element for element the same numbers, evaluated in
    blocks of rows so that the long-double temporaries stay small for millions of vectors."""
    a, b = np.asarray(a), np.asarray(b)
    shape = np.broadcast_shapes(a.shape, b.shape)
    n = int(np.prod(shape[:-1], dtype=np.int64))
    if n <= block:
        return angle(np.broadcast_to(a, shape), np.broadcast_to(b, shape))
    fa = None if a.ndim == 1 else np.broadcast_to(a, shape).reshape(n, 3)
    fb = None if b.ndim == 1 else np.broadcast_to(b, shape).reshape(n, 3)
    out = np.empty(n, dtype=LD)
    for i in range(0, n, block):
        out[i:i + block] = angle(a if fa is None else fa[i:i + block], b if fb is None else fb[i:i + block])
    return out.reshape(shape[:-1])


def angle_mp(a, b, dps=50):
    """Same angle with mpmath from exact float inputs: atan2(|a x b|, a . b)."""
    import mpmath as mp

    mp.mp.dps = dps
    a = [mp.mpf(float(x)) for x in a]
    b = [mp.mpf(float(x)) for x in b]
    cx = a[1] * b[2] - a[2] * b[1]
    cy = a[2] * b[0] - a[0] * b[2]
    cz = a[0] * b[1] - a[1] * b[0]
    return mp.atan2(mp.sqrt(cx * cx + cy * cy + cz * cz), a[0] * b[0] + a[1] * b[1] + a[2] * b[2])


def random_unit(rng, n):
    v = rng.normal(size=(n, 3))
    return v / np.linalg.norm(v, axis=1, keepdims=True)


def perpendicular_unit(rng, a):
    """Random unit vectors perpendicular to each row of a (long double)."""
    a = v3(a)
    r = v3(rng.normal(size=a.shape))
    an = a / norm(a)[..., None]
    r = r - dot(r, an)[..., None] * an
    return r / norm(r)[..., None]


def rotate_towards(a, perp, ang):
    """Unit(a) rotated by ang in the plane (a, perp): cos*a^ + sin*perp (long double)."""
    a = v3(a)
    an = a / norm(a)[..., None]
    ang = np.asarray(ang, dtype=LD)[..., None]
    return np.cos(ang) * an + np.sin(ang) * perp


def random_rotation(rng) -> np.ndarray:
    """Haar-random SO(3) matrix in long double (from a unit quaternion)."""
    q = v3(rng.normal(size=4))
    q = q / np.sqrt(np.sum(q * q))
    w, x, y, z = q
    return np.array(
        [
            [1 - 2 * (y * y + z * z), 2 * (x * y - z * w), 2 * (x * z + y * w)],
            [2 * (x * y + z * w), 1 - 2 * (x * x + z * z), 2 * (y * z - x * w)],
            [2 * (x * z - y * w), 2 * (y * z + x * w), 1 - 2 * (x * x + y * y)],
        ],
        dtype=LD,
    )


def ulp_diff64(a, b):
    """Distance in units in the last place between float64 arrays."""
    a = np.asarray(a, dtype=np.float64)
    b = np.asarray(b, dtype=np.float64)
    ia = a.view(np.int64).astype(np.int64)
    ib = b.view(np.int64).astype(np.int64)
    ia = np.where(ia < 0, np.int64(-(2**63)) - ia, ia)
    ib = np.where(ib < 0, np.int64(-(2**63)) - ib, ib)
    return np.abs(ia - ib)
