"""Universal argument-mutation monitor (C09, oracle A).

Every function and method defined in the computational modules of scippneutron is
observed through its code object.  At the outermost observed frame the original
argument objects are fingerprinted at entry and again at return/unwind; a
difference is a mutation of caller-owned state.  Nested frames are not judged (a
private helper may legitimately work in place on a temporary made by its public
caller); their writes into user data surface in the fingerprint of the outermost
call, whose arguments share buffers with whatever the helpers receive.
"""

from __future__ import annotations

import importlib

from rv import trace
from rv.snap import describe, fp

MODULES = [
    'scippneutron.conversion.tof', 'scippneutron.conversion.beamline',
    'scippneutron.conversion.graph.tof', 'scippneutron.conversion.graph.beamline',
    'scippneutron.core.conversions', 'scippneutron.beamline_components',
    'scippneutron.chopper.disk_chopper', 'scippneutron.chopper.filtering', 'scippneutron.chopper.nexus_chopper',
    'scippneutron.tof.chopper_cascade',
    'scippneutron.peaks.model', 'scippneutron.peaks._fit_peaks', 'scippneutron.peaks._remove_peaks',
    'scippneutron.peaks._common',
    'scippneutron.absorption.base', 'scippneutron.absorption.cylinder', 'scippneutron.absorption.material',
    'scippneutron.absorption.quadratures', 'scippneutron.absorption.types',
    'scippneutron.io.cif', 'scippneutron.io.xye',
    'scippneutron.io.sqw._build', 'scippneutron.io.sqw._sqw', 'scippneutron.io.sqw._models',
    'scippneutron.io.sqw._ir', 'scippneutron.io.sqw._low_level_io', 'scippneutron.io.sqw._read_write',
    'scippneutron.io.sqw._bytes',
    'scippneutron.atoms', 'scippneutron.metadata._model', 'scippneutron.metadata._orcid',
    'scippneutron._utils',
]

# Methods whose documented purpose is to change ``self`` (or an explicitly passed sink): only that
# argument is exempt, every other argument of the same call is still judged.
SELF_MUTATORS_BY_NAME = {'__init__', '__post_init__', '__setitem__', '__delitem__', '__enter__', '__exit__',
                         '__iadd__', '__set_name__', 'fset', '__setattr__'}
SELF_MUTATORS_QUAL = (
    'SqwBuilder.add_', 'SqwBuilder.register_',
    'Block.add', 'Block.comment.fset', 'Loop.comment.fset', 'Chunk.comment.fset', 'Block.name.fset',
    'LowLevelSqw.', 'Sqw.', 'Serializer.', 'ByteReader', '_PixWrap.', '_DndPlaceholder.',
    'AcceptanceDiagram', 'Subframe.__init__', 'Frame.__init__',
)
# (function suffix, argument) pairs that are output sinks by contract
SINKS = {('write', 'f'), ('write', 'sqw_io'), ('save', 'fname'), ('save_cif', 'fname'), ('save_xye', 'fname'),
         ('_write_comment', 'f'), ('_write_multi', 'f'), ('_write_file_heading', 'f')}


def enumerate_functions():
    out = []
    seen = set()
    missing = []
    for name in MODULES:
        try:
            mod = importlib.import_module(name)
        except Exception as e:  # noqa: BLE001
            missing.append(f'{name}: {e}')
            continue
        for qn, f in trace.functions_of(mod):
            code = trace.code_of(f)
            if code in seen:
                continue
            seen.add(code)
            out.append((qn, f))
    return out, missing


def _self_exempt(qualname: str) -> bool:
    last = qualname.rsplit('.', 1)[-1]
    if last in SELF_MUTATORS_BY_NAME:
        return True
    short = qualname.split('scippneutron.')[-1]
    return any(tag in short for tag in SELF_MUTATORS_QUAL)


class MutationMonitor:
    """Call ``install()``; afterwards every rv Tracer that starts also runs this monitor."""

    def __init__(self, report):
        """report(kind, what, case, **keys) is called for each mutation observed."""
        self.report = report
        self.functions, self.missing = enumerate_functions()
        self.events = 0
        self.judged = 0
        self.reached = set()
        self.origin = 'direct'

    def install(self):
        uni = []
        for qn, f in self.functions:
            uni.append((f, qn, self._mk_start(qn), self._mk_return(qn)))
        trace.Tracer.universal = uni
        return self

    def uninstall(self):
        trace.Tracer.universal = None

    def _mk_start(self, qn):
        def on_start(ev):
            self.events += 1
            self.reached.add(qn)
            if ev.depth != 0:
                return None
            pre = {}
            for k, v in ev.args.items():
                if hasattr(v, '__next__'):
                    # a one-shot iterator (generator, filter, map, iter(...), user iterator): being consumed is what
                    # it is handed over for; its position is not caller-owned data
                    pre[k] = None
                    continue
                try:
                    pre[k] = fp(v)
                except Exception:  # noqa: BLE001
                    pre[k] = None
            return pre
        return on_start

    def _mk_return(self, qn):
        exempt_self = _self_exempt(qn)
        last = qn.rsplit('.', 1)[-1]

        def on_return(ev):
            pre = ev.upre
            if pre is None:
                return
            self.judged += 1
            for k, before in pre.items():
                if before is None:
                    continue
                if exempt_self and k in ('self', 'cls'):
                    continue
                if (last, k) in SINKS:
                    continue
                try:
                    after = fp(ev.args[k])
                except Exception:  # noqa: BLE001
                    continue
                if after != before:
                    self.report(
                        'argument_mutated',
                        f'{qn} modified its argument {k!r}' + (' (while raising)' if ev.exc is not None else ''),
                        {'function': qn, 'argument': k, 'origin': self.origin,
                         'after': describe(ev.args[k]), 'raised': repr(ev.exc) if ev.exc else None},
                        function=qn.split('scippneutron.')[-1], argument=k,
                    )
        return on_return
