"""./check <ID> <quick|thorough> [--replay file]

Shards a property's workload over worker processes, merges what the monitors
observed, classifies violations against known_findings.json, writes the
evidence file and prints the verdict.

exit 0  held on everything observed (known findings are printed)
exit 1  VIOLATION property=<ID> replay=<path>
exit 2  INCONCLUSIVE property=<ID> reason=...   (never folded into held)
"""

from __future__ import annotations

import argparse
import importlib
import json
import os
import shutil
import subprocess
import sys
import tempfile
import time
from collections import Counter
from concurrent.futures import ThreadPoolExecutor

HERE = os.path.dirname(os.path.dirname(os.path.abspath(__file__)))
MAX_PROCS = int(os.environ.get('RV_PROCS', '16'))


def ensure_deps():
    """mpmath (pure Python) from the offline wheelhouse into /verif/.deps."""
    deps = os.path.join(HERE, '.deps')
    if os.path.isdir(os.path.join(deps, 'mpmath')):
        return deps
    import fcntl

    os.makedirs(deps, exist_ok=True)
    with open(os.path.join(deps, '.lock'), 'w') as lk:
        fcntl.flock(lk, fcntl.LOCK_EX)
        if not os.path.isdir(os.path.join(deps, 'mpmath')):
            subprocess.run(
                [
                    '/venv/bin/pip', 'install', '--quiet', '--no-index', '--no-deps',
                    '--find-links', '/opt/veriftools/wheels',
                    '--target', deps, 'mpmath',
                ],
                check=False, stdout=subprocess.DEVNULL, stderr=subprocess.DEVNULL,
            )
    return deps


def load_prop(pid: str):
    return importlib.import_module(f'rv.props.{pid.lower()}')


def check_tree():
    """The monitors must observe /repo's working tree, nothing else."""
    import scippneutron

    want = os.path.realpath(os.environ.get('RV_REPO_SRC', '/repo/src'))
    got = os.path.realpath(os.path.dirname(os.path.dirname(scippneutron.__file__)))
    return got == want, got


def anchored_files(pid):
    out = []
    try:
        with open(os.path.join(HERE, 'properties.jsonl')) as f:
            for line in f:
                if line.strip():
                    p = json.loads(line)
                    if p.get('id') == pid:
                        out = [x for x in p.get('anchors', {}).get('files', []) if x.endswith('.py')]
    except OSError:
        pass
    return out


def run_worker(pid, shard, tmpdir, idx, timeout):
    sp = os.path.join(tmpdir, f'shard{idx}.json')
    op = os.path.join(tmpdir, f'out{idx}.json')
    with open(sp, 'w') as f:
        json.dump(shard, f)
    cmd = [sys.executable, *shard.get('pyflags', []), '-X', 'faulthandler', '-m', 'rv.worker', pid, sp, op]
    t0 = time.time()
    try:
        p = subprocess.run(cmd, cwd=HERE, capture_output=True, text=True, timeout=timeout)
    except subprocess.TimeoutExpired:
        return {'inconclusive': [f'shard {idx} hit the {timeout}s watchdog'], 'shard': shard}
    if p.returncode != 0 or not os.path.exists(op):
        tail = (p.stderr or '')[-1500:]
        return {
            'inconclusive': [f'shard {idx} worker exit {p.returncode}: {tail}'],
            'shard': shard,
        }
    with open(op) as f:
        r = json.load(f)
    r['wall_s'] = time.time() - t0
    return r


def merge(reports):
    m = {
        'evaluations': 0, 'trivial': 0, 'classes': set(), 'samples': [],
        'violations': [], 'n_violations': 0, 'viol_kinds': Counter(), 'viol_groups': Counter(),
        'overflow_groups': 0,
        'events': Counter(), 'forced': Counter(), 'counters': Counter(),
        'maxdev': {}, 'inconclusive': [], 'extra': {},
    }
    for r in reports:
        m['evaluations'] += r.get('evaluations', 0)
        m['trivial'] += r.get('trivial', 0)
        m['classes'].update(r.get('classes', ()))
        for s in r.get('samples', ()):
            if len(m['samples']) < 10:
                m['samples'].append(s)
        for v in r.get('violations', ()):
            v = dict(v)
            v['shard'] = r.get('shard')
            m['violations'].append(v)
        m['n_violations'] += r.get('n_violations', 0)
        m['viol_kinds'].update(r.get('viol_kinds', {}))
        m['viol_groups'].update(r.get('viol_groups', {}))
        m['overflow_groups'] += r.get('overflow_groups', 0)
        m['events'].update(r.get('events', {}))
        m['forced'].update(r.get('forced', {}))
        m['counters'].update(r.get('counters', {}))
        for k, v in r.get('maxdev', {}).items():
            if v > m['maxdev'].get(k, -1):
                m['maxdev'][k] = v
        for s in r.get('inconclusive', ()):
            if s not in m['inconclusive']:
                m['inconclusive'].append(s)
        for k, v in (r.get('extra') or {}).items():
            m['extra'].setdefault(k, v)
    return m


def classify(pid, violations):
    from rv import findings

    listed = findings.load_known()
    known_hits = {}
    unlisted = []
    for v in violations:
        key = findings.match(pid, v, listed)
        if key is None:
            unlisted.append(v)
        else:
            known_hits.setdefault(key, []).append(v)
    return known_hits, unlisted, listed


def write_replay(pid, tier, seed, v, n, scratch=False):
    d = os.path.join(HERE, 'replay', '_scratch' if scratch else '', pid)
    os.makedirs(d, exist_ok=True)
    path = os.path.join(d, f'{tier}-seed{seed}-{n:03d}-{v["kind"]}.json'.replace('/', '_'))
    with open(path, 'w') as f:
        json.dump({'property': pid, 'tier': tier, 'seed': seed, 'violation': v}, f, indent=1)
    return path


def main(argv=None):
    ap = argparse.ArgumentParser()
    ap.add_argument('prop')
    ap.add_argument('tier', nargs='?', default=os.environ.get('VERIF_TIER', 'quick'),
                    choices=['quick', 'thorough'])
    ap.add_argument('--replay')
    ap.add_argument('--no-evidence', action='store_true')
    a = ap.parse_args(argv)
    pid = a.prop.upper()
    seed = int(os.environ.get('VERIF_SEED', '0') or 0)
    t0 = time.time()

    deps = ensure_deps()
    if deps not in sys.path:
        sys.path.append(deps)
    os.environ['RV_DEPS'] = deps

    ok, got = check_tree()
    if not ok:
        print(f'INCONCLUSIVE property={pid} reason=scippneutron imported from {got}, not the working tree')
        return 2

    mod = load_prop(pid)

    if a.replay:
        return replay(pid, mod, a.replay, a.tier, seed)

    shards = mod.plan(a.tier, seed)
    n_planned = len(shards)
    # process-environment variants: the first shard of the plan (or the ones the module names) runs again in an
    # interpreter started with -OO (asserts and docstrings stripped) and once more with DEBUG logging switched on
    # for every logger; same cases, same monitors -- a property must not depend on interpreter flags or log level
    if os.environ.get('RV_ENV_VARIANTS', '1') != '0':
        for j in getattr(mod, 'ENV_VARIANT_SHARDS', [0]):
            if j < n_planned:
                shards = [*shards, dict(shards[j], variant_of=j, env_variant='python -OO', pyflags=['-OO']),
                          dict(shards[j], variant_of=j, env_variant='process state: DEBUG logging, decimal precision 6')]
                if os.environ.get('RV_ENV_STRICT', '1') == '1' and getattr(mod, 'STRICT_CALLER', True):
                    shards.append(dict(shards[j], variant_of=j, env_variant='strict caller',
                                       strict_numpy=getattr(mod, 'STRICT_NUMPY', {})))
    timeout = getattr(mod, 'TIMEOUT_S', {}).get(a.tier, 1800 if a.tier == 'quick' else 4 * 3600)
    tmpdir = tempfile.mkdtemp(prefix=f'rv-{pid}-')
    try:
        with ThreadPoolExecutor(max_workers=MAX_PROCS) as ex:
            futs = [
                ex.submit(run_worker, pid, dict(sh, tier=a.tier, seed=seed, index=sh.get('variant_of', i)),
                          tmpdir, i, timeout)
                for i, sh in enumerate(shards)
            ]
            reports = [f.result() for f in futs]
    finally:
        shutil.rmtree(tmpdir, ignore_errors=True)

    m = merge(reports)
    req = mod.requirements(a.tier) if hasattr(mod, 'requirements') else {}
    for name, n in req.get('events', {}).items():
        if m['events'].get(name, 0) < n:
            m['inconclusive'].append(
                f'monitor {name} observed {m["events"].get(name, 0)} events (< {n})')
    for name in req.get('forced', ()):
        if m['forced'].get(name, 0) < 1:
            m['inconclusive'].append(f'forced class {name!r} never produced')
    for name, n in req.get('counters', {}).items():
        if m['counters'].get(name, 0) < n:
            m['inconclusive'].append(
                f'counter {name} = {m["counters"].get(name, 0)} (< {n})')

    known_hits, unlisted, listed = classify(pid, m['violations'])
    # witnesses beyond the first three of a (kind, mechanism keys) group are only counted; they
    # share kind and keys with the kept representatives and are classified with them. A group
    # that lost all its representatives (overflow) counts as unlisted.
    unl_groups = {v.get('group') for v in unlisted}
    kept_by_group = Counter(v.get('group') for v in m['violations'])
    dropped_unknown = sum(
        n - kept_by_group.get(g, 0) for g, n in m['viol_groups'].items() if g in unl_groups
    ) + m['overflow_groups']

    replay_paths = []
    seen_kinds = Counter()
    for v in unlisted:
        seen_kinds[v['kind']] += 1
        if seen_kinds[v['kind']] <= 3 and len(replay_paths) < 12:
            replay_paths.append((v, write_replay(pid, a.tier, seed, v, len(replay_paths), scratch=a.no_evidence)))

    wall = time.time() - t0
    distinct = len(m['classes'])
    coverage = {
        'evaluations': m['evaluations'],
        'distinct_nontrivial': distinct,
        'rule': getattr(mod, 'RULE', ''),
        'samples': m['samples'],
        'exhaustive': bool(m['extra'].get('exhaustive', False)),
        'events_per_hooked_function': dict(m['events']),
        'forced_classes_hit': dict(m['forced']),
        'counters': dict(m['counters']),
        'max_observed_deviation': m['maxdev'],
        'trivial_cases': m['trivial'],
        'shards': n_planned,
        'environment_variant_shards': [
            {'variant': sh['env_variant'], 'of_shard': sh['variant_of'],
             'evaluations': r.get('evaluations', 0), 'violations': r.get('n_violations', 0)}
            for sh, r in zip(shards, reports, strict=True) if sh.get('env_variant')],
        'violation_kinds': dict(m['viol_kinds']),
        'known_findings_matched': {k: len(v) for k, v in known_hits.items()},
        'inconclusive_reasons': m['inconclusive'],
        'class_signature_examples': sorted(m['classes'])[:12],
    }
    for k, v in m['extra'].items():
        if k not in coverage:
            coverage[k] = v
    try:
        from rv import reach as _reach

        merged_reach = _reach.merge_reports(r.get('reach') for r in reports)
        if merged_reach:
            coverage['code_reach'] = {
                'what': 'functions, lines and branch arms of the anchored source files that the workload of this '
                        'run executed (reach monitor, sys.monitoring LINE/BRANCH); informational, decides nothing',
                'files': _reach.summarise(os.environ.get('RV_REPO_SRC', '/repo/src'), merged_reach,
                                          anchored_files(pid)),
            }
            if os.environ.get('RV_REACH_DUMP'):
                with open(os.environ['RV_REACH_DUMP'], 'w') as f:
                    json.dump({fn: {k: {'lines': sorted(v['lines']), 'arms': sorted(map(list, v['arms']))}
                                    for k, v in d.items()} for fn, d in merged_reach.items()}, f)
    except Exception as e:  # noqa: BLE001
        coverage['code_reach'] = {'error': repr(e)}
    verdict = 'held'
    if unlisted or dropped_unknown:
        verdict = 'violated'
    elif m['inconclusive']:
        verdict = 'inconclusive'
    coverage['verdict'] = verdict
    evidence = {
        'property_id': pid,
        'tier': a.tier,
        'seed': seed,
        'level': getattr(mod, 'LEVEL', 'exploration'),
        'coverage': coverage,
        'assumptions': list(getattr(mod, 'ASSUMPTIONS', [])) + [
            'scipp/numpy/scipy arithmetic, unit conversion and containers are the trusted base',
            'monitors observe the working tree at ' + os.environ.get('RV_REPO_SRC', '/repo/src'),
        ],
        'wall_s': round(wall, 3),
        'violations': len(unlisted) + dropped_unknown,
    }
    if not a.no_evidence:
        os.makedirs(os.path.join(HERE, 'evidence'), exist_ok=True)
        with open(os.path.join(HERE, 'evidence', f'{pid}.json'), 'w') as f:
            json.dump(evidence, f, indent=1, sort_keys=True)

    print(f'[{pid} {a.tier} seed={seed}] evaluations={m["evaluations"]} distinct_classes={distinct} '
          f'events={sum(m["events"].values())} wall={wall:.1f}s')
    for k, n in sorted(m['events'].items()):
        print(f'  observed {k}: {n}')
    for k, v in sorted(m['maxdev'].items()):
        print(f'  max deviation {k}: {v:.3g}')
    for key, vs in known_hits.items():
        what = next((e['what'] for e in listed if e['key'] == key), key)
        print(f'KNOWN-FINDING: property={pid} {key}: {what} ({len(vs)} witnesses this run)')
    if verdict == 'violated':
        for v, path in replay_paths:
            print(f'  {v["kind"]}: {v["what"]}')
            print(f'VIOLATION property={pid} replay={os.path.relpath(path, HERE)}')
        if not replay_paths:
            print(f'VIOLATION property={pid} replay=none')
        return 1
    if verdict == 'inconclusive':
        for r in m['inconclusive']:
            print(f'INCONCLUSIVE property={pid} reason={r}'.replace('\n', ' | '))
        return 2
    print(f'HELD property={pid} on {m["evaluations"]} decided executions')
    return 0


def replay(pid, mod, path, tier, seed):
    from rv.ctx import Ctx

    with open(path) as f:
        rec = json.load(f)
    v = rec['violation']
    shard = v.get('shard') or {}
    ctx = Ctx(pid, shard.get('tier', tier), shard.get('seed', seed), shard)
    if shard.get('env_variant'):
        # the witness needs the process environment of its shard (interpreter flags, log level): re-run it in
        # a worker process started the same way
        tmpdir = tempfile.mkdtemp(prefix=f'rv-replay-{pid}-')
        try:
            r = run_worker(pid, shard, tmpdir, 0, 4 * 3600)
        finally:
            shutil.rmtree(tmpdir, ignore_errors=True)
        ctx.violations = [x for x in r.get('violations', []) if x['kind'] == v['kind']]
        ctx.inconclusive = list(r.get('inconclusive', []))
    elif hasattr(mod, 'replay'):
        mod.replay(v, ctx)
    else:
        # cases are a deterministic function of (seed, shard): re-run the shard
        mod.run(shard, ctx)
        ctx.violations = [x for x in ctx.violations if x['kind'] == v['kind']]
    known_hits, unlisted, listed = classify(pid, ctx.violations)
    for vv in ctx.violations:
        print(f'  reproduced {vv["kind"]}: {vv["what"]}')
    for key in known_hits:
        print(f'KNOWN-FINDING: property={pid} {key}')
    if unlisted:
        print(f'VIOLATION property={pid} replay={path}')
        return 1
    if ctx.inconclusive:
        print(f'INCONCLUSIVE property={pid} reason={ctx.inconclusive[0]}')
        return 2
    print(f'HELD property={pid} on replayed case')
    return 0


if __name__ == '__main__':
    sys.exit(main())
