"""python -m rv.worker <ID> <shard.json> <out.json> : one shard in its own process."""

from __future__ import annotations

import faulthandler
import importlib
import json
import os
import sys
import traceback


def main():
    faulthandler.enable()
    pid, shard_path, out_path = sys.argv[1:4]
    deps = os.environ.get('RV_DEPS')
    if deps and deps not in sys.path:
        sys.path.append(deps)
    with open(shard_path) as f:
        shard = json.load(f)
    from rv.ctx import Ctx

    ctx = Ctx(pid, shard.get('tier', 'quick'), int(shard.get('seed', 0)), shard)
    reach = None
    if os.environ.get('RV_REACH', '1') != '0':
        # reach monitor: functions / lines / branch arms of the working tree the workload executed
        try:
            from rv.reach import Reach

            reach = Reach(os.environ.get('RV_REPO_SRC', '/repo/src')).start()
        except Exception:  # noqa: BLE001
            reach = None
    try:
        mod = importlib.import_module(f'rv.props.{pid.lower()}')
        mod.run(shard, ctx)
    except Exception:  # noqa: BLE001
        # an unexpected exception in harness/oracle code is never a violation
        ctx.inconclusive_because('harness error: ' + traceback.format_exc(limit=8)[-2500:])
    if reach is not None:
        try:
            reach.stop()
            ctx.reach = reach.report()
        except Exception:  # noqa: BLE001
            pass
    ctx.dump(out_path)


if __name__ == '__main__':
    main()
