"""python -m rv.worker <ID> <shard.json> <out.json> : one shard in its own process."""

from __future__ import annotations

import faulthandler
import importlib
import json
import os
import sys
import traceback


def _single_threaded_scipp():
    """scipp's TBB pool sizes itself from the CPU affinity mask it finds when it is first used: with one worker
    process per core, 16 threads per worker only oversubscribe the machine (measured: no gain even for 1e6-element
    arrays).  Narrow the mask while the pool is created, then give the process all cores back."""
    try:
        cpus = os.sched_getaffinity(0)
        if len(cpus) > 1 and os.environ.get('RV_SCIPP_THREADS', '1') == '1':
            os.sched_setaffinity(0, {min(cpus)})
            try:
                import numpy as np
                import scipp as sc

                a = sc.array(dims=['x'], values=np.arange(4096.0))
                (a * a).sum()
            finally:
                os.sched_setaffinity(0, cpus)
    except Exception:  # noqa: BLE001  (platforms without sched_setaffinity)
        pass


def main():
    faulthandler.enable()
    _single_threaded_scipp()
    pid, shard_path, out_path = sys.argv[1:4]
    deps = os.environ.get('RV_DEPS')
    if deps and deps not in sys.path:
        sys.path.append(deps)
    with open(shard_path) as f:
        shard = json.load(f)
    from rv.ctx import Ctx

    ctx = Ctx(pid, shard.get('tier', 'quick'), int(shard.get('seed', 0)), shard)
    if str(shard.get('env_variant', '')).startswith('process state'):
        import logging

        logging.basicConfig(level=logging.DEBUG, handlers=[logging.NullHandler()], force=True)
        logging.getLogger().setLevel(logging.DEBUG)
        for name in ('scipp', 'scipp.neutron', 'scippneutron'):
            logging.getLogger(name).setLevel(logging.DEBUG)
    if str(shard.get('env_variant', '')).startswith('process state'):
        # ... and the caller's other process-wide state while package code runs: decimal context of 6 digits, numpy
        # legacy print mode (harness code runs outside the scope)
        from rv.trace import Tracer

        Tracer.strict = {'decimal_prec': 6}
    if shard.get('env_variant') == 'strict caller':
        from rv.trace import Tracer

        Tracer.strict = {'divide': 'raise', 'over': 'raise', 'invalid': 'raise', 'under': 'raise',
                         **shard.get('strict_numpy', {})}
    if shard.get('env_variant') == 'python -OO' and __debug__:
        ctx.inconclusive_because('the -OO variant shard did not run with asserts stripped')
    reach = None
    if os.environ.get('RV_REACH', '1') != '0':
        # reach monitor: functions / lines / branch arms of the working tree the workload executed
        try:
            from rv.reach import Reach

            reach = Reach(os.environ.get('RV_REPO_SRC', '/repo/src')).start()
        except Exception:  # noqa: BLE001
            reach = None
    try:
        mod = importlib.import_module(f'rv.props.{pid.lower()}')
        mod.run(shard, ctx)
    except Exception:  # noqa: BLE001
        # an unexpected exception in harness/oracle code is never a violation
        ctx.inconclusive_because('harness error: ' + traceback.format_exc(limit=8)[-2500:])
    try:
        from rv.trace import Tracer as _Tracer

        for msg in _Tracer.handler_errors[:3]:
            ctx.inconclusive_because('monitor handler raised (kept out of the monitored call): ' + msg)
    except Exception:  # noqa: BLE001
        pass
    if reach is not None:
        try:
            reach.stop()
            ctx.reach = reach.report()
        except Exception:  # noqa: BLE001
            pass
    ctx.dump(out_path)


if __name__ == '__main__':
    main()
