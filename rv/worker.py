"""python -m rv.worker <ID> <shard.json> <out.json> : one shard in its own process."""

from __future__ import annotations

import faulthandler
import importlib
import json
import os
import sys
import traceback


def main():
    faulthandler.enable()
    pid, shard_path, out_path = sys.argv[1:4]
    deps = os.environ.get('RV_DEPS')
    if deps and deps not in sys.path:
        sys.path.append(deps)
    with open(shard_path) as f:
        shard = json.load(f)
    from rv.ctx import Ctx

    ctx = Ctx(pid, shard.get('tier', 'quick'), int(shard.get('seed', 0)), shard)
    try:
        mod = importlib.import_module(f'rv.props.{pid.lower()}')
        mod.run(shard, ctx)
    except Exception:  # noqa: BLE001
        # an unexpected exception in harness/oracle code is never a violation
        ctx.inconclusive_because('harness error: ' + traceback.format_exc(limit=8)[-2500:])
    ctx.dump(out_path)


if __name__ == '__main__':
    main()
