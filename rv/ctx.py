"""Per-shard accumulator of what the monitors observed.

A shard report is plain JSON so that the runner can merge reports of many
worker processes.  Nothing here decides anything: monitors call
``violation`` / ``case`` / ``dev`` ... and the runner turns the merged counts
into one of the three verdicts.
"""

from __future__ import annotations

import json
import math
import traceback
from collections import Counter

MAX_VIOLATIONS_KEPT = 120
MAX_SAMPLES = 8


def jsonable(x, depth=0):
    """Best-effort conversion of a case description into JSON."""
    import numpy as np

    if depth > 8:
        return repr(x)
    if x is None or isinstance(x, bool | int | str):
        return x
    if isinstance(x, float):
        if math.isfinite(x):
            return x
        return repr(x)
    if isinstance(x, np.generic):
        return jsonable(x.item(), depth + 1)
    if isinstance(x, np.ndarray):
        if x.size > 64:
            return {
                'ndarray': str(x.dtype),
                'shape': list(x.shape),
                'head': jsonable(x.ravel()[:16].tolist(), depth + 1),
            }
        return jsonable(x.tolist(), depth + 1)
    if isinstance(x, bytes):
        return {'bytes_hex': x[:256].hex(), 'len': len(x)}
    if isinstance(x, dict):
        return {str(k): jsonable(v, depth + 1) for k, v in x.items()}
    if isinstance(x, list | tuple | set | frozenset):
        return [jsonable(v, depth + 1) for v in x]
    return repr(x)


class Ctx:
    def __init__(self, prop: str, tier: str, seed: int, shard: dict):
        self.prop = prop
        self.tier = tier
        self.seed = seed
        self.shard = shard
        self.evaluations = 0
        self.classes: set[str] = set()
        self.trivial = 0
        self.samples: list = []
        self.violations: list[dict] = []
        self.n_violations = 0
        self.viol_kinds: Counter = Counter()
        self.viol_groups: Counter = Counter()
        self.overflow_groups = 0
        self.events: Counter = Counter()
        self.forced: Counter = Counter()
        self.counters: Counter = Counter()
        self.maxdev: dict[str, float] = {}
        self.inconclusive: list[str] = []
        self.extra: dict = {}
        self.reach: dict = {}

    # ---- observation ----------------------------------------------------
    def case(self, signature, n: int = 1, trivial: bool = False):
        """One decided execution with its class signature."""
        self.evaluations += n
        if trivial:
            self.trivial += n
        else:
            self.classes.add(
                signature if isinstance(signature, str) else repr(signature)
            )

    def sample(self, case):
        if len(self.samples) < MAX_SAMPLES:
            self.samples.append(jsonable(case))

    def event(self, name: str, n: int = 1):
        self.events[name] += n

    def hit(self, forced_class: str, n: int = 1):
        self.forced[forced_class] += n

    def count(self, name: str, n: int = 1):
        self.counters[name] += n

    def dev(self, name: str, value: float):
        try:
            value = float(value)
        except (TypeError, ValueError):
            return
        if math.isnan(value):
            return
        if value > self.maxdev.get(name, -1.0):
            self.maxdev[name] = value

    def violation(self, kind: str, what: str, case, /, **keys):
        """A decided case disagrees with its oracle.

        ``kind`` is the monitor's name for the disagreement; ``keys`` carry the
        mechanism facts that known-finding predicates look at.  The three leading
        parameters are positional-only: a mechanism key that happens to be called
        ``kind`` / ``what`` / ``case`` must end up among the keys, not raise a TypeError
        at the very moment a violation is reported (that turned a seeded change into
        an "oracle error" once).
        """
        keys = {(k + '_' if k in ('kind', 'what', 'case', 'group') else k): v for k, v in keys.items()}
        self.n_violations += 1
        self.viol_kinds[kind] += 1
        jkeys = jsonable(keys)
        # one group per (kind, mechanism keys): every group keeps representatives, so that
        # the known-findings classification never has to guess about a dropped witness
        group = kind + '|' + json.dumps(jkeys, sort_keys=True)
        self.viol_groups[group] += 1
        if self.viol_groups[group] <= 3 and len(self.violations) < MAX_VIOLATIONS_KEPT:
            self.violations.append(
                {'kind': kind, 'what': what, 'keys': jkeys, 'case': jsonable(case), 'group': group}
            )
        elif group not in {v['group'] for v in self.violations}:
            self.overflow_groups += 1

    def inconclusive_because(self, reason: str):
        if reason not in self.inconclusive:
            self.inconclusive.append(reason)

    def oracle_error(self, where: str):
        """Unexpected exception inside an oracle: never a violation."""
        self.inconclusive_because(
            f'oracle error in {where}: ' + traceback.format_exc(limit=6)[-1500:]
        )

    # ---- serialisation --------------------------------------------------
    def report(self) -> dict:
        return {
            'prop': self.prop,
            'shard': self.shard,
            'evaluations': self.evaluations,
            'trivial': self.trivial,
            'classes': sorted(self.classes),
            'samples': self.samples,
            'violations': self.violations,
            'n_violations': self.n_violations,
            'viol_kinds': dict(self.viol_kinds),
            'viol_groups': dict(self.viol_groups),
            'overflow_groups': self.overflow_groups,
            'events': dict(self.events),
            'forced': dict(self.forced),
            'counters': dict(self.counters),
            'maxdev': self.maxdev,
            'inconclusive': self.inconclusive,
            'extra': jsonable(self.extra),
            'reach': self.reach,
        }

    def dump(self, path: str):
        with open(path, 'w') as f:
            json.dump(self.report(), f)
