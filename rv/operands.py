"""Aligning kernel operands with a kernel result, elementwise.

scipp is used as a container library only (broadcast / transpose to the dims of
the observed result); no arithmetic of scipp enters an expected value.
"""

from __future__ import annotations

import numpy as np
import scipp as sc


def is_binned(v) -> bool:
    return isinstance(v, sc.Variable) and v.bins is not None


def bin_sizes(v: sc.Variable) -> np.ndarray:
    c = v.bins.constituents
    return (np.asarray(c['end'].values) - np.asarray(c['begin'].values)).ravel()


def contiguous(v: sc.Variable) -> bool:
    """Event buffer is exactly the concatenation of the bins in C order."""
    c = v.bins.constituents
    b = np.asarray(c['begin'].values).ravel()
    e = np.asarray(c['end'].values).ravel()
    if b.size == 0:
        return c['data'].sizes[c['dim']] == 0
    if b[0] != 0 or e[-1] != c['data'].sizes[c['dim']]:
        return False
    return bool(np.all(b[1:] == e[:-1]))


def event_index(v: sc.Variable) -> np.ndarray:
    """Indices into the event buffer of the events that belong to the bins, bin by bin in C order
    (a binned variable may be a slice of a larger one: its buffer then holds foreign events)."""
    c = v.bins.constituents
    b = np.asarray(c['begin'].values).ravel()
    e = np.asarray(c['end'].values).ravel()
    if b.size == 0:
        return np.zeros(0, dtype=np.int64)
    if contiguous(v):
        return np.arange(int(b[0]), int(e[-1]), dtype=np.int64)
    return np.concatenate([np.arange(x, y, dtype=np.int64) for x, y in zip(b, e, strict=True)]
                          + [np.zeros(0, dtype=np.int64)])


def event_values(v: sc.Variable) -> np.ndarray:
    """Values of the events that belong to the bins, bin by bin."""
    return np.asarray(v.bins.constituents['data'].values)[event_index(v)]


def align(op: sc.Variable, res: sc.Variable) -> np.ndarray:
    """Values of operand ``op`` laid out like the elements of result ``res``.

    Dense result: ``op`` broadcast/transposed to ``res.dims`` -> ndarray of
    ``res.shape``.  Binned result: one value per event of ``res`` (dense
    operands are repeated over the events of their bin; binned operands must
    have the same bin layout).
    """
    if not is_binned(res):
        if is_binned(op):
            raise ValueError('binned operand but dense result')
        b = sc.broadcast(op, dims=res.dims, shape=res.shape) if op.dims != res.dims else op
        return np.asarray(b.values)
    sizes = bin_sizes(res)
    if is_binned(op):
        if op.dims != res.dims:
            op = op.transpose(res.dims) if set(op.dims) == set(res.dims) else sc.broadcast(
                op, dims=res.dims, shape=res.shape)
        if not np.array_equal(bin_sizes(op), sizes):
            raise ValueError('bin layouts differ')
        return event_values(op)
    b = sc.broadcast(op, dims=res.dims, shape=res.shape) if op.dims != res.dims else op
    outer = np.asarray(b.values).reshape((-1,) + np.asarray(b.values).shape[len(res.shape):])
    return np.repeat(outer, sizes, axis=0)


def result_values(res: sc.Variable) -> np.ndarray:
    if is_binned(res):
        return event_values(res)
    return np.asarray(res.values)


def elem_unit(v):
    return v.bins.constituents['data'].unit if is_binned(v) else v.unit


def elem_dtype(v):
    return v.bins.constituents['data'].dtype if is_binned(v) else v.dtype


def union_dims(*ops) -> set:
    s = set()
    for o in ops:
        s.update(o.dims)
    return s


def make_binned(values: np.ndarray, sizes, dims, shape, unit, dtype=None, dim='event'):
    """Binned variable with contiguous bins of the given sizes (C order over shape)."""
    sizes = np.asarray(sizes, dtype=np.int64)
    end = np.cumsum(sizes)
    begin = end - sizes
    data = sc.array(dims=[dim], values=values, unit=unit, dtype=dtype)
    b = sc.array(dims=list(dims), values=begin.reshape(shape), unit=None, dtype='int64')
    e = sc.array(dims=list(dims), values=end.reshape(shape), unit=None, dtype='int64')
    return sc.bins(begin=b, end=e, dim=dim, data=data)
