"""C19 Plateau finding and in-phase filtering return exactly the defined selections.

Monitors sit on the returns of ``find_plateaus``, ``collapse_plateaus`` and
``filter_in_phase`` (code objects, so in-situ calls through the pipeline
find -> collapse -> filter are observed as well); the helpers ``_derive``,
``_check_total_tolerance``, ``_next_highest`` and ``_is_approximate_multiple`` are
watched for diagnosis only.  Expected selections come from the segmentation /
interval / in-phase models in ``rv.oracle.plateau`` which are written from the
documented definitions and never call scippneutron.
"""

from __future__ import annotations

from fractions import Fraction

import numpy as np
import scipp as sc

from rv.oracle import plateau as M
from rv.oracle import si
from rv.trace import Tracer

ID = 'C19'
LEVEL = 'exploration'
RULE = (
    'cases = one find_plateaus call on a generated 1-d series (2..500 points; coordinate '
    'float64/float32/int64/datetime64 with irregular ascending steps on a dyadic grid; data '
    'float64/float32/int64 = levels + grid noise + ramps/zigzags; atol equal to an occurring '
    'slope exactly, +-1 ulp, between, 0, huge, in the derivative unit or a scaled unit; '
    'min_n_points 1..n as int / numpy int / unit-less Variable; int64 coordinates up to both ends of the '
    'int64 range; half of the series carry attachments under names that collide with every name the '
    'function uses or creates - the output dimension (default, user-given, equal to the data dimension or '
    'to an existing coordinate), argument/temporary/constituent names: per-point coordinates of 9 dtype '
    'kinds incl. variances/strings/vectors/NaN, scalar coordinates, per-point and scalar masks; every shard '
    'also runs the enumerated collision matrix on a clean series; a fifth of the series get repeated entries '
    '(equal neighbouring coordinate values, with the same reading = 0/0 slope or a different one = infinite '
    'slope, single or several in a row, anywhere incl. both ends) or NaN / +-inf readings, and every shard '
    'runs the enumerated tie matrix: 4 coordinate kinds x 2 data kinds x 6 positions (first/last point, inside a '
    'level, first/last point of a level, isolated point) x {same, same several times, different, different by '
    'one ulp / one count under a wide tolerance, both next to each other}, two ties in one level, every entry '
    'twice, all coordinate values equal, NaN / +-inf readings at the same positions and at a tie, with '
    'min_n_points aimed at the length of the affected run), followed by collapse_plateaus '
    'on what was returned - along the dimension-coordinate AND along the other per-point coordinates the plateaus '
    'carry (every shard: the enumerated matrix 6 dtype kinds incl. int32 / variances x 8 orders of the values inside '
    'a plateau: random, descending, extreme at an interior point, maximum first / minimum last, all negative, '
    'constant, ascending; the default coord="time" as an auxiliary coordinate) - and filter_in_phase on the '
    'collapsed values; every shard also runs the usage sequences: all-keyword calls, numpy / IntEnum / (str, Enum) '
    'stand-ins for min_n_points / plateau_dim / coord, data dimensions named like names used inside the '
    'implementation, variances on data / tolerance / dimension-coordinate, per-point / scalar / per-plateau masks '
    '(mask-aware mean), repeated and fed-back calls, calls after refused ones, display / copies between calls; plus direct '
    'filter_in_phase calls (frequencies 0, tiny, n*ref, ref/n perturbed by {0,0.1,0.49,2,10} x '
    'rtol, either sign of f and ref, float64/float32/int64) and direct collapse_plateaus calls '
    'on hand-built bins (half of them reworked: coordinate unsorted inside the bins, second coordinate, bins out of '
    'buffer order, unused points, masks, variances); distinct = distinct (function, dtypes, units class, tolerance class, '
    'min_n class, size band) signatures; none is counted trivial'
)
ASSUMPTIONS = [
    'the documented derivative (y[i+1]-y[i])/(x[i+1]-x[i]) is an IEEE expression; numpy evaluates '
    'it with the same roundings as scipp for the dtype pairs generated (others are not judged)',
    'a tolerance given in a unit other than data-unit/coordinate-unit is located only to 16 ulp '
    '(series with a slope inside that band are undecided)',
    'relative tolerance of filter_in_phase is read as |f/ref - n| < rtol (any integer n) or '
    '|ref/f - n| < rtol (non-zero integer n); elements kept only through n = 0 on the divisor '
    'side (|ref/f| < rtol) are counted as ambiguous, not judged',
    'RuntimeError from find_plateaus (drift guard) is an allowed outcome and is not judged',
    'ascending coordinates include equal neighbours (scipp.issorted(..., "ascending") and find_plateaus accept '
    'them); "slopes stay within the tolerance" is the documented break test |slope| > atol evaluated in IEEE '
    'arithmetic: dy/0 = +-inf exceeds every tolerance (a break), 0/0 = NaN (repeated entry with the same '
    'reading) and slopes next to a NaN reading do not exceed it (no break); coordinates and atol themselves '
    'must be finite (otherwise not judged)',
    '"its points and coordinates unchanged" covers every per-point coordinate and mask of the input whatever '
    'its name (bitwise values, variances, unit, dtype) and the scalar coordinates/masks of the series (kept on '
    'the result or in the bins); a SCALAR coordinate named like the output dimension is replaced by the plateau '
    'index by the code - the documentation is silent on it, counted as ambiguous, not judged',
    'collapse_plateaus with coord equal to the plateau dimension cannot return a [low, high] pair per plateau '
    '(out of domain, counted)',
    'collapse_plateaus: "coord" may name any per-point coordinate of the plateaus of float / int / datetime dtype; '
    'the interval has to contain the coordinate values of ALL points of the plateau (masked ones included), in '
    'whatever order they occur; coordinates of other dtypes (string, bool, vector) are refused by the code (counted)',
    'the mean of a plateau with masked points is the mean of its unmasked points (scipp: masked elements are '
    'excluded from reductions); a plateau whose points are all masked or that holds a non-finite reading is not judged',
    'where the points carry variances and the result carries variances, the variance of the mean of m points is '
    'sum(var_i)/m^2 (exact first-order propagation of a linear form); variances of interval edges are not judged',
    'a dimension-coordinate with variances is refused by find_plateaus (VariancesError, counted, not judged)',
]
TECHNIQUE = ('runtime monitors (sys.monitoring) on the returns of find_plateaus, collapse_plateaus, '
             'filter_in_phase, direct and chained; segmentation / interval / in-phase reference models')
LEVEL_TEXT = ('exploration: every observed return of the three functions in a hostile generated workload '
              '(exact ties and +-1 ulp at the tolerance, min_n_points at run lengths, all coordinate kinds, '
              'repeated coordinate values with 0/0 and infinite slopes, NaN / infinite readings) '
              'is compared with the selection the documented definition yields: bins = maximal runs, bitwise '
              'contents; interval containment of every point; keep/remove outside a factor-2 band around rtol. '
              'Sampling of an infinite input space: held on the decided executions reported, not a proof.')
LEVEL_NOTE = ('trusted: numpy IEEE arithmetic, scipp containers/binning (bins read back through '
              'begin/end/buffer), the independent SI table for scaled tolerance units')
DESIGN_REF = 'DESIGN.md section 4, C19'
TIMEOUT_S = {'quick': 900, 'thorough': 4 * 3600}

# Reading of "integer multiple of the reference or vice versa" at n = 0 on the divisor side
# (|ref/f| < rtol, f not near a multiple): the code keeps such elements.  The symmetric reading of the
# docstring allows it, "integer divisor" in the property text does not; a relative tolerance taken
# relative to the multiple itself would keep them as well.  Not clear-cut, therefore counted
# ('ambiguous:filter.zeroth_divisor...') and not judged unless this switch is turned on.
JUDGE_ZEROTH_DIVISOR = False

FINDING_PREDICATES: dict = {
    'filter_in_phase.zeroth_divisor_kept': lambda v: (
        v.get('kind') == 'filter_kept_zeroth_divisor'
        and v.get('keys', {}).get('relation') == 'zeroth_divisor'),
    # only reachable with JUDGE_SCALAR_COORD_NAMED_LIKE_OUTPUT_DIM = True
    'find_plateaus.scalar_coord_named_like_output_dim_replaced': lambda v: (
        v.get('kind') == 'find_scalar_coord_lost'
        and v.get('keys', {}).get('name_is') in ('output_dim', 'default_output_dim')),
}

Y_KINDS = ('float64', 'float32', 'int64')
# literal dimension / coordinate names used inside the package's sources and by scipp's binning (caller data may
# use any of them)
INTERNAL_DIMS = ('plateau', 'event', 'row', 'group', 'range', 'dim_0', 'dim', 'bin', 'vertex', 'slit', 'cutout',
                 'rotation', 'detector_number', 'frequency', 'coord', 'begin', 'end', 'data', '')
X_KINDS = ('float64', 'float32', 'int64', 'datetime64')


# ------------------------------------------------------------------ helpers ---
def _b(a) -> bytes:
    return np.ascontiguousarray(np.asarray(a)).tobytes()


def _hexlist(a, limit=40):
    a = np.asarray(a)
    if a.size > limit:
        return {'n': int(a.size), 'head': _hexlist(a[:12])}
    if a.dtype.kind == 'f':
        return [float(v).hex() for v in a.tolist()]
    if a.dtype.kind == 'M':
        return [int(v) for v in a.astype('int64').tolist()]
    return a.tolist()


def _dtype_name(v) -> str:
    return str(v.dtype)


def _finite(a) -> bool:
    a = np.asarray(a)
    if a.dtype.kind == 'f':
        return bool(np.all(np.isfinite(a)))
    return True


def _sorted_ascending(x) -> bool:
    x = M.as_number_array(x)
    return bool(np.all(x[1:] >= x[:-1]))


def _min_n_of(mn):
    """Documented forms: int or Variable (scalar, no unit).  None = outside."""
    if isinstance(mn, bool):
        return None
    if isinstance(mn, int | np.integer):
        return int(mn)
    if isinstance(mn, sc.Variable) and mn.ndim == 0 and mn.unit is None and mn.bins is None:
        v = mn.value
        if isinstance(v, int | np.integer) or (isinstance(v, float | np.floating) and float(v).is_integer()):
            return int(v)
    return None


class Diag:
    """What the helper monitors saw since the last judged public call (diagnosis only)."""

    def __init__(self):
        self.clear()

    def clear(self):
        self.derive = None
        self.guard = None
        self.next_highest = None
        self.mask = None


# --------------------------------------------------------- find_plateaus -------
def judge_find(ctx, args, res, exc, diag, origin):
    data, atol, mn = args.get('data'), args.get('atol'), args.get('min_n_points')
    pdim = args.get('plateau_dim', 'plateau')
    pdim_form = 'str'
    # ---- domain of the model
    try:
        if not isinstance(data, sc.DataArray) or data.ndim != 1 or data.bins is not None:
            ctx.count('find.out_of_domain:not_1d_dense')
            return
        if not isinstance(pdim, str):
            ctx.count('find.out_of_domain:plateau_dim is not a str')
            return
        if type(pdim) is not str:
            pdim_form = 'str_subclass'
            pdim = str.__str__(pdim)    # the characters of the name (np.str_, (str, Enum) member)
        dim = data.dim
        if dim not in data.coords or data.coords[dim].dims != (dim,) or \
                data.coords[dim].shape != data.shape:
            ctx.count('find.out_of_domain:no_point_coord')
            return
        yk, xk = _dtype_name(data), _dtype_name(data.coords[dim])
        if yk not in Y_KINDS or xk not in X_KINDS or (yk == 'float32' and xk in ('int64', 'datetime64')) \
                or (yk == 'int64' and xk == 'float32'):
            ctx.count('find.out_of_domain:dtype_pair')
            return
        y = np.asarray(data.values)
        x = np.asarray(data.coords[dim].values)
        n = len(y)
        min_n = _min_n_of(mn)
        if n < 2 or min_n is None or not isinstance(atol, sc.Variable) or atol.ndim != 0 \
                or str(atol.dtype) not in ('float64', 'int64'):
            ctx.count('find.out_of_domain:arguments')
            return
        # the coordinate and the tolerance must be numbers; the DATA may hold NaN / +-inf (a log with a missing
        # or overflowed reading): the definition is an IEEE expression and stays defined for them
        if not (_finite(x) and np.isfinite(float(atol.value))) or not _sorted_ascending(x):
            ctx.count('find.out_of_domain:non_finite_or_unsorted')
            return
        # integer differences are formed in int64 (as documented: y[i+1]-y[i], x[i+1]-x[i]); they must not wrap
        if yk == 'int64' and int(np.max(y)) - int(np.min(y)) >= 2**53 or \
                xk in ('int64', 'datetime64') and \
                int(M.as_number_array(x)[-1]) - int(M.as_number_array(x)[0]) >= 2**53:
            ctx.count('find.out_of_domain:integer_span')
            return
        # Equal neighbouring coordinate values are part of "ascending" (sc.issorted(..., 'ascending') accepts
        # them, e.g. a log entry written twice).  The slope there is x/0: +-inf when the data values differ (it
        # exceeds every tolerance: a break), NaN when they are equal as well (0/0: it does not exceed the
        # tolerance, the comparison NaN > atol is False: no break, the run goes on).  Same for NaN data values.
        xn = M.as_number_array(x)
        factor = M.derivative_factor(atol.unit, data.unit, data.coords[dim].unit)
        if factor is None:
            ctx.count('find.out_of_domain:unit_not_in_table')
            return
        unit_cls = 'same' if factor == 1 else 'scaled'
        if data.coords[dim].variances is not None:
            # a slope with an uncertainty cannot be compared with the tolerance; the documentation only says that
            # the variances of the DATA are ignored
            if exc is not None and type(exc).__name__ == 'VariancesError':
                ctx.count('find.refused:dimension-coordinate with variances (VariancesError)')
            else:
                ctx.count('find.out_of_domain:dimension-coordinate with variances, accepted')
            return
    except Exception:  # noqa: BLE001
        ctx.oracle_error('C19 find_plateaus domain')
        return

    case = {
        'function': 'find_plateaus', 'origin': origin, 'n': n, 'y_dtype': yk, 'x_dtype': xk,
        'data_unit': str(data.unit), 'coord_unit': str(data.coords[dim].unit),
        'atol': float(atol.value).hex() if str(atol.dtype) == 'float64' else int(atol.value),
        'atol_unit': str(atol.unit), 'min_n_points': min_n, 'min_n_form': type(mn).__name__,
        'y': _hexlist(y), 'x': _hexlist(x),
    }
    if exc is not None:
        if isinstance(exc, RuntimeError):
            ctx.count('find.allowed_RuntimeError')
            return
        ctx.violation('find_unexpected_exception',
                      f'find_plateaus raised {type(exc).__name__}: {str(exc)[:200]}', case,
                      function='find_plateaus', exception=type(exc).__name__)
        return

    # ---- model
    try:
        if factor == 1:
            runs, s = M.segment(y, x, atol.value, min_n)
            thr = M.strong(atol.value)
        else:
            runs, s = M.segment_scaled(y, x, atol.value, factor, min_n)
            thr = np.float64(M.LD(atol.value) * si.ld(factor))
        if runs is None:
            ctx.count('undecided:find.slope_within_16ulp_of_scaled_atol')
            return
        with np.errstate(invalid='ignore'):
            runs_all = M.runs_from_breaks(s > thr, n, 1) if factor == 1 else None
            tie = bool(np.any(s == thr)) if factor == 1 else False
        odd = _odd_slopes(xn, y, s)
        case['coordinate_ties'] = odd['cls']
        near = False
        if factor == 1 and np.isfinite(thr) and thr > 0:
            t64 = np.float64(thr)
            near = bool(np.any((s == np.nextafter(t64, np.inf)) | (s == np.nextafter(t64, 0.0))))
        case['tie'] = tie
        case['expected_runs'] = runs[:30]
        if diag.derive is not None:
            try:
                same = _b(np.asarray(diag.derive.values)) == _b(M.slopes(y, x))
                case['helper_derive_equals_model'] = same
                if not same:
                    ctx.count('diag:_derive differs bitwise from the numpy expression')
            except Exception:  # noqa: BLE001
                pass
    except Exception:  # noqa: BLE001
        ctx.oracle_error('C19 find_plateaus model')
        return

    keys = {'function': 'find_plateaus', 'tie': tie, 'unit': unit_cls, 'x_dtype': xk, 'y_dtype': yk,
            'coordinate_ties': odd['cls'], 'data_finite': odd['finite']}
    # ---- observed structure
    try:
        ok = isinstance(res, sc.DataArray) and res.bins is not None and tuple(res.dims) == (pdim,)
        if ok:
            c = res.bins.constituents
            begin = np.asarray(c['begin'].values).astype(np.int64)
            end = np.asarray(c['end'].values).astype(np.int64)
            buf = c['data']
            ok = isinstance(buf, sc.DataArray) and buf.ndim == 1 and c['dim'] == dim
    except Exception:  # noqa: BLE001
        ok = False
    ctx.event('find_plateaus')
    if not ok:
        ctx.violation('find_result_structure',
                      f'result is not a 1-d binned data array over {pdim!r} holding {dim!r}-points', case,
                      **keys)
        return
    sizes_obs = end - begin
    sizes_exp = np.array([b - a for a, b in runs], dtype=np.int64)
    ctx.case(('find', yk, xk, unit_cls, 'tie' if tie else ('ulp' if near else 'off'),
              _min_cls(min_n, n, mn), _size_band(n), len(runs) > 0, odd['cls'], odd['finite']))
    _forced_find(ctx, runs, n, min_n, mn, tie, s, thr, xk, factor)
    if pdim_form != 'str':
        ctx.hit('plateau_dim given as a str subclass (np.str_ / (str, Enum))')
    if data.variances is not None:
        ctx.hit('find: data with variances (ignored for the comparison)')
    if atol.variances is not None:
        ctx.hit('find: atol with a variance')
    if len([1 for k_, v_ in data.coords.items() if k_ != dim and v_.dims == (dim,)]):
        ctx.hit('find: the dimension-coordinate is not the only per-point coordinate')
    if dim in INTERNAL_DIMS:
        ctx.hit('find: data dimension named like a name used inside scipp / the package')
    _forced_ties(ctx, odd, runs, n, min_n, xk)

    # locate observed bins in the input (possible when the coordinate is strictly ascending)
    obs_runs = None
    try:
        if dim in buf.coords and np.all(M.as_number_array(x)[1:] > M.as_number_array(x)[:-1]) \
                and _dtype_name(buf.coords[dim]) == xk:
            bx = M.as_number_array(np.asarray(buf.coords[dim].values))
            obs_runs = []
            for b0, e0 in zip(begin.tolist(), end.tolist(), strict=True):
                if e0 <= b0:
                    obs_runs.append((-1, -1))
                    continue
                i0 = int(np.searchsorted(M.as_number_array(x), bx[b0]))
                obs_runs.append((i0, i0 + (e0 - b0)))
            case['observed_runs'] = obs_runs[:30]
    except Exception:  # noqa: BLE001
        obs_runs = None

    if len(sizes_obs) != len(sizes_exp) or np.any(sizes_obs != sizes_exp):
        stage = 'segmentation'
        if obs_runs is not None and runs_all is not None:
            if set(obs_runs) <= set(runs_all):
                stage = 'size_filter'
        ctx.violation('find_runs_differ',
                      f'{len(sizes_obs)} bins of sizes {sizes_obs[:8].tolist()} but the maximal runs without a '
                      f'slope exceeding atol and >= {min_n} points are {runs[:8]} ({len(runs)} runs)',
                      case, stage=stage, **keys)
        return
    if len(runs) == 0:
        return
    idx_exp = np.concatenate([np.arange(a, b) for a, b in runs])
    idx_obs = np.concatenate([np.arange(a, b) for a, b in zip(begin.tolist(), end.tolist(), strict=True)])
    # ---- contents, bitwise
    if buf.unit != data.unit or buf.dtype != data.dtype or \
            _b(np.asarray(buf.values)[idx_obs]) != _b(y[idx_exp]):
        stage = 'content'
        if obs_runs is not None and obs_runs != runs:
            stage = 'segmentation'
        ctx.violation('find_points_differ',
                      'bins have the sizes of the expected runs but do not hold those input points unchanged',
                      case, stage=stage, part='data', **keys)
        return
    if (data.variances is None) != (buf.variances is None) or (
            data.variances is not None and
            _b(np.asarray(buf.variances)[idx_obs]) != _b(np.asarray(data.variances)[idx_exp])):
        ctx.violation('find_points_differ', 'variances of the points are not carried unchanged', case,
                      stage='content', part='variances', **keys)
        return
    try:
        _judge_carried(ctx, data, res, buf, dim, pdim, idx_obs, idx_exp, case, keys)
    except Exception:  # noqa: BLE001
        ctx.oracle_error('C19 find_plateaus carried coordinates')


# "each holding its points and coordinates unchanged": everything that is attached to a point of the
# input (its coordinates of any name and dtype, their variances, its mask flags) is attached to the same
# point inside its bin; what is attached to the series as a whole (scalar coordinates / masks) is still
# attached to the result (outside or inside the bins).  No name is special: the names the function itself
# uses or creates (the output dimension - default or user-given -, temporaries) may occur in the input.
JUDGE_SCALAR_COORD_NAMED_LIKE_OUTPUT_DIM = False
_BITWISE = ('float64', 'float32', 'int64', 'int32', 'bool', 'datetime64', 'vector3')


def _same_elements(a, ia, b, ib) -> bool:
    if a.unit != b.unit or a.dtype != b.dtype or (a.variances is None) != (b.variances is None):
        return False
    va, vb = np.asarray(a.values)[ia], np.asarray(b.values)[ib]
    if str(a.dtype) in _BITWISE:
        if va.shape != vb.shape or _b(va) != _b(vb):
            return False
        if a.variances is not None and _b(np.asarray(a.variances)[ia]) != _b(np.asarray(b.variances)[ib]):
            return False
        return True
    return va.shape == vb.shape and bool(np.all(va == vb))


def _name_class(name, dim, pdim, explicit):
    if name == pdim:
        return 'output_dim' if explicit else 'default_output_dim'
    if name == dim:
        return 'data_dim'
    return 'other'


def _judge_carried(ctx, data, res, buf, dim, pdim, idx_obs, idx_exp, case, keys):
    explicit = pdim != 'plateau'
    case['coords'] = {str(k): [list(v.dims), str(v.dtype)] for k, v in data.coords.items()}
    case['masks'] = {str(k): list(v.dims) for k, v in data.masks.items()}
    case['plateau_dim'] = pdim
    if pdim == dim:
        ctx.hit('plateau_dim equal to the data dimension')
    for what, src, dst_in, dst_out in (('coord', data.coords, buf.coords, res.coords),
                                       ('mask', data.masks, buf.masks, res.masks)):
        for name, co in src.items():
            ncls = _name_class(name, dim, pdim, explicit)
            if co.dims == (dim,) and co.shape == data.shape and co.bins is None:
                bc = dst_in[name] if name in dst_in else None
                if bc is None or bc.dims != (dim,) or not _same_elements(bc, idx_obs, co, idx_exp):
                    how = 'missing from the bins' if bc is None else 'not carried unchanged into the bins'
                    ctx.violation('find_coords_differ' if what == 'coord' else 'find_masks_differ',
                                  f'{what} {name!r} ({co.dtype}) of the points is {how} '
                                  f'(output dimension {pdim!r}, data dimension {dim!r})', case,
                                  stage='content', part=what, name_is=ncls,
                                  lost=bc is None, **keys)
                    return
                if name != dim:
                    if what == 'coord':
                        if ncls == 'default_output_dim':
                            ctx.hit('aux coordinate named like the default output dimension')
                        elif ncls == 'output_dim':
                            ctx.hit('aux coordinate named like a user-given plateau_dim')
                        else:
                            ctx.hit('aux coordinate carried')
                        if str(co.dtype) not in _BITWISE[:6]:
                            ctx.hit('aux coordinate of non-numeric dtype')
                        if co.variances is not None:
                            ctx.hit('aux coordinate with variances')
                ctx.count(f'find.carried:{what}:per-point')
                if what == 'mask':
                    ctx.hit('per-point mask carried')
                    if ncls != 'other':
                        ctx.hit('mask named like the output or data dimension')
            elif co.ndim == 0 and co.bins is None:
                cands = [d[name] for d in (dst_out, dst_in) if name in d]
                found = any(c.ndim == 0 and sc.identical(c, co, equal_nan=True) for c in cands)
                if not found and name in dst_in and dst_in[name].dims == (dim,) and len(idx_obs):
                    b = dst_in[name]
                    found = all(sc.identical(b[dim, int(j)], co, equal_nan=True) for j in idx_obs[:50])
                if found:
                    ctx.count(f'find.carried:{what}:scalar')
                    ctx.hit('scalar coordinate carried' if what == 'coord' else 'scalar mask carried')
                    continue
                if what == 'coord' and name == pdim and not JUDGE_SCALAR_COORD_NAMED_LIKE_OUTPUT_DIM:
                    # the result needs a coordinate-free name for its dimension; the documentation does not
                    # say what happens to a series-wide coordinate of that name (the code replaces it)
                    ctx.count('ambiguous:find.scalar_coord_named_like_output_dim.replaced')
                    continue
                ctx.violation('find_scalar_coord_lost' if what == 'coord' else 'find_scalar_mask_lost',
                              f'scalar {what} {name!r} of the series is neither on the result nor in the bins '
                              f'unchanged (output dimension {pdim!r})', case,
                              stage='content', part='scalar_' + what, name_is=ncls, **keys)
                return
            else:
                ctx.count(f'find.out_of_domain:{what} that is neither per-point nor scalar (not judged)')
    extra = [str(k) for k in buf.coords.keys() if k not in data.coords]
    if extra:
        ctx.count('find.bins_hold_coordinates_the_input_did_not_have')
        case['extra_bin_coords'] = extra[:5]


def _odd_slopes(xn, y, s):
    """Where the slope is not a finite number and why (coordinate ties, non-finite data values)."""
    dx0 = xn[1:] == xn[:-1]
    nan_s, inf_s = np.isnan(s), np.isinf(s)
    yf = np.isfinite(y) if y.dtype.kind == 'f' else np.ones(len(y), dtype=bool)
    tie_nan = dx0 & nan_s          # 0/0 (or NaN/0): equal coordinates, no slope exceeding anything
    tie_inf = dx0 & inf_s          # dy/0: equal coordinates, different data
    cls = ('both' if tie_nan.any() and tie_inf.any() else '0/0' if tie_nan.any()
           else 'dy/0' if tie_inf.any() else 'none')
    finite = 'finite' if yf.all() else ('nan' if np.isnan(y[~yf]).any() else 'inf')
    return {'dx0': dx0, 'tie_nan': tie_nan, 'tie_inf': tie_inf, 'nan_s': nan_s, 'cls': cls, 'finite': finite,
            'y_nan': ~yf & np.isnan(y) if y.dtype.kind == 'f' else ~yf,
            'y_inf': ~yf & np.isinf(y) if y.dtype.kind == 'f' else ~yf}


def _forced_ties(ctx, odd, runs, n, min_n, xk):
    dx0, tie_nan, tie_inf, nan_s = odd['dx0'], odd['tie_nan'], odd['tie_inf'], odd['nan_s']
    if dx0.any():
        ctx.count('find.judged_with_coordinate_ties')
        ctx.hit('coordinate tie in a ' + xk + ' coordinate')
        if dx0[0]:
            ctx.hit('coordinate tie at the very start')
        if dx0[-1]:
            ctx.hit('coordinate tie at the very end')
        if np.any(dx0[1:-1]):
            ctx.hit('coordinate tie in the middle')
        if np.any(dx0[1:] & dx0[:-1]):
            ctx.hit('several coordinate ties in a row')
        if dx0.all():
            ctx.hit('all coordinate values equal')
    if tie_nan.any():
        ctx.hit('coordinate tie with equal data (0/0 slope: no break)')
        ctx.hit('0/0 slope in a ' + xk + ' coordinate')
    if tie_inf.any():
        ctx.hit('coordinate tie with different data (infinite slope: a break)')
    if np.any(tie_nan[1:] & tie_inf[:-1]) or np.any(tie_inf[1:] & tie_nan[:-1]):
        ctx.hit('0/0 slope next to an infinite slope')
    if odd['y_nan'].any():
        ctx.count('find.judged_with_nan_data')
        ctx.hit('NaN data value inside a series')
        if np.any(odd['y_nan'][1:] & dx0) or np.any(odd['y_nan'][:-1] & dx0):
            ctx.hit('NaN data value at a coordinate tie')
    if odd['y_inf'].any():
        ctx.hit('infinite data value inside a series')
    # NaN slopes that lie INSIDE a returned plateau (a split there would change the result), and plateaus that
    # reach min_n_points only because the NaN slope does not split them
    for i in np.flatnonzero(nan_s).tolist():
        for a, b in runs:
            if a <= i and i + 1 < b:
                ctx.hit('NaN slope inside a returned plateau')
                if max(i + 1 - a, b - i - 1) < min_n:
                    ctx.hit('plateau reaching min_n_points only across a NaN slope')
                break


def _min_cls(min_n, n, mn):
    form = 'var' if isinstance(mn, sc.Variable) else ('npint' if isinstance(mn, np.integer) else
                                                       'int' if type(mn) is int else 'int_subclass')
    if min_n <= 1:
        return form + ':1'
    if min_n >= n:
        return form + ':n'
    return form + (':small' if min_n <= 5 else ':mid')


def _size_band(n):
    return '2-12' if n <= 12 else ('13-120' if n <= 120 else '121-500')


def _forced_find(ctx, runs, n, min_n, mn, tie, s, thr, xk, factor):
    if tie:
        ctx.hit('slope == atol exactly')
    if factor == 1 and np.isfinite(thr) and thr > 0:
        t64 = np.float64(thr)
        if np.any(s == np.nextafter(t64, np.inf)):
            ctx.hit('slope == atol + 1 ulp')
        if np.any(s == np.nextafter(t64, 0.0)):
            ctx.hit('slope == atol - 1 ulp')
    if factor != 1:
        ctx.hit('atol in a scaled unit')
    if min_n == 1:
        ctx.hit('min_n_points = 1')
    if min_n == n:
        ctx.hit('min_n_points = n')
    if isinstance(mn, sc.Variable):
        ctx.hit('min_n_points as Variable')
    elif isinstance(mn, np.integer):
        ctx.hit('min_n_points as numpy integer (' + type(mn).__name__ + ')')
    elif type(mn) is not int:
        ctx.hit('min_n_points as an int subclass (IntEnum member)')
    if any(b - a == min_n for a, b in runs):
        ctx.hit('run of exactly min_n_points points')
    if any(b - a == 1 for a, b in runs):
        ctx.hit('single-point plateau')
    if runs and runs[0][0] == 0:
        ctx.hit('plateau at the very start')
    if runs and runs[-1][1] == n:
        ctx.hit('plateau at the very end')
    if runs == [(0, n)]:
        ctx.hit('all points one plateau')
    if not runs:
        ctx.hit('no plateau at all')
    ctx.hit('coordinate ' + xk)


# ------------------------------------------------------ collapse_plateaus ------
# The interval is formed for ANY per-point coordinate of the plateaus the caller names (``coord=``): the
# dimension-coordinate find_plateaus checked for order, or any other one (phase, temperature, a second clock)
# whose values are in no particular order inside a plateau.  "Contains all of its points" does not depend on
# the order of the points.
COLLAPSE_X_KINDS = (*X_KINDS, 'int32')


def _event_mask(buf):
    """Union of the masks of the points (None = a mask that is neither per-point nor scalar)."""
    m = np.zeros(buf.shape, dtype=bool)
    for _name, mk in buf.masks.items():
        if mk.bins is not None or mk.dims not in ((), buf.dims):
            return None
        m = m | np.asarray(mk.values, dtype=bool)
    return m


def judge_collapse(ctx, args, res, exc, diag, origin):
    pl, cname = args.get('plateaus'), args.get('coord', 'time')
    try:
        if not isinstance(pl, sc.DataArray) or pl.bins is None or pl.ndim != 1:
            ctx.count('collapse.out_of_domain:not_1d_binned')
            return
        if not isinstance(cname, str):
            ctx.count('collapse.out_of_domain:coord is not a str')
            return
        cform = 'str' if type(cname) is str else 'str_subclass'
        cname = str.__str__(cname)   # the characters of the name (an (str, Enum) member prints differently)
        c = pl.bins.constituents
        buf = c['data']
        begin = np.asarray(c['begin'].values).astype(np.int64)
        end = np.asarray(c['end'].values).astype(np.int64)
        if not isinstance(buf, sc.DataArray) or buf.ndim != 1 or cname not in buf.coords \
                or buf.coords[cname].dims != buf.dims:
            ctx.count('collapse.out_of_domain:no_event_coord')
            return
        ec = buf.coords[cname]
        xk, yk = _dtype_name(ec), _dtype_name(buf)
        if xk not in COLLAPSE_X_KINDS or yk not in Y_KINDS:
            ctx.count('collapse.out_of_domain:dtype' + ('' if exc is None else f' (refused: {type(exc).__name__})'))
            return
        if cname == pl.dim:
            # the result cannot hold a [low, high] pair per plateau under the name of its own dimension
            ctx.count('collapse.out_of_domain:coord named like the plateau dimension')
            return
        # masked points are excluded from the mean (scipp's definition of a reduction over masked data); they
        # still are points of the plateau: the interval has to contain them
        emask = _event_mask(buf)
        if emask is None or any(mk.bins is not None or mk.dims not in ((), pl.dims) for mk in pl.masks.values()):
            ctx.count('collapse.out_of_domain:mask that is neither per-point / per-plateau nor scalar')
            return
        mask_cls = ('both' if len(buf.masks) and len(pl.masks) else 'event' if len(buf.masks)
                    else 'bin' if len(pl.masks) else 'none')
        if np.any(end <= begin):
            ctx.count('collapse.out_of_domain:empty_bin')
            return
        px = np.asarray(ec.values)
        py = np.asarray(buf.values)
        used = np.zeros(len(py), dtype=bool)
        for b0, e0 in zip(begin.tolist(), end.tolist(), strict=True):
            used[b0:e0] = True
        # only the points that belong to a plateau have to be numbers; a plateau that holds a NaN / infinite
        # reading or coordinate value is not judged, the others are
        okp = np.ones(len(py), dtype=bool)
        for a_ in (px, py):
            if a_.dtype.kind == 'f':
                okp &= np.isfinite(a_)
        fin = [bool(np.all(okp[b0:e0])) for b0, e0 in zip(begin.tolist(), end.tolist(), strict=True)]
        if len(fin) and not any(fin):
            ctx.count('collapse.out_of_domain:non_finite')
            return
        used &= okp
        pxn = M.as_number_array(px)
        if xk in ('int64', 'datetime64', 'int32') and np.any(used) and \
                np.max(pxn[used]) == np.iinfo(np.int32 if xk == 'int32' else np.int64).max:
            ctx.count('collapse.out_of_domain:int64_max_has_no_upper_neighbour')
            return
        if yk == 'int64' and np.any(used) and np.max(np.abs(py[used])) >= 2**52:
            ctx.count('collapse.out_of_domain:integer_magnitude')
            return
        pv = None if buf.variances is None else np.asarray(buf.variances)
        role = 'dimension' if cname == buf.dim else 'auxiliary'
        with np.errstate(invalid='ignore'):
            unsorted = [bool(np.any(pxn[b0 + 1:e0] < pxn[b0:e0 - 1]))
                        for b0, e0 in zip(begin.tolist(), end.tolist(), strict=True)]
        unsorted = [u_ and f_ for u_, f_ in zip(unsorted, fin, strict=True)]
        order = 'unsorted' if any(unsorted) else 'ascending'
    except Exception:  # noqa: BLE001
        ctx.oracle_error('C19 collapse_plateaus domain')
        return
    nb = len(begin)
    case = {'function': 'collapse_plateaus', 'origin': origin, 'coord': cname, 'n_plateaus': nb,
            'coord_dtype': xk, 'coord_unit': str(ec.unit), 'data_dtype': yk, 'coord_role': role,
            'order_within_plateaus': order, 'masks': mask_cls,
            'coord_has_variances': ec.variances is not None, 'data_has_variances': pv is not None,
            'sizes': (end - begin)[:30].tolist()}
    keys = {'function': 'collapse_plateaus', 'coord_dtype': xk, 'data_dtype': yk, 'coord_role': role,
            'order': order, 'masks': mask_cls}
    if exc is not None:
        ctx.violation('collapse_unexpected_exception',
                      f'collapse_plateaus raised {type(exc).__name__}: {str(exc)[:200]}', case,
                      exception=type(exc).__name__, **keys)
        return
    ctx.event('collapse_plateaus')
    ctx.case(('collapse', yk, xk, str(ec.unit), 'n=0' if nb == 0 else ('n=1' if nb == 1 else 'n>1'),
              'single' if nb and np.min(end - begin) == 1 else 'multi', role, order, mask_cls,
              ec.variances is not None, pv is not None))
    ctx.hit('collapse coordinate ' + xk)
    _forced_collapse(ctx, nb, begin, end, pxn, xk, role, unsorted, mask_cls, ec, pv, cform, origin)
    try:    # layout of the bins as they were passed (the snapshot judged here is a re-packed copy)
        c0 = args['passed object'].bins.constituents
        b0, e0 = np.asarray(c0['begin'].values), np.asarray(c0['end'].values)
        if nb > 1 and np.any(b0[1:] < b0[:-1]):
            ctx.hit('collapse: plateaus not in buffer order')
        if nb and (np.min(b0) > 0 or np.sum(e0 - b0) < c0['data'].sizes[c0['dim']]):
            ctx.hit('collapse: points in the buffer that belong to no plateau')
    except Exception:  # noqa: BLE001
        pass
    # ---- structure: one element per plateau, [low, high] pair per plateau
    try:
        ok = isinstance(res, sc.DataArray) and res.bins is None and tuple(res.dims) == tuple(pl.dims) \
            and res.shape == pl.shape and cname in res.coords
        if ok:
            edges = res.coords[cname]
            ok = set(edges.dims) == {pl.dim, cname} and edges.sizes[cname] == 2 and pl.dim != cname
        if ok:
            low = np.asarray(edges[cname, 0].values)
            high = np.asarray(edges[cname, 1].values)
            got = np.asarray(res.values)
            gotv = None if res.variances is None else np.asarray(res.variances)
    except Exception:  # noqa: BLE001
        ok = False
    if not ok:
        ctx.violation('collapse_result_structure',
                      'result is not dense with one element per plateau and a [low, high] pair per plateau',
                      case, **keys)
        return
    if edges.unit != ec.unit or _dtype_name(edges) != xk:
        ctx.violation('collapse_interval_type',
                      f'interval edges are {edges.dtype}[{edges.unit}] but the points are {xk}[{ec.unit}]',
                      case, **keys)
        return
    if res.unit != buf.unit:
        ctx.violation('collapse_mean', f'mean has unit {res.unit}, the points have {buf.unit}', case,
                      quantity='unit', **keys)
        return
    lown, highn = M.as_number_array(low), M.as_number_array(high)
    eps = M.EPS32 if str(res.dtype) == 'float32' or yk == 'float32' else M.EPS64
    try:
        for k in range(nb):
            if not fin[k]:
                ctx.count('collapse.plateau_with_a_non_finite_point (not judged)')
                continue
            pts = pxn[begin[k]:end[k]]
            below = pts < lown[k]
            above = ~(pts < highn[k])
            if np.any(below) or np.any(above):
                j = int(np.flatnonzero(below | above)[0])
                case['plateau'] = k
                case['interval'] = _hexlist(np.array([low[k], high[k]]))
                case['point'] = _hexlist(px[begin[k]:end[k]][j:j + 1])
                case['points'] = _hexlist(px[begin[k]:end[k]])
                ctx.violation('collapse_point_outside_interval',
                              f'plateau {k}: point {px[begin[k]:end[k]][j]!r} of coordinate {cname!r} is not inside '
                              f'its half-open interval [{low[k]!r}, {high[k]!r})', case,
                              edge='upper' if np.any(above) else 'lower', **keys)
                return
            if role == 'auxiliary':
                ctx.count('collapse.plateaus_judged_along_an_auxiliary_coordinate')
            if lown[k] != pts.min() or highn[k] != M.next_above(np.asarray(px[begin[k]:end[k]]).max()):
                ctx.count('collapse.interval_wider_than_[min,next_above(max))')
            keep = ~emask[begin[k]:end[k]]
            m = int(np.count_nonzero(keep))
            if m == 0:
                ctx.count('collapse.plateau_with_every_point_masked (mean not defined, not judged)')
                continue
            mean, meanabs = M.mean_ld(py[begin[k]:end[k]][keep])
            tol = M.LD(max(8, m)) * M.LD(eps) * meanabs
            err = abs(M.LD(got[k]) - mean)
            if meanabs > 0:
                ctx.dev('collapse.mean_error / (eps * mean|y|)', float(err / (M.LD(eps) * meanabs)))
            if not err <= tol:
                case['plateau'] = k
                case['got'] = repr(got[k])
                case['expected_mean'] = repr(mean)
                ctx.violation('collapse_mean',
                              f'plateau {k} ({m} unmasked of {int(end[k] - begin[k])} points): value {got[k]!r} but '
                              f'the mean of its points is {float(mean)!r}', case, quantity='value', **keys)
                return
            # variances: only where the result carries them; the mean of m independent readings has the
            # variance sum(var_i) / m^2 (first-order propagation of a linear form: exact)
            if pv is not None and gotv is not None:
                vsum = pv[begin[k]:end[k]][keep].astype(M.LD).sum()
                vexp = vsum / M.LD(m) / M.LD(m)
                if np.isfinite(float(vexp)) and vexp >= 0:
                    verr = abs(M.LD(gotv[k]) - vexp)
                    ctx.event('collapse_plateaus:variance of the mean')
                    if vexp > 0:
                        ctx.dev('collapse.variance_error / (eps * variance)', float(verr / (M.LD(eps) * vexp)))
                    if not verr <= M.LD(max(8, m)) * M.LD(eps) * vexp:
                        case['plateau'] = k
                        case['got_variance'] = repr(gotv[k])
                        case['expected_variance'] = repr(vexp)
                        ctx.violation('collapse_mean',
                                      f'plateau {k} ({m} points): variance {gotv[k]!r} of the mean but '
                                      f'sum(var)/m^2 = {float(vexp)!r}', case, quantity='variance', **keys)
                        return
            elif pv is not None:
                ctx.count('collapse.variances_of_the_points_not_on_the_result (not judged)')
    except Exception:  # noqa: BLE001
        ctx.oracle_error('C19 collapse_plateaus model')


def _forced_collapse(ctx, nb, begin, end, pxn, xk, role, unsorted, mask_cls, ec, pv, cform, origin):
    if role == 'auxiliary':
        ctx.hit('collapse along a coordinate that is not the dimension-coordinate')
        ctx.hit('collapse along an auxiliary ' + xk + ' coordinate')
    if cform != 'str':
        ctx.hit('collapse: coord given as a str subclass (np.str_ / (str, Enum))')
    if ec.variances is not None:
        ctx.hit('collapse coordinate with variances')
    if pv is not None:
        ctx.hit('collapse of points with variances')
    if mask_cls in ('event', 'both'):
        ctx.hit('collapse of plateaus with masked points')
    if mask_cls in ('bin', 'both'):
        ctx.hit('collapse of masked plateaus')
    for k in range(nb):
        if not unsorted[k]:
            continue
        pts = pxn[begin[k]:end[k]]
        m = len(pts)
        ctx.hit('collapse coordinate not ascending within a plateau')
        ctx.hit('collapse coordinate not ascending within a plateau (' + origin + ')')
        ctx.hit('not ascending within a plateau: ' + xk)
        imax = np.flatnonzero(pts == pts.max())
        imin = np.flatnonzero(pts == pts.min())
        if 0 not in imin and m - 1 not in imin:
            ctx.hit('minimum of a plateau at an interior point only')
        if 0 not in imax and m - 1 not in imax:
            ctx.hit('maximum of a plateau at an interior point only')
        if m - 1 in imin and 0 not in imin:
            ctx.hit('minimum of a plateau at its last point')
        if 0 in imax and m - 1 not in imax:
            ctx.hit('maximum of a plateau at its first point')
        if pts[0] > pts[-1]:
            ctx.hit('first point of a plateau above its last point')
        if pts.dtype.kind == 'f' and pts.max() < 0:
            ctx.hit('not ascending within a plateau, all values negative')


# -------------------------------------------------------- filter_in_phase ------
def _rows(da, dim):
    """Per-element byte rows of a 1-d data array: data, variances and every coord along dim."""
    n = da.sizes[dim]

    def col(v):
        v = np.ascontiguousarray(np.asarray(v))
        return v.view(np.uint8).reshape(n, -1) if n else None

    cols = [col(da.values)]
    if da.variances is not None:
        cols.append(col(da.variances))
    names = []
    for name in sorted(da.coords.keys(), key=str):
        co = da.coords[name]
        if dim not in co.dims or co.bins is not None or co.sizes[dim] != n:
            continue
        if str(co.dtype) not in ('float64', 'float32', 'int64', 'int32', 'datetime64', 'bool'):
            continue
        names.append(str(name))
        if n:
            cols.append(col(co.transpose([dim] + [d for d in co.dims if d != dim]).values))
    for name in sorted(da.masks.keys(), key=str):
        mk = da.masks[name]
        if mk.dims != (dim,) or mk.bins is not None:
            continue
        names.append('mask:' + str(name))
        if n:
            cols.append(col(np.asarray(mk.values, dtype=np.uint8)))
    if not n:
        return [], names
    return [r.tobytes() for r in np.concatenate(cols, axis=1)], names


def judge_filter(ctx, args, res, exc, diag, origin):
    fr, ref, rtol = args.get('frequency'), args.get('reference'), args.get('rtol')
    try:
        if not isinstance(fr, sc.DataArray) or fr.ndim != 1 or fr.bins is not None:
            ctx.count('filter.out_of_domain:not_1d_dense')
            return
        fk = _dtype_name(fr)
        if fk not in ('float64', 'float32', 'int64') or not isinstance(ref, sc.Variable) or ref.ndim != 0 \
                or not isinstance(rtol, sc.Variable) or rtol.ndim != 0 \
                or str(ref.dtype) not in ('float64', 'float32', 'int64') or str(rtol.dtype) != 'float64':
            ctx.count('filter.out_of_domain:arguments')
            return
        f = np.asarray(fr.values)
        rv, rt = ref.value, float(rtol.value)
        if not np.isfinite(float(rv)) or float(rv) == 0.0 or not (np.isfinite(rt) and rt > 0) \
                or rtol.unit != sc.units.one:
            ctx.count('filter.out_of_domain:reference_or_rtol')
            return
        if fk == 'int64' and len(f) and np.max(np.abs(f)) >= 2**52:
            ctx.count('filter.out_of_domain:integer_magnitude')
            return
        dim = fr.dim
        n = len(f)
    except Exception:  # noqa: BLE001
        ctx.oracle_error('C19 filter_in_phase domain')
        return
    case = {'function': 'filter_in_phase', 'origin': origin, 'n': n, 'dtype': fk, 'unit': str(fr.unit),
            'reference': repr(rv), 'reference_unit': str(ref.unit), 'rtol': float(rt).hex(),
            'frequency': _hexlist(f)}
    keys = {'function': 'filter_in_phase', 'dtype': fk}
    if fr.unit != ref.unit:
        # the ratio is then not a plain number; the documentation does not say which units may be mixed
        if exc is not None:
            ctx.count(f'filter.refused:frequency and reference in different units ({type(exc).__name__})')
        else:
            ctx.count('filter.out_of_domain:different units, accepted')
        return
    if fr.variances is not None or ref.variances is not None or rtol.variances is not None:
        # the property speaks of frequencies, not of uncertainties; whether they are supported is not stated
        if exc is not None and type(exc).__name__ == 'VariancesError':
            ctx.count('filter.refused:operand with variances (VariancesError)')
            return
        if exc is None:
            ctx.count('filter.variances_accepted')
    if exc is not None:
        ctx.violation('filter_unexpected_exception',
                      f'filter_in_phase raised {type(exc).__name__}: {str(exc)[:200]}', case,
                      exception=type(exc).__name__, **keys)
        return
    try:
        eps = M.EPS32 if 'float32' in (fk, str(ref.dtype)) else M.EPS64
        dec, info = M.in_phase_decision(f, rv, rt, eps)
        dec[~np.isfinite(f.astype(np.float64))] = 0
    except Exception:  # noqa: BLE001
        ctx.oracle_error('C19 filter_in_phase model')
        return
    ctx.event('filter_in_phase')
    # ---- the result must be a subsequence of the input (elements and coordinates unchanged)
    try:
        ok = isinstance(res, sc.DataArray) and res.bins is None and tuple(res.dims) == (dim,) \
            and res.unit == fr.unit and res.dtype == fr.dtype \
            and (res.variances is None) == (fr.variances is None)
        if ok:
            rin, names_in = _rows(fr, dim)
            rout, names_out = _rows(res, dim)
            ok = names_in == names_out
    except Exception:  # noqa: BLE001
        ctx.oracle_error('C19 filter_in_phase rows')
        return
    if not ok:
        ctx.violation('filter_result_structure',
                      'result is not a 1-d data array with the dtype, unit, coordinates and masks of the input', case,
                      **keys)
        return
    kept = np.zeros(n, dtype=bool)
    i = 0
    for r in rout:
        while i < n and rin[i] != r:
            i += 1
        if i >= n:
            ctx.violation('filter_not_a_subsequence',
                          'the returned elements are not a subsequence of the input elements '
                          '(values/coordinates changed, duplicated or reordered)', case, **keys)
            return
        kept[i] = True
        i += 1
    # greedy matching is ambiguous only among byte-identical rows, whose decisions are identical
    n_dec = int(np.count_nonzero(np.abs(dec) == 1))
    ctx.count('filter.elements_decided', n_dec)
    ctx.count('undecided:filter.within_factor_2_band_of_rtol', int(np.count_nonzero(dec == 0)))
    amb = dec == 2
    if np.any(amb):
        ctx.count('ambiguous:filter.zeroth_divisor(|ref/f|<rtol).kept', int(np.count_nonzero(amb & kept)))
        ctx.count('ambiguous:filter.zeroth_divisor(|ref/f|<rtol).removed', int(np.count_nonzero(amb & ~kept)))
    _forced_filter(ctx, f, rv, dec, info, rt)
    pm = [np.asarray(v_.values, dtype=bool) for v_ in fr.masks.values() if v_.dims == (dim,) and v_.bins is None]
    if pm and n_dec:
        ctx.hit('filter: frequencies with a per-element mask')
        if np.any(kept & (dec == 1) & np.logical_or.reduce(pm)):
            ctx.hit('filter: a masked element that is in phase (kept, with its flag)')
    if dim in INTERNAL_DIMS and n_dec:
        ctx.hit('filter: dimension named like a name used inside scipp / the package')
    if n_dec:
        ctx.case(('filter', fk, str(ref.dtype), str(fr.unit), _rtol_band(rt),
                  'ref<0' if float(rv) < 0 else 'ref>0', 'mixed' if np.any(dec == 1) and np.any(dec == -1)
                  else ('keep' if np.any(dec == 1) else 'remove'), _size_band(max(n, 2)), origin))
    if JUDGE_ZEROTH_DIVISOR and np.any(amb & kept):
        j = int(np.flatnonzero(amb & kept)[0])
        case['element'] = {'index': j, 'f': repr(f[j]), 'f/ref': repr(info['q'][j]),
                           'dist_multiple': float(info['d1'][j]), 'ref/f': float(info['d2'][j])}
        ctx.violation('filter_kept_zeroth_divisor',
                      f'element {j} (f = {f[j]!r}, f/ref = {float(info["q"][j])!r}) is farther than 2 rtol from '
                      f'every integer multiple of the reference and is kept only because |ref/f| < rtol = {rt:g} '
                      '(n = 0 on the divisor side)', case, relation='zeroth_divisor', **keys)
        return
    wrong_removed = (dec == 1) & ~kept
    wrong_kept = (dec == -1) & kept
    if np.any(wrong_removed):
        j = int(np.flatnonzero(wrong_removed)[0])
        via = 'multiple' if float(info['d1'][j]) < rt else 'divisor'
        case['element'] = {'index': j, 'f': repr(f[j]), 'f/ref': repr(info['q'][j]),
                           'dist_multiple': float(info['d1'][j]), 'dist_divisor': float(info['d2'][j])}
        ctx.violation('filter_removed_in_phase',
                      f'element {j} (f = {f[j]!r}, f/ref = {float(info["q"][j])!r}) is within rtol = {rt:g} of an '
                      f'integer {via} of the reference but was removed', case, relation=via,
                      zero=bool(f[j] == 0), **keys)
        return
    if np.any(wrong_kept):
        j = int(np.flatnonzero(wrong_kept)[0])
        case['element'] = {'index': j, 'f': repr(f[j]), 'f/ref': repr(info['q'][j]),
                           'dist_multiple': float(info['d1'][j]), 'dist_divisor': float(info['d2'][j])}
        ctx.violation('filter_kept_out_of_phase',
                      f'element {j} (f = {f[j]!r}, f/ref = {float(info["q"][j])!r}) is farther than 2 rtol '
                      f'(rtol = {rt:g}) from every integer multiple and divisor of the reference but was kept',
                      case, **keys)


def _rtol_band(rt):
    return 'rtol>=0.05' if rt >= 0.05 else ('rtol>=1e-4' if rt >= 1e-4 else 'rtol<1e-4')


def _forced_filter(ctx, f, rv, dec, info, rt):
    fz = f == 0
    if np.any(fz & (dec == 1)):
        ctx.hit('frequency exactly 0 (decided keep: 0 = 0 x ref)')
    if np.any((f < 0) & (np.abs(dec) == 1)):
        ctx.hit('negative frequency')
    if float(rv) < 0 and np.any(np.abs(dec) == 1):
        ctx.hit('negative reference')
    with np.errstate(all='ignore'):
        d1 = info['d1'].astype(np.float64)
        d2 = info['d2'].astype(np.float64)
        q = np.abs(info['q'].astype(np.float64))
    if np.any((dec == 1) & ~fz & (q < rt / 2)):
        ctx.hit('tiny frequency (|f/ref| < rtol/2)')
    if np.any((dec == 1) & (d1 < rt / 2) & (q > 1.5)):
        ctx.hit('integer multiple (|n| >= 2)')
    if np.any((dec == 1) & (d2 < rt / 2) & ~(d1 < 2 * rt)):
        ctx.hit('integer divisor only (multiple test fails)')
    if np.any(dec == -1):
        ctx.hit('out of phase (decided remove)')


# ---------------------------------------------------------------- monitors ----
def install_monitors(tr: Tracer, ctx, origin=None):
    """Arm the C19 monitors on a tracer (also usable from a pytest plugin)."""
    from scippneutron.chopper import filtering as F

    origin = origin if origin is not None else {'v': 'direct'}
    diag = Diag()

    def helper(attr):
        def on_return(ev):
            if ev.exc is None:
                setattr(diag, attr, ev.result)
        return on_return

    def snapshot(name):
        # the state of the input at call time: "unchanged" is relative to what was passed in,
        # and the callee may alias (shallow-copy) and alter the caller's object
        def on_start(ev):
            v = ev.args.get(name)
            try:
                return v.copy() if isinstance(v, sc.DataArray) else None
            except Exception:  # noqa: BLE001
                return None
        return on_start

    def public(judge, name):
        def on_return(ev):
            try:
                args = dict(ev.args)
                if ev.pre is not None:
                    args['passed object'] = args.get(name)     # layout classes only (a copy re-packs the bins)
                    args[name] = ev.pre
                judge(ctx, args, ev.result, ev.exc, diag, origin['v'])
            except Exception:  # noqa: BLE001  (a monitor must never raise into the code it watches)
                ctx.oracle_error('C19 monitor ' + judge.__name__)
            finally:
                diag.clear()
        return on_return

    # helpers: diagnosis only (their absence after a refactoring is not a reason for any verdict)
    for fname, attr in (('_derive', 'derive'), ('_check_total_tolerance', 'guard'),
                        ('_next_highest', 'next_highest'), ('_is_approximate_multiple', 'mask')):
        fn = getattr(F, fname, None)
        if fn is not None:
            tr.watch(fn, fname, on_return=helper(attr))
    tr.watch(F.find_plateaus, 'find_plateaus', on_start=snapshot('data'), on_return=public(judge_find, 'data'))
    tr.watch(F.collapse_plateaus, 'collapse_plateaus', on_start=snapshot('plateaus'),
             on_return=public(judge_collapse, 'plateaus'))
    tr.watch(F.filter_in_phase, 'filter_in_phase', on_start=snapshot('frequency'),
             on_return=public(judge_filter, 'frequency'))
    return origin


# --------------------------------------------------------------- generators ---
DATA_UNITS = ['dimensionless', 'Hz', 'kHz', 'm', 'mm', 'deg']
COORD_UNITS = ['s', 'ms', 'us', 'min', 'h', 'dimensionless', 'm']
DT_UNITS = ['ns', 'us', 'ms', 's']
_SAME_DIM = {
    'dimensionless': ['dimensionless'], 'Hz': ['Hz', 'kHz', '1/min'], 'kHz': ['kHz', 'Hz', 'MHz'],
    'm': ['m', 'mm', 'km', 'cm'], 'mm': ['mm', 'm', 'um'], 'deg': ['deg', 'rad'],
    's': ['s', 'ms', 'us', 'min'], 'ms': ['ms', 's', 'us'], 'us': ['us', 'ms', 'ns'],
    'ns': ['ns', 'us', 'ms'], 'min': ['min', 's', 'h'], 'h': ['h', 'min', 's'],
}
DIMS = ['time', 't', 'x', 'pulse']


def _pick(rng, seq):
    return seq[int(rng.integers(0, len(seq)))]


def _gen_profile(rng, n):
    """Integer profile (level + noise) in grid units and the class of the series."""
    r = rng.random()
    kind = ('levels' if r < 0.62 else 'flat_noise' if r < 0.74 else 'zigzag' if r < 0.82
            else 'ramp' if r < 0.92 else 'constant')
    k = np.zeros(n, dtype=np.int64)
    amp = int(_pick(rng, [1, 1, 2, 2, 3]))
    noise = rng.integers(-amp, amp + 1, size=n)
    if rng.random() < 0.3:
        noise[rng.random(n) < 0.6] = 0  # long exactly-constant stretches
    if kind == 'constant':
        return np.full(n, int(rng.integers(-1000, 1000)), dtype=np.int64), kind
    if kind == 'flat_noise':
        return int(rng.integers(-10**5, 10**5)) + noise, kind
    if kind == 'zigzag':
        big = int(rng.integers(50, 5000))
        k = np.where(np.arange(n) % 2 == 0, 0, big) * rng.integers(1, 3, size=n) + noise
        if rng.random() < 0.5 and n > 6:  # a short rest somewhere
            a = int(rng.integers(0, n - 3))
            k[a:a + int(rng.integers(2, 4))] = k[a]
        return k.astype(np.int64), kind
    if kind == 'ramp':
        step = int(_pick(rng, [1, 1, 2, 5]))
        a = int(rng.integers(0, max(1, n // 2)))
        k = np.concatenate([np.zeros(a, dtype=np.int64), step * np.arange(n - a)])
        if rng.random() < 0.5:
            k = k + noise
        return k.astype(np.int64), kind
    # levels: pieces of random length, jumps between them, sometimes through a few ramp points
    pos, level = 0, int(rng.integers(-2000, 2000)) * 16
    while pos < n:
        ln = int(_pick(rng, [1, 1, 2, 3, 5, 8, 13, 30, 80]))
        ln = min(ln, n - pos)
        k[pos:pos + ln] = level
        pos += ln
        new = level + int(rng.integers(-400, 400)) * 16 + int(_pick(rng, [-3, -2, 2, 3, 37]))
        nt = int(_pick(rng, [0, 0, 0, 1, 2, 4]))
        nt = min(nt, n - pos)
        if nt:
            k[pos:pos + nt] = level + ((new - level) * np.arange(1, nt + 1)) // (nt + 1)
            pos += nt
        level = new
    sl = rng.random(n) < 0.85
    return (k + np.where(sl, noise, 0)).astype(np.int64), kind


def gen_series(rng):
    """One find_plateaus case: dict(da, atol, min_n_points, plateau_dim, meta)."""
    r = rng.random()
    n = int(rng.integers(2, 13)) if r < 0.3 else int(rng.integers(13, 121)) if r < 0.82 \
        else int(rng.integers(121, 501))
    xk = _pick(rng, ['float64', 'float64', 'float64', 'int64', 'int64', 'datetime64', 'datetime64', 'float32'])
    if xk == 'float32':
        yk = _pick(rng, ['float32', 'float32', 'float64'])
    elif xk == 'float64':
        yk = _pick(rng, ['float64', 'float64', 'float64', 'int64', 'float32'])
    else:
        yk = _pick(rng, ['float64', 'float64', 'int64'])
    dim = _pick(rng, DIMS)
    # coordinate: irregular ascending steps on a dyadic grid
    steps = rng.choice([1, 1, 1, 2, 3, 4, 5, 8, 16, 37], size=n - 1)
    if rng.random() < 0.15:
        steps[:] = 1
    dup = False
    jx = np.concatenate([[0], np.cumsum(steps)]).astype(np.int64)
    if xk in ('float64', 'float32'):
        h = 2.0 ** int(rng.integers(-8, 9))
        x0 = float(rng.integers(-1000, 1000)) * h
        xv = (x0 + jx * h).astype(xk)
        cu = _pick(rng, COORD_UNITS)
        xvar = sc.array(dims=[dim], values=xv, unit=cu, dtype=xk)
    elif xk == 'int64':
        h = int(_pick(rng, [1, 1, 2, 10, 1000]))
        x0 = int(rng.integers(-10**6, 10**6))
        r = rng.random()
        if r < 0.06:      # the upper end of the int64 range (the last point may be INT64_MAX itself)
            x0 = int(np.iinfo(np.int64).max) - int(jx[-1]) * h - int(_pick(rng, [0, 1, 1, 2, 5]))
        elif r < 0.09:    # the lower end
            x0 = int(np.iinfo(np.int64).min) + int(_pick(rng, [0, 1, 3]))
        xv = x0 + jx * h
        cu = _pick(rng, COORD_UNITS)
        xvar = sc.array(dims=[dim], values=xv, unit=cu, dtype='int64')
    else:
        h = int(_pick(rng, [1, 1, 5, 1000, 71429]))
        cu = _pick(rng, DT_UNITS)
        x0 = {'ns': 1_700_000_000_000_000_000, 'us': 1_700_000_000_000_000, 'ms': 1_700_000_000_000,
              's': 1_700_000_000}[cu] + int(rng.integers(-10**6, 10**6))
        xv = (x0 + jx * h).astype(f'datetime64[{cu}]')
        xvar = sc.array(dims=[dim], values=xv, unit=cu)
    # data on a dyadic grid
    k, kind = _gen_profile(rng, n)
    if yk == 'int64':
        g = int(_pick(rng, [1, 1, 2, 3]))
        yv = (k * g).astype(np.int64)
    else:
        g = 2.0 ** int(rng.integers(-20, 6))
        yv = (k.astype(np.float64) * g).astype(yk)
    # a duplicated coordinate value at a point where the data jumps (slope = inf: a break)
    if xk != 'datetime64' and n > 4 and rng.random() < 0.04:
        cand = np.flatnonzero(yv[1:] != yv[:-1])
        if len(cand):
            i = int(_pick(rng, cand))
            xv2 = np.asarray(xvar.values).copy()
            xv2[i + 1] = xv2[i]
            if np.all(xv2[1:] >= xv2[:-1]):
                ok0 = ~((xv2[1:] == xv2[:-1]) & (yv[1:] == yv[:-1]))
                if np.all(ok0):
                    xvar = sc.array(dims=[dim], values=xv2, unit=cu, dtype=xk)
                    dup = True
    du = _pick(rng, DATA_UNITS)
    variances = None
    if yk != 'int64' and rng.random() < 0.15:
        variances = (rng.random(n) + 0.5).astype(yk)
    yvar = sc.array(dims=[dim], values=yv, variances=variances, unit=du, dtype=yk)
    coords = {dim: xvar}
    if rng.random() < 0.25:
        coords['aux'] = sc.array(dims=[dim], values=rng.normal(size=n), unit='K')
    if rng.random() < 0.1:
        coords['label'] = sc.array(dims=[dim], values=rng.integers(0, 5, size=n), unit=None)
    if rng.random() < 0.08:
        coords['scalar'] = sc.scalar(1.5, unit='m')
    da = sc.DataArray(yvar, coords=coords)

    # tolerance
    s = np.abs(M.slopes(np.asarray(yvar.values), np.asarray(xvar.values))).astype(np.float64)
    pos = s[(s > 0) & np.isfinite(s)]
    r = rng.random()
    if len(pos) == 0:
        mode = 'free'
        a = float(2.0 ** int(rng.integers(-30, 10)))
    else:
        vals, cnt = np.unique(pos, return_counts=True)
        if rng.random() < 0.5:
            base = float(vals[int(np.argmax(cnt))])  # the most frequent slope: many ties
        elif rng.random() < 0.5:
            base = float(vals[int(rng.integers(0, min(len(vals), 4)))])  # one of the smallest slopes
        else:
            base = float(_pick(rng, pos))
        if r < 0.34:
            mode, a = 'tie', base
        elif r < 0.46:
            mode, a = 'tie+1ulp', float(np.nextafter(base, np.inf))
        elif r < 0.58:
            mode, a = 'tie-1ulp', float(np.nextafter(base, 0.0))
        elif r < 0.80:
            mode, a = 'between', base * float(_pick(rng, [1.5, 2.5, 0.75, 3.0, 10.0]))
        elif r < 0.86:
            mode, a = 'zero', 0.0
        elif r < 0.93:
            mode, a = 'huge', float(np.max(pos)) * 4.0
        else:
            mode, a = 'below_all', float(np.min(pos)) / 2.0
    dunit = sc.Unit(du) / sc.Unit(cu)
    scaled = rng.random() < 0.25
    as_int = False
    if scaled:
        du2, cu2 = _pick(rng, _SAME_DIM[du]), _pick(rng, _SAME_DIM.get(cu, [cu]))
        aunit = sc.Unit(du2) / sc.Unit(cu2)
        F = M.derivative_factor(aunit, sc.Unit(du), sc.Unit(cu))
        if F is None:
            aunit, scaled = dunit, False
        else:
            a = float(Fraction(a) / F) if a != 0 else 0.0
    else:
        aunit = dunit
        if a == int(a) and abs(a) < 2**40 and 'float32' not in (xk, yk) and rng.random() < 0.5:
            as_int = True
    atol = sc.scalar(int(a), unit=aunit, dtype='int64') if as_int else sc.scalar(a, unit=aunit)

    # min_n_points, aimed at the lengths of the runs that exist
    thr_runs = M.runs_from_breaks(s > np.float64(a if not scaled else float(Fraction(a) * F)), n, 1)
    lens = sorted({b - a_ for a_, b in thr_runs})
    r = rng.random()
    if r < 0.15:
        mn = 1
    elif r < 0.21:
        mn = n
    elif r < 0.50:
        mn = int(_pick(rng, lens)) + int(_pick(rng, [0, 0, 1]))
    elif r < 0.80:
        mn = int(rng.integers(2, 6))
    else:
        mn = int(rng.integers(1, n + 1))
    mn = max(1, min(mn, n))
    r = rng.random()
    if r < 0.22:
        mnv = sc.index(mn)
    elif r < 0.27:
        mnv = sc.scalar(mn, unit=None, dtype='int32')
    elif r < 0.32:
        mnv = np.int64(mn)
    else:
        mnv = mn
    kw = {'atol': atol, 'min_n_points': mnv}
    if rng.random() < 0.15:
        kw['plateau_dim'] = _pick(rng, ['custom', 'p', 'plateau_2'])
    meta = {'kind': kind, 'mode': mode, 'scaled': scaled, 'dup': dup, 'dim': dim,
            'levels_g': g, 'k': k}
    return da, kw, meta


# Names the function uses or creates, as far as its signature, documentation and result show them
# (output dimension, arguments, the constituents of binned data, likely names of temporaries), plus the
# names the generator uses for dimensions.  Any of them may be the name of a coordinate or mask of the
# input; the effective output dimension and the data dimension are added per case.
USED_NAMES = ['plateau', 'plateau_dim', 'plateaus', 'data', 'atol', 'min_n_points', 'group', 'group_id',
              'group_label', 'groups', 'to_group', 'derivative', 'begin', 'end', 'dim', 'size', 'sizes',
              'event', 'index', 'mean', 'time', 't', 'x', 'pulse', 'custom', 'p', 'plateau_2', 'values',
              'variances', 'coord', 'mask', '']
AUX_KINDS = ('float64', 'float64+var', 'float32', 'int64', 'int32', 'bool', 'datetime64', 'string', 'vector3')


def _aux_values(rng, kind, dim, n):
    """A per-point auxiliary coordinate; values never bin-edge, in no particular order."""
    if kind in ('float64', 'float32'):
        v = rng.normal(size=n) * 10.0 ** int(rng.integers(-3, 4))
        if rng.random() < 0.2:
            v[rng.integers(0, n)] = np.nan
        if rng.random() < 0.2:
            v[rng.integers(0, n)] = -0.0
        return sc.array(dims=[dim], values=v.astype(kind), unit=_pick(rng, ['K', 'Hz', 'dimensionless', None]),
                        dtype=kind)
    if kind == 'float64+var':
        return sc.array(dims=[dim], values=rng.normal(size=n), variances=rng.random(n) + 0.1, unit='Hz')
    if kind in ('int64', 'int32'):
        return sc.array(dims=[dim], values=rng.integers(-5, 6, size=n), unit=_pick(rng, [None, 'dimensionless', 's']),
                        dtype=kind)
    if kind == 'bool':
        return sc.array(dims=[dim], values=rng.random(n) < 0.5, unit=None)
    if kind == 'datetime64':
        u = _pick(rng, DT_UNITS)
        return sc.array(dims=[dim], values=(1_600_000_000 + rng.integers(-1000, 1000, size=n)).astype(
            f'datetime64[{u}]'), unit=u)
    if kind == 'string':
        return sc.array(dims=[dim], values=[_pick(rng, ['a', 'bc', '', 'plateau', 'x' * 20]) + str(i % 3)
                                            for i in range(n)], unit=None)
    return sc.vectors(dims=[dim], values=rng.normal(size=(n, 3)), unit='m')


def _scalar_aux(rng):
    return _pick(rng, [sc.scalar(1.5, unit='m'), sc.scalar(7, unit=None), sc.scalar('run 12'),
                       sc.scalar(float('nan'), unit='K'), sc.scalar(2.0, variance=0.5, unit='Hz'),
                       sc.vector([0.0, 0.0, 1.0], unit='m'),
                       sc.datetime('2024-01-01T00:00:00', unit='s')])


def decorate(rng, da, kw, p_any=0.5):
    """Attach auxiliary per-point coordinates, scalar coordinates and masks to a series, under names that
    collide with every name find_plateaus uses or creates, and choose the output dimension among the
    names that exist in the input.  Returns (da, kw, description); the series itself is untouched."""
    if rng.random() >= p_any:
        return da, kw, 'plain'
    da = da.copy()
    kw = dict(kw)
    dim, n = da.dim, da.sizes[da.dim]
    r = rng.random()
    if 'plateau_dim' not in kw and r < 0.30:
        kw['plateau_dim'] = _pick(rng, ['custom', 'p', 'time', 't', 'data', 'group', 'x'])
    elif r < 0.36:
        kw['plateau_dim'] = dim
    pdim = kw.get('plateau_dim', 'plateau')
    pool = [pdim, pdim, pdim, 'plateau', dim + '_', *USED_NAMES]
    tags = []
    taken = set(da.coords.keys())
    # a series-wide (scalar) coordinate / mask
    if rng.random() < 0.25:
        name = _pick(rng, pool + ['scalar', 'sample'])
        if name not in taken and name != dim:
            da.coords[name] = _scalar_aux(rng)
            taken.add(name)
            tags.append('scalar')
    # per-point coordinates
    for _ in range(int(_pick(rng, [0, 1, 1, 2, 3, 6]))):
        name = _pick(rng, pool)
        if name in taken or name == dim:
            continue
        da.coords[name] = _aux_values(rng, _pick(rng, AUX_KINDS), dim, n)
        taken.add(name)
        tags.append('aux')
    # masks (their names live in a namespace of their own: the data dimension is a legal name)
    if rng.random() < 0.22:
        for _ in range(int(_pick(rng, [1, 1, 2]))):
            name = _pick(rng, [*pool, dim])
            da.masks[name] = sc.array(dims=[dim], values=rng.random(n) < 0.3, unit=None)
        tags.append('mask')
    if rng.random() < 0.06:
        da.masks[_pick(rng, [pdim, 'bad', dim])] = sc.scalar(bool(rng.random() < 0.5))
        tags.append('scalar_mask')
    return da, kw, '+'.join(sorted(set(tags))) or 'plain'


def collision_cases(rng):
    """The enumerated part: one clean series (exactly constant levels, so the drift guard cannot fire),
    presented with every combination of output-dimension choice and colliding attachment."""
    dim = _pick(rng, DIMS)
    lens = [int(_pick(rng, [3, 4, 6, 9])) for _ in range(int(rng.integers(2, 5)))]
    # isolated points between the levels: every level is bounded by two steep slopes
    level = np.concatenate([np.r_[np.full(ln, 16.0 * (2 * i + 1) * (-1) ** i), 1000.0 * (i + 1)]
                            for i, ln in enumerate(lens)])
    n = len(level)
    x = np.cumsum(rng.choice([1.0, 2.0, 3.0], size=n))
    base = sc.DataArray(sc.array(dims=[dim], values=level, unit='Hz'),
                        coords={dim: sc.array(dims=[dim], values=x, unit='s')})
    kw0 = {'atol': sc.scalar(0.25, unit='Hz/s'), 'min_n_points': int(_pick(rng, [1, 2, 3]))}
    aux_names = ['setpoint', 'custom']
    out = []
    for pd in (None, 'custom', dim, 'setpoint', 'group'):
        kw = dict(kw0) if pd is None else dict(kw0, plateau_dim=pd)
        pdim = pd or 'plateau'
        # (1) every used name at once as a per-point coordinate, one dtype kind after the other
        da = base.copy()
        names = [nm for nm in dict.fromkeys([pdim, 'plateau', *aux_names, *USED_NAMES]) if nm != dim]
        for j, nm in enumerate(names):
            da.coords[nm] = _aux_values(rng, AUX_KINDS[j % len(AUX_KINDS)], dim, n)
        for nm in (pdim, dim, 'plateau', 'm'):
            da.masks[nm] = sc.array(dims=[dim], values=rng.random(n) < 0.3, unit=None)
        da.masks['whole'] = sc.scalar(False)
        da.coords['whole'] = _scalar_aux(rng)
        out.append((da, kw, f'all names, plateau_dim={"default" if pd is None else "data dim" if pd == dim else pd}'))
        # (2) only the one coordinate that is named like the output dimension
        if pdim != dim:
            da = base.copy()
            da.coords[pdim] = _aux_values(rng, _pick(rng, AUX_KINDS), dim, n)
            out.append((da, kw, 'single colliding coordinate'))
        # (3) a series-wide coordinate of that name (documented nowhere: observed, counted)
            da = base.copy()
            da.coords[pdim] = _scalar_aux(rng)
            da.coords['other'] = _scalar_aux(rng)
            out.append((da, kw, 'scalar coordinate named like the output dimension'))
    return out, dim


# ---- coordinate ties and non-finite data values -------------------------------------------------------
# "Ascending" coordinates include equal neighbours (scipp's issorted(..., 'ascending') accepts them; a log
# entry written twice is the everyday case).  Repeating a point leaves every other slope of the series what
# it was, so the tolerance classes (slope == atol, +-1 ulp) of the series survive the insertion.
def _repeat_points(da, idx, new_values=None):
    """The series with its points taken at ``idx`` (non-decreasing indices = repeated entries); every
    per-point coordinate / mask / variance follows its point; ``new_values`` {position: value} then
    overwrites data values (a repeated time stamp with a different reading)."""
    out = da[da.dim, [int(i) for i in idx]].copy()
    if new_values:
        v = out.values
        for pos, val in new_values.items():
            v[pos] = val
    return out


def _other_value(y, j, rng):
    """A data value of the dtype of y that differs from y[j] (taken from the series if it has one)."""
    cand = np.flatnonzero(y != y[j])
    if len(cand):
        return y[int(_pick(rng, cand))]
    return y[j] + y.dtype.type(1)


def inject_ties(rng, da, p_any=0.2):
    """Random part: repeated entries (same or different reading, single or several in a row, anywhere incl.
    both ends) and NaN / +-inf readings in a generated series.  Returns (da, tag)."""
    if rng.random() >= p_any:
        return da, 'none'
    dim, n = da.dim, da.sizes[da.dim]
    y = np.asarray(da.values)
    isf = y.dtype.kind == 'f'
    mode = _pick(rng, ['same', 'same', 'same', 'diff', 'mixed', 'mixed', 'nan', 'nan+same', 'inf'])
    if not isf and mode in ('nan', 'nan+same', 'inf'):
        mode = 'same'
    m = int(_pick(rng, [1, 1, 2, 3, 8]))
    sites = []
    for _ in range(m):
        r = rng.random()
        sites.append(0 if r < 0.15 else n - 1 if r < 0.30 else int(rng.integers(0, n)))
    sites = sorted(set(sites))
    if mode in ('nan', 'inf', 'nan+same'):
        da = da.copy()
        v = da.values
        for j in sites:
            v[j] = np.nan if mode != 'inf' else float(_pick(rng, [np.inf, -np.inf]))
            if rng.random() < 0.3 and j + 1 < n:
                v[j + 1] = v[j]
        if mode != 'nan+same':
            return da, mode
        y = np.asarray(da.values)
    counts = np.ones(n, dtype=np.int64)
    for j in sites:
        counts[j] += int(_pick(rng, [1, 1, 1, 2, 4]))
    idx = np.repeat(np.arange(n), counts)
    new_values = {}
    if mode in ('diff', 'mixed'):
        first = np.concatenate([[0], np.cumsum(counts)[:-1]])
        for j in sites:
            for c in range(1, int(counts[j])):
                if mode == 'diff' or rng.random() < 0.5:
                    new_values[int(first[j]) + c] = _other_value(y, j, rng)
    return _repeat_points(da, idx, new_values), mode


_TIE_Y = {'float64': ['float64', 'int64', 'float32'], 'float32': ['float32', 'float64'],
          'int64': ['float64', 'int64'], 'datetime64': ['float64', 'int64']}


def _tie_base(rng, xk, yk):
    """Exactly constant levels of 2..6 points separated by one far-away point each (every level is bounded
    by two steep slopes; the drift guard cannot fire), irregular coordinate steps."""
    dim = _pick(rng, DIMS)
    lens = [int(_pick(rng, [2, 3, 4, 6])) for _ in range(3)]
    vals, starts = [], []
    for i, ln in enumerate(lens):
        starts.append(len(vals))
        vals += [16 * (2 * i + 1) * (-1) ** i] * ln
        if i < len(lens) - 1:
            vals.append(1000 * (i + 1))
    k = np.array(vals, dtype=np.int64)
    n = len(k)
    jx = np.concatenate([[0], np.cumsum(rng.choice([1, 2, 3, 7], size=n - 1))]).astype(np.int64)
    if xk in ('float64', 'float32'):
        h = 2.0 ** int(rng.integers(-8, 9))
        cu = _pick(rng, COORD_UNITS)
        xvar = sc.array(dims=[dim], values=(float(rng.integers(-1000, 1000)) * h + jx * h).astype(xk),
                        unit=cu, dtype=xk)
    elif xk == 'int64':
        cu = _pick(rng, COORD_UNITS)
        xvar = sc.array(dims=[dim], values=int(rng.integers(-10**6, 10**6)) + jx * int(_pick(rng, [1, 2, 10])),
                        unit=cu, dtype='int64')
    else:
        cu = _pick(rng, DT_UNITS)
        x0 = {'ns': 1_700_000_000_000_000_000, 'us': 1_700_000_000_000_000, 'ms': 1_700_000_000_000,
              's': 1_700_000_000}[cu] + int(rng.integers(-10**6, 10**6))
        xvar = sc.array(dims=[dim], values=(x0 + jx * int(_pick(rng, [1, 5, 250]))).astype(f'datetime64[{cu}]'),
                        unit=cu)
    du = _pick(rng, DATA_UNITS)
    if yk == 'int64':
        yv = k * int(_pick(rng, [1, 1, 3]))
    else:
        yv = (k.astype(np.float64) * 2.0 ** int(rng.integers(-10, 6))).astype(yk)
    coords = {dim: xvar}
    if rng.random() < 0.5:   # something attached to every point: it has to follow its point
        coords['entry'] = sc.arange(dim, n, unit=None)
    da = sc.DataArray(sc.array(dims=[dim], values=yv, unit=du, dtype=yk), coords=coords)
    longest = int(np.argmax(lens))
    pos = {'start': 0, 'end': n - 1, 'mid': starts[longest] + lens[longest] // 2,
           'level_first': starts[1], 'level_last': starts[1] + lens[1] - 1, 'isolated': starts[1] - 1}
    return da, pos, (starts[longest], lens[longest]), du, cu


def _tie_kw(rng, da, du, cu, at, a=None):
    """Tolerance (0 / tiny, float or int, in the derivative unit or a scaled one) and min_n_points aimed at the
    length of the run that holds position ``at`` (expected runs come from the model, not from the package)."""
    dim = da.dim
    yk, xk = str(da.dtype), str(da.coords[dim].dtype)
    a0 = float(_pick(rng, [0.0, 0.0, 2.0 ** -30, 2.0 ** -12]))
    given = a is not None
    a = a0 if a is None else float(a)
    aunit = sc.Unit(du) / sc.Unit(cu)
    F = Fraction(1)
    if rng.random() < 0.25 and not given:
        u2 = sc.Unit(_pick(rng, _SAME_DIM[du])) / sc.Unit(_pick(rng, _SAME_DIM.get(cu, [cu])))
        F2 = M.derivative_factor(u2, sc.Unit(du), sc.Unit(cu))
        if F2 is not None:
            aunit, F = u2, F2
    if a == 0.0 and 'float32' not in (xk, yk) and rng.random() < 0.4:
        atol = sc.scalar(0, unit=aunit, dtype='int64')
    else:
        atol = sc.scalar(a, unit=aunit)     # the levels are exactly constant: no slope is near a * F
    with np.errstate(all='ignore'):
        s = np.abs(M.slopes(np.asarray(da.values), np.asarray(da.coords[dim].values)))
        runs = M.runs_from_breaks(s > np.float64(float(Fraction(a) * F)), da.sizes[dim], 1)
    ln = next((b - a_ for a_, b in runs if a_ <= at < b), 1)
    mn = int(_pick(rng, [ln, ln, ln, 1, 2, ln + 1, max(1, ln - 1), (ln + 3) // 2]))
    mn = max(1, min(mn, da.sizes[dim]))
    r = rng.random()
    mnv = sc.index(mn) if r < 0.2 else np.int64(mn) if r < 0.3 else mn
    return {'atol': atol, 'min_n_points': mnv}


def tie_cases(rng):
    """The enumerated part: for every coordinate kind (and a float and a free data kind each) one clean
    series presented with a repeated entry at every kind of position (first point, last point, inside a level,
    first / last point of a level, the isolated point between two levels) x (same reading = 0/0 slope; the
    same several times; a different reading = infinite slope; both next to each other), two ties in one
    level, every entry twice, all coordinate values equal; and NaN / +-inf readings at the same positions."""
    out = []
    for xk in X_KINDS:
        for yk in (_TIE_Y[xk][0], _pick(rng, _TIE_Y[xk])):
            da, pos, (l0, ln0), du, cu = _tie_base(rng, xk, yk)
            dim, n = da.dim, da.sizes[da.dim]
            y = np.asarray(da.values)
            with np.errstate(all='ignore'):
                s0 = np.abs(M.slopes(y, np.asarray(da.coords[dim].values))).astype(np.float64)
            # a tolerance well above 0 and a quarter of the smallest jump slope: a repeated time stamp with a
            # reading that differs by the smallest possible amount is still an infinite slope
            wide = float(np.min(s0[s0 > 0])) / 4.0
            for pname, j in pos.items():
                for kind in ('same', 'same_run', 'diff', 'diff_least', 'mixed'):
                    reps = {'same': 1, 'same_run': int(_pick(rng, [2, 3, 5])), 'diff': 1, 'diff_least': 1,
                            'mixed': 2}[kind]
                    counts = np.ones(n, dtype=np.int64)
                    counts[j] += reps
                    new = {}
                    other = _other_value(y, j, rng)
                    if kind == 'diff':
                        new[j + 1] = other
                    elif kind == 'diff_least':
                        new[j + 1] = y[j] + 1 if y.dtype.kind == 'i' else np.nextafter(
                            y[j], y.dtype.type(_pick(rng, [-np.inf, np.inf])))
                    elif kind == 'mixed':
                        if rng.random() < 0.5:
                            new[j + 2] = other                  # 0/0 then dy/0
                        else:
                            new[j + 1] = new[j + 2] = other     # dy/0 then 0/0
                    d2 = _repeat_points(da, np.repeat(np.arange(n), counts), new)
                    out.append((d2, _tie_kw(rng, d2, du, cu, j, a=wide if kind == 'diff_least' else None),
                                f'{kind} at {pname}'))
            counts = np.ones(n, dtype=np.int64)
            counts[l0] += 1
            counts[l0 + ln0 - 1] += 1
            d2 = _repeat_points(da, np.repeat(np.arange(n), counts))
            out.append((d2, _tie_kw(rng, d2, du, cu, l0), 'two ties in one level'))
            d2 = _repeat_points(da, np.repeat(np.arange(n), 2))
            out.append((d2, _tie_kw(rng, d2, du, cu, 2 * l0), 'every entry twice'))
            d2 = da.copy()
            d2.coords[dim].values[...] = d2.coords[dim].values[int(rng.integers(0, n))]
            out.append((d2, _tie_kw(rng, d2, du, cu, l0), 'all coordinate values equal'))
            if y.dtype.kind != 'f':
                continue
            for pname, j in pos.items():
                d2 = da.copy()
                d2.values[j] = np.nan
                out.append((d2, _tie_kw(rng, d2, du, cu, l0), f'nan at {pname}'))
            for bad, label in ((np.nan, 'nan'), (np.inf, 'inf'), (-np.inf, 'inf')):
                j = pos[_pick(rng, list(pos))]
                d2 = da.copy()
                d2.values[j] = bad
                if rng.random() < 0.5 and j + 1 < n:
                    d2.values[j + 1] = bad
                out.append((d2, _tie_kw(rng, d2, du, cu, l0), f'{label} anywhere'))
            # a NaN reading that is itself a repeated entry (NaN/0), and one next to a repeated entry
            j = pos['mid']
            counts = np.ones(n, dtype=np.int64)
            counts[j] += 1
            d2 = _repeat_points(da, np.repeat(np.arange(n), counts), {j: np.nan, j + 1: np.nan})
            out.append((d2, _tie_kw(rng, d2, du, cu, j), 'nan repeated'))
            d2 = _repeat_points(da, np.repeat(np.arange(n), counts), {j + 1: np.nan})
            out.append((d2, _tie_kw(rng, d2, du, cu, j), 'nan at a tie'))
    return out


# ---- collapse along every per-point coordinate; calling conventions; second use ------------------------
# collapse_plateaus(..., coord=<name>) forms the interval of ANY per-point coordinate the plateaus carry.  Only the
# dimension-coordinate is ordered; every other one (a phase, a temperature, a set point, a second clock) takes
# its values in any order inside a plateau.  The enumerated part presents every dtype kind x every shape of
# the values inside a plateau.
AUX_COLLAPSE_KINDS = ('float64', 'float32', 'int64', 'int32', 'datetime64', 'float64+var')
AUX_PATTERNS = ('random', 'descending', 'peak_inside', 'valley_inside', 'max_first_min_last', 'negative',
                'constant', 'ascending')


def _level_base(rng, xk, yk, dim=None, variances=False, n_levels=3):
    """Levels of 3..9 points with grid noise far below the tolerance, one far-away point between two levels,
    irregular ascending coordinate steps.  Returns (da, kw, levels=[(start, length)])."""
    dim = _pick(rng, DIMS) if dim is None else dim
    lens = [int(_pick(rng, [3, 4, 5, 6, 9])) for _ in range(n_levels)]
    vals, levels = [], []
    for i, ln in enumerate(lens):
        levels.append((len(vals), ln))
        vals += [64 * (2 * i + 1) * (-1) ** i + int(rng.integers(-1, 2)) for _ in range(ln)]
        if i < len(lens) - 1:
            vals.append(4000 * (i + 1))
    k = np.array(vals, dtype=np.int64)
    n = len(k)
    jx = np.concatenate([[0], np.cumsum(rng.choice([1, 2, 3, 7], size=n - 1))]).astype(np.int64)
    if xk in ('float64', 'float32'):
        h = 2.0 ** int(rng.integers(-6, 7))
        cu = _pick(rng, COORD_UNITS)
        xvar = sc.array(dims=[dim], values=(float(rng.integers(-500, 500)) * h + jx * h).astype(xk), unit=cu, dtype=xk)
    elif xk == 'int64':
        h = int(_pick(rng, [1, 2, 10]))
        cu = _pick(rng, COORD_UNITS)
        xvar = sc.array(dims=[dim], values=int(rng.integers(-10**6, 10**6)) + jx * h, unit=cu, dtype='int64')
    else:
        h = int(_pick(rng, [1, 5, 250]))
        cu = _pick(rng, DT_UNITS)
        x0 = {'ns': 1_700_000_000_000_000_000, 'us': 1_700_000_000_000_000, 'ms': 1_700_000_000_000,
              's': 1_700_000_000}[cu] + int(rng.integers(-10**6, 10**6))
        xvar = sc.array(dims=[dim], values=(x0 + jx * h).astype(f'datetime64[{cu}]'), unit=cu)
    du = _pick(rng, DATA_UNITS)
    if yk == 'int64':
        g = 1
        yv = k.copy()
    else:
        g = 2.0 ** int(rng.integers(-10, 6))
        yv = (k.astype(np.float64) * g).astype(yk)
    var = (rng.random(n) + 0.5).astype(yk) if variances and yk != 'int64' else None
    da = sc.DataArray(sc.array(dims=[dim], values=yv, variances=var, unit=du, dtype=yk), coords={dim: xvar})
    # noise of +-1 grid unit over steps of at least h: slopes up to 2 g/h, total drift up to 2 g/h; jumps are
    # at least 3000 g over at most 7 h.  All exactly representable (dyadic grid).
    atol = sc.scalar(8.0 * float(g) / float(h), unit=sc.Unit(du) / sc.Unit(cu))
    return da, {'atol': atol, 'min_n_points': int(_pick(rng, [1, 2, 3]))}, levels


def _pattern_values(rng, pattern, n, levels):
    """Integer shape of an auxiliary coordinate: inside every level the values follow ``pattern``."""
    q = rng.integers(-50, 50, size=n)
    for a, ln in levels:
        r = rng.permutation(ln) * int(_pick(rng, [1, 3])) + int(rng.integers(-20, 20))
        if pattern == 'random':
            v = r
            if np.all(v[1:] >= v[:-1]):
                v = v[::-1]
        elif pattern == 'descending':
            v = np.sort(r)[::-1]
        elif pattern == 'ascending':
            v = np.sort(r)
        elif pattern == 'peak_inside':
            v = np.sort(r)
            v = np.concatenate([v[:-1][::2], v[-1:], v[:-1][1::2][::-1]]) if ln >= 3 else v[::-1]
            if rng.random() < 0.5:          # first point above / below the last one
                v = v[::-1]
        elif pattern == 'valley_inside':
            v = np.sort(r)[::-1]
            v = np.concatenate([v[:-1][::2], v[-1:], v[:-1][1::2][::-1]]) if ln >= 3 else v
        elif pattern == 'max_first_min_last':
            v = np.sort(r)
            mid = rng.permutation(v[1:-1])
            v = np.concatenate([v[-1:], mid, v[:1]])
        elif pattern == 'negative':
            v = -(np.abs(r) + 1)
            if np.all(v[1:] >= v[:-1]):
                v = v[::-1]
        else:  # constant
            v = np.full(ln, int(r[0]))
        q[a:a + ln] = v
    return q.astype(np.int64)


def _aux_of_kind(rng, kind, q, dim, offset=True):
    n = len(q)
    if kind in ('float64', 'float32', 'float64+var'):
        h = 2.0 ** int(rng.integers(-8, 5))
        off = float(_pick(rng, [0.0, 0.0, 1.0, -3.5, 1000.0]))
        v = q.astype(np.float64) * h + (off if offset else 0.0)
        if kind == 'float64+var':
            return sc.array(dims=[dim], values=v, variances=rng.random(n) + 0.1, unit='deg')
        return sc.array(dims=[dim], values=v.astype(kind), unit=_pick(rng, ['deg', 'K', 'dimensionless', 'Hz']),
                        dtype=kind)
    if kind in ('int64', 'int32'):
        return sc.array(dims=[dim], values=q * int(_pick(rng, [1, 7])) + (int(_pick(rng, [0, 0, -40, 10**6]))
                                                                         if offset else 0),
                        unit=_pick(rng, ['s', 'dimensionless', 'us']), dtype=kind)
    u = _pick(rng, DT_UNITS)
    return sc.array(dims=[dim], values=(1_650_000_000 + q * int(_pick(rng, [1, 60]))).astype(f'datetime64[{u}]'),
                    unit=u)


def aux_collapse_cases(rng, index):
    """Two series per shard (the four kinds of dimension-coordinate rotate with the shard index); every series
    carries one auxiliary per-point coordinate per (dtype kind, pattern) and, when its dimension has another
    name, one named 'time' (the default of ``coord``)."""
    out = []
    for j in range(2):
        xk = X_KINDS[(2 * index + j) % 4]
        yk = _pick(rng, _TIE_Y[xk])
        da, kw, levels = _level_base(rng, xk, yk, variances=bool(rng.random() < 0.3))
        dim, n = da.dim, da.sizes[da.dim]
        names = []
        for kind in AUX_COLLAPSE_KINDS:
            for pat in AUX_PATTERNS:
                name = f'{pat} {kind}'
                da.coords[name] = _aux_of_kind(rng, kind, _pattern_values(rng, pat, n, levels), dim,
                                               offset=pat != 'negative')
                names.append(name)
        for name in ('phase', 'temperature', 'time'):
            if name != dim:
                da.coords[name] = _aux_of_kind(rng, _pick(rng, AUX_COLLAPSE_KINDS),
                                               _pattern_values(rng, _pick(rng, AUX_PATTERNS[:6]), n, levels), dim)
                names.append(name)
        if rng.random() < 0.5:
            kw['min_n_points'] = 3    # only the levels
        out.append((da, kw, names))
    return out


def rework_bins(rng, da, cname):
    """Hand-built bins in the other forms collapse_plateaus may be given: the named coordinate in no particular
    order inside the bins, a second per-point coordinate, plateaus that are not in buffer order, points that
    belong to no plateau, masked points, masked plateaus, points with variances."""
    c = da.bins.constituents
    buf = c['data'].copy()
    begin = np.asarray(c['begin'].values).astype(np.int64).copy()
    end = np.asarray(c['end'].values).astype(np.int64).copy()
    pdim = da.dim
    nb, ne = len(begin), buf.sizes['event']
    tags = []
    if ne and rng.random() < 0.5:
        v = buf.coords[cname].values
        for b0, e0 in zip(begin.tolist(), end.tolist(), strict=True):
            v[b0:e0] = v[b0:e0][rng.permutation(e0 - b0)]
        tags.append('unsorted')
    if rng.random() < 0.3:
        other = _pick(rng, [nm for nm in ('time', 't', 'x', 'phase') if nm != cname])
        buf.coords[other] = _aux_of_kind(rng, _pick(rng, AUX_COLLAPSE_KINDS), rng.integers(-99, 99, size=ne), 'event')
        if rng.random() < 0.5:
            cname = other
        tags.append('second_coord')
    if buf.dtype != sc.DType.int64 and rng.random() < 0.25:
        buf.variances = (rng.random(ne) + 0.25).astype(buf.values.dtype)
        tags.append('variances')
    if rng.random() < 0.25:
        buf.masks[_pick(rng, ['bad', cname, pdim])] = sc.array(dims=['event'], values=rng.random(ne) < 0.4, unit=None)
        tags.append('event_mask')
    if ne and rng.random() < 0.2:      # points in front of / between the plateaus that belong to none
        gap = min(int(rng.integers(1, 4)), ne)
        buf = sc.concat([buf['event', :gap], buf], 'event')
        begin, end = begin + gap, end + gap
        tags.append('gap')
    if nb > 1 and rng.random() < 0.3:
        perm = rng.permutation(nb)
        begin, end = begin[perm], end[perm]
        tags.append('order')
    binned = sc.bins(begin=sc.array(dims=[pdim], values=begin, unit=None, dtype='int64'),
                     end=sc.array(dims=[pdim], values=end, unit=None, dtype='int64'), dim='event', data=buf)
    out = sc.DataArray(binned, coords={pdim: sc.arange(pdim, nb, unit=None)})
    if rng.random() < 0.15:
        out.masks[_pick(rng, ['m', pdim, cname])] = sc.array(dims=[pdim], values=rng.random(nb) < 0.5, unit=None)
        tags.append('bin_mask')
    return out, cname, '+'.join(tags) or 'as built'



def gen_frequencies(rng):
    """Direct filter_in_phase case."""
    fk = _pick(rng, ['float64', 'float64', 'float64', 'float64', 'int64', 'float32'])
    n = int(_pick(rng, [1, 2, 5, 17, 60, 200]))
    if fk == 'int64':
        rt = float(_pick(rng, [0.1, 0.01, 1e-3, 0.3]))
        ref = int(_pick(rng, [4, 14, 60, -4, -14, 1, 7, 1000]))
        nn = rng.integers(-40, 41, size=n)
        f = np.where(rng.random(n) < 0.5, nn * ref, rng.integers(-200, 200, size=n)).astype(np.int64)
        if rng.random() < 0.5:  # exact divisors of the reference
            divs = [d for d in range(1, abs(ref) + 1) if ref % d == 0]
            sel = rng.random(n) < 0.3
            f = np.where(sel, rng.choice(divs, size=n) * rng.choice([-1, 1], size=n), f)
        refv = sc.scalar(ref, unit='Hz', dtype='int64') if rng.random() < 0.7 else sc.scalar(float(ref), unit='Hz')
        return (sc.DataArray(sc.array(dims=['t'], values=f, unit='Hz', dtype='int64')),
                refv, sc.scalar(rt))
    eps_scale = 1.0 if fk == 'float64' else 1e6
    rt = float(_pick(rng, [0.1, 0.1, 0.01, 1e-3, 1e-3, 1e-6, 1e-9 * eps_scale, 0.3, 0.6, 0.05, 2.0 ** -10]))
    ref = float(_pick(rng, [14.0, 14.0, 60.0, 0.1, 1 / 3, 50.0, 70.0, 10.0 ** rng.uniform(-3, 4)]))
    if rng.random() < 0.35:
        ref = -ref
    cls = rng.integers(0, 10, size=n)
    p = rng.choice([0.0, 0.1, -0.1, 0.49, -0.49, 2.0, -2.0, 10.0, -10.0, 0.45, 2.2, -2.2], size=n)
    nmax = int(_pick(rng, [3, 8, 30, 300]))
    nn = rng.integers(1, nmax + 1, size=n) * rng.choice([-1, 1], size=n)
    with np.errstate(all='ignore'):
        mult = (nn + p * rt) * ref                       # q = n + p rtol
        divi = ref / (nn + p * rt)                       # ref/f = n + p rtol
        tiny = ref * rt * rng.choice([1e-3, 0.1, 0.45, -0.45, 2.2, 10.0, 1e-280 / rt / abs(ref)], size=n)
        rand = ref * 10.0 ** rng.uniform(-2, 2, size=n) * rng.choice([-1, 1], size=n)
        big = ref * (rng.integers(1, 5, size=n) + rng.random(n)) / rt  # |ref/f| < rtol
    f = np.where(cls <= 2, mult, np.where(cls <= 5, divi, np.where(cls == 6, tiny, np.where(
        cls == 7, 0.0, np.where(cls == 8, rand, big)))))
    f = np.where(np.isfinite(f), f, 0.0)
    if rng.random() < 0.1:
        f[rng.integers(0, n)] = -0.0
    unit = _pick(rng, ['Hz', 'Hz', 'Hz', 'kHz', 'dimensionless', 'rad/s'])
    coords = {}
    if rng.random() < 0.6:
        coords['t'] = sc.arange('t', n, unit='s')
    if rng.random() < 0.3:
        coords['time'] = sc.array(dims=['t', 'time'], values=np.cumsum(rng.random((n, 2)), axis=None).reshape(n, 2),
                                  unit='s')
    variances = rng.random(n).astype(fk) if rng.random() < 0.1 else None
    da = sc.DataArray(sc.array(dims=['t'], values=f.astype(fk), variances=variances, unit=unit, dtype=fk),
                      coords=coords)
    runit = unit
    if rng.random() < 0.04 and unit in ('Hz', 'kHz'):
        runit = {'Hz': '1/min', 'kHz': 'Hz'}[unit]  # mixed units: observed, not judged
    refv = sc.scalar(ref, unit=runit, dtype='float32' if fk == 'float32' and rng.random() < 0.5 else 'float64')
    return da, refv, sc.scalar(rt)


def gen_bins(rng):
    """Hand-built plateau bins for a direct collapse_plateaus call (edge coordinates)."""
    xk = _pick(rng, ['float64', 'int64', 'datetime64', 'float32'])
    nb = int(_pick(rng, [0, 1, 1, 2, 5, 20]))
    sizes = rng.choice([1, 1, 2, 3, 10, 60], size=nb).astype(np.int64)
    ne = int(sizes.sum())
    j = np.cumsum(rng.choice([1, 1, 2, 7, 1000], size=ne)).astype(np.int64) if ne else np.zeros(0, np.int64)
    edge = _pick(rng, ['ordinary', 'upper', 'lower', 'zero', 'subnormal'])
    if xk in ('float64', 'float32'):
        fi = np.finfo(xk)
        if edge == 'upper':          # the last points are the largest finite numbers
            xv = np.full(ne, fi.max, dtype=xk)
            for i in range(ne - 1, -1, -1):
                xv[i] = fi.max if i == ne - 1 else np.nextafter(xv[i + 1], np.array(-np.inf, dtype=xk))
        elif edge == 'lower':
            xv = np.full(ne, -fi.max, dtype=xk)
            for i in range(1, ne):
                xv[i] = np.nextafter(xv[i - 1], np.array(np.inf, dtype=xk))
        elif edge == 'zero':         # a bin whose maximum is -0.0 / 0.0 / the largest negative number
            xv = (j - (j[-1] if ne else 0)).astype(xk) * xk_type(xk)(2.0 ** -3)
            if ne and rng.random() < 0.5:
                xv[-1] = -0.0
        elif edge == 'subnormal':
            xv = (j.astype(np.float64) * float(fi.smallest_subnormal)).astype(xk)
        else:
            xv = (j.astype(np.float64) * 2.0 ** int(rng.integers(-30, 30))
                  + float(rng.integers(-10**6, 10**6))).astype(xk)
        xvar = sc.array(dims=['event'], values=xv, unit=_pick(rng, ['s', 'ms', 'm']), dtype=xk)
    elif xk == 'int64':
        if edge == 'upper':
            # INT64_MAX - 1 has an upper neighbour; INT64_MAX itself has none (counted, not judged)
            xv = (np.iinfo(np.int64).max - int(rng.random() < 0.8) - (j[-1] - j if ne else j))
        elif edge == 'lower':
            xv = np.iinfo(np.int64).min + j
        elif edge == 'zero':
            xv = j - (j[-1] if ne else 0) - int(rng.integers(0, 2))
        else:
            xv = j + int(rng.integers(-10**9, 10**9))
        xvar = sc.array(dims=['event'], values=xv.astype(np.int64), unit=_pick(rng, ['s', 'us', 'dimensionless']),
                        dtype='int64')
    else:
        u = _pick(rng, DT_UNITS)
        if edge == 'upper':
            xv = (np.iinfo(np.int64).max - 1 - (j[-1] - j if ne else j))
        elif edge == 'lower':
            xv = np.iinfo(np.int64).min + 1 + j   # min itself is NaT
        elif edge == 'zero':
            xv = j - (j[-1] if ne else 0) - int(rng.integers(0, 2))
        else:
            xv = j + 1_700_000_000
        xvar = sc.array(dims=['event'], values=xv.astype(np.int64).astype(f'datetime64[{u}]'), unit=u)
    yk = _pick(rng, ['float64', 'float64', 'int64', 'float32'])
    if yk == 'int64':
        yv = rng.integers(-10**6, 10**6, size=ne)
    else:
        yv = (float(_pick(rng, [0.0, 1.0, -14.0, 1e6, 1e-6])) + rng.normal(size=ne)
              * float(_pick(rng, [0.0, 1e-3, 1.0, 1e3]))).astype(yk)
    cname = _pick(rng, ['time', 'time', 't', 'x'])
    buf = sc.DataArray(sc.array(dims=['event'], values=yv, unit=_pick(rng, ['Hz', 'deg', 'dimensionless']), dtype=yk),
                       coords={cname: xvar})
    end = np.cumsum(sizes)
    pdim = _pick(rng, ['plateau', 'plateau', 'p'])
    binned = sc.bins(begin=sc.array(dims=[pdim], values=end - sizes, unit=None, dtype='int64'),
                     end=sc.array(dims=[pdim], values=end, unit=None, dtype='int64'), dim='event', data=buf)
    da = sc.DataArray(binned, coords={pdim: sc.arange(pdim, nb, unit=None)})
    return da, cname, edge


def xk_type(xk):
    return np.float64 if xk == 'float64' else np.float32


# ------------------------------------------------------------------ driver ---
def plan(tier, seed):
    if tier == 'quick':
        return [{'series': 125, 'filters': 60, 'bins': 30, 'tie_rounds': 1} for _ in range(16)]
    return [{'series': 6250, 'filters': 2500, 'bins': 1200, 'tie_rounds': 25} for _ in range(16)]


def requirements(tier):
    k = 1 if tier == 'quick' else 40
    return {
        'events': {'find_plateaus': 1200 * k, 'collapse_plateaus': 1200 * k, 'filter_in_phase': 1200 * k,
                   'collapse_plateaus:variance of the mean': 100 * k},
        'counters': {'filter.elements_decided': 10000 * k,
                     'collapse.plateaus_judged_along_an_auxiliary_coordinate': 3000 * k,
                     'find.refused:dimension-coordinate with variances (VariancesError)': 1,
                     'find.judged_with_coordinate_ties': 2500 if tier == 'quick' else 60000,
                     'find.judged_with_nan_data': 500 if tier == 'quick' else 12000},
        'forced': [
            'slope == atol exactly', 'slope == atol + 1 ulp', 'slope == atol - 1 ulp',
            'atol in a scaled unit', 'min_n_points = 1', 'min_n_points = n', 'min_n_points as Variable',
            'run of exactly min_n_points points', 'single-point plateau', 'plateau at the very start',
            'plateau at the very end', 'all points one plateau', 'no plateau at all',
            'coordinate float64', 'coordinate float32', 'coordinate int64', 'coordinate datetime64',
            'collapse coordinate float64', 'collapse coordinate int64', 'collapse coordinate datetime64',
            'collapse coordinate float32',
            'frequency exactly 0 (decided keep: 0 = 0 x ref)', 'negative frequency', 'negative reference',
            'tiny frequency (|f/ref| < rtol/2)', 'integer multiple (|n| >= 2)',
            'integer divisor only (multiple test fails)', 'out of phase (decided remove)',
            'in situ: find -> collapse -> filter',
            'aux coordinate carried', 'aux coordinate named like the default output dimension',
            'aux coordinate named like a user-given plateau_dim', 'plateau_dim equal to the data dimension',
            'aux coordinate of non-numeric dtype', 'aux coordinate with variances',
            'per-point mask carried', 'mask named like the output or data dimension',
            'scalar coordinate carried', 'scalar mask carried',
            'coordinate tie with equal data (0/0 slope: no break)',
            'coordinate tie with different data (infinite slope: a break)',
            '0/0 slope next to an infinite slope',
            'coordinate tie at the very start', 'coordinate tie at the very end', 'coordinate tie in the middle',
            'several coordinate ties in a row', 'all coordinate values equal',
            'coordinate tie in a float64 coordinate', 'coordinate tie in a float32 coordinate',
            'coordinate tie in a int64 coordinate', 'coordinate tie in a datetime64 coordinate',
            '0/0 slope in a float64 coordinate', '0/0 slope in a float32 coordinate',
            '0/0 slope in a int64 coordinate', '0/0 slope in a datetime64 coordinate',
            'NaN slope inside a returned plateau', 'plateau reaching min_n_points only across a NaN slope',
            'NaN data value inside a series', 'NaN data value at a coordinate tie',
            'infinite data value inside a series',
            # collapse along any per-point coordinate
            'collapse along a coordinate that is not the dimension-coordinate',
            *['collapse along an auxiliary ' + k_ + ' coordinate' for k_ in COLLAPSE_X_KINDS],
            'collapse coordinate int32', 'collapse coordinate with variances',
            'collapse coordinate not ascending within a plateau',
            'collapse coordinate not ascending within a plateau (pipeline)',
            'collapse coordinate not ascending within a plateau (direct)',
            *['not ascending within a plateau: ' + k_ for k_ in COLLAPSE_X_KINDS],
            'minimum of a plateau at an interior point only', 'maximum of a plateau at an interior point only',
            'minimum of a plateau at its last point', 'maximum of a plateau at its first point',
            'first point of a plateau above its last point', 'not ascending within a plateau, all values negative',
            'collapse: plateaus not in buffer order', 'collapse: points in the buffer that belong to no plateau',
            'collapse of points with variances', 'collapse of plateaus with masked points',
            'collapse of masked plateaus',
            'find: the dimension-coordinate is not the only per-point coordinate',
            # calling conventions, stand-in types, names, variances, masks, second use
            'find_plateaus with every argument by keyword', 'collapse_plateaus with every argument by keyword',
            'filter_in_phase with every argument by keyword',
            'collapse: coord given as a str subclass (np.str_ / (str, Enum))',
            'plateau_dim given as a str subclass (np.str_ / (str, Enum))',
            'min_n_points as numpy integer (int64)', 'min_n_points as numpy integer (int32)',
            'min_n_points as an int subclass (IntEnum member)',
            'find: data dimension named like a name used inside scipp / the package',
            'filter: dimension named like a name used inside scipp / the package',
            'find: data with variances (ignored for the comparison)', 'find: atol with a variance',
            'filter: frequencies with a per-element mask',
            'filter: a masked element that is in phase (kept, with its flag)',
            'second use: filtered result filtered again',
            'second use: the same series searched again, and again after refused calls',
            'second use: the same plateaus collapsed again along another coordinate, after display / copies',
            'second use: the points of a returned plateau searched again',
        ],
    }


def run(shard, ctx):
    from scippneutron.chopper import collapse_plateaus, filter_in_phase, find_plateaus

    bad = si.self_test()
    if bad:
        ctx.inconclusive_because('unit table cross-check failed: ' + '; '.join(bad))
        return
    def stream(part, i):
        # one stream per case: the workload does not depend on what the code under test returned
        return np.random.Generator(np.random.PCG64([shard['seed'], shard['index'], 19, part, i]))

    tr = Tracer()
    origin = install_monitors(tr, ctx)
    with tr:
        for i in range(shard['series']):
            rng = stream(0, i)
            da, kw, meta = gen_series(rng)
            # repeated entries / non-finite readings and attachments come from streams of their own: the
            # series and tolerances stay what they were
            da, ties = inject_ties(stream(5, i), da)
            ctx.count('ties_injected:' + ties)
            da, kw, deco = decorate(stream(3, i), da, kw)
            ctx.count('attachments:' + deco)
            origin['v'] = 'direct'
            before = ctx.n_violations
            plateaus = None
            try:
                plateaus = find_plateaus(da, **kw)
            except Exception:  # noqa: BLE001  (judged by the monitor through PY_UNWIND)
                pass
            ctx.count('series:' + meta['kind'])
            ctx.count('atol_mode:' + meta['mode'])
            if i < 2 or (ctx.n_violations > before and len(ctx.samples) < 6):
                ctx.sample({'function': 'find_plateaus', 'kind': meta['kind'], 'atol_mode': meta['mode'],
                            'n': da.sizes[da.dim], 'data': _descr(da.data), 'coord': _descr(da.coords[da.dim]),
                            'atol': _descr(kw['atol']), 'min_n_points': repr(kw['min_n_points'])})
            if plateaus is None:
                continue
            origin['v'] = 'pipeline'
            collapsed = None
            try:
                collapsed = collapse_plateaus(plateaus, coord=meta['dim'])
            except Exception:  # noqa: BLE001
                pass
            # ... and along (up to two of) the other per-point coordinates the plateaus carry, whatever their dtype
            try:
                others = [str(nm) for nm, co in plateaus.bins.coords.items()
                          if nm != meta['dim'] and nm != plateaus.dim]
            except Exception:  # noqa: BLE001
                others = []
            r8 = stream(8, i)
            for nm in (list(r8.permutation(others))[:2] if others else []):
                try:
                    collapse_plateaus(plateaus, coord=str(nm))
                except Exception:  # noqa: BLE001  (judged or counted by the monitor)
                    pass
            if collapsed is None or collapsed.sizes[collapsed.dim] == 0:
                continue
            # the collapsed values as frequencies against a reference derived from one of them
            try:
                v = np.asarray(collapsed.values, dtype=np.float64)
                nz = v[v != 0]
                if len(nz) == 0:
                    continue
                base = float(_pick(rng, nz))
                ref = base * float(_pick(rng, [1.0, 1.0, 2.0, 0.5, 3.0, 1 / 3, -1.0]))
                rt = float(_pick(rng, [0.1, 1e-2, 1e-3, 1e-5, 1e-7]))
                filter_in_phase(collapsed, reference=sc.scalar(ref, unit=collapsed.unit), rtol=sc.scalar(rt))
                ctx.hit('in situ: find -> collapse -> filter')
            except Exception:  # noqa: BLE001
                pass
        origin['v'] = 'direct'
        cases, cdim = collision_cases(stream(4, 0))
        for da, kw, label in cases:
            ctx.count('collision_case:' + label.split(',')[0])
            origin['v'] = 'direct'
            plateaus = None
            try:
                plateaus = find_plateaus(da, **kw)
            except Exception:  # noqa: BLE001  (judged by the monitor)
                pass
            if plateaus is not None:
                origin['v'] = 'pipeline'
                try:
                    collapse_plateaus(plateaus, coord=cdim)
                except Exception:  # noqa: BLE001
                    pass
        for rnd in range(shard.get('tie_rounds', 1)):
            for da, kw, label in tie_cases(stream(6, rnd)):
                ctx.count('tie_case:' + label)
                origin['v'] = 'direct'
                plateaus = None
                try:
                    plateaus = find_plateaus(da, **kw)
                except Exception:  # noqa: BLE001  (judged by the monitor)
                    pass
                if plateaus is not None:
                    origin['v'] = 'pipeline'
                    try:
                        collapse_plateaus(plateaus, coord=da.dim)
                    except Exception:  # noqa: BLE001
                        pass
        origin['v'] = 'direct'
        try:
            run_usage(ctx, shard, stream, origin)
        except Exception:  # noqa: BLE001
            ctx.oracle_error('C19 usage sequences (harness)')
        origin['v'] = 'direct'
        for i in range(shard['filters']):
            da, ref, rtol = gen_frequencies(stream(1, i))
            try:
                filter_in_phase(da, reference=ref, rtol=rtol)
            except Exception:  # noqa: BLE001
                pass
            if i < 1:
                ctx.sample({'function': 'filter_in_phase', 'frequency': _descr(da.data),
                            'reference': _descr(ref), 'rtol': _descr(rtol)})
        for i in range(shard['bins']):
            da, cname, edge = gen_bins(stream(2, i))
            ctx.count('bins_edge:' + edge)
            if i % 2:
                da, cname, form = rework_bins(stream(7, i), da, cname)
                for tag in form.split('+'):
                    ctx.count('bins_form:' + tag)
            try:
                collapse_plateaus(da, coord=cname)
            except Exception:  # noqa: BLE001
                pass
    for name in ('_derive', '_check_total_tolerance', '_next_highest', '_is_approximate_multiple'):
        ctx.count('helper.' + name, tr.counts.get(name, 0))


def run_usage(ctx, shard, stream, origin):
    """Deterministic part of every shard: collapse along every per-point coordinate; every calling convention
    of the three signatures; numpy / enum stand-ins for the documented int / str arguments; data dimensions
    named like names used inside the implementation; variances and masks on the input; second use of objects
    and results, calls repeated after an exception, display / copies between two calls."""
    import copy
    import enum

    from scippneutron.chopper import collapse_plateaus, filter_in_phase, find_plateaus

    class Count(enum.IntEnum):
        two = 2
        three = 3

    class Name(str, enum.Enum):
        time = 'time'
        out = 'pl'
        phase = 'phase'

    def call(f, *a, **k):
        try:
            return f(*a, **k)
        except Exception:  # noqa: BLE001  (judged or counted by the monitor)
            return None

    def with_aux(rng, da, levels, names=('phase',)):
        n = da.sizes[da.dim]
        for nm in names:
            if nm != da.dim:
                da.coords[nm] = _aux_of_kind(rng, _pick(rng, AUX_COLLAPSE_KINDS[:5]),
                                             _pattern_values(rng, _pick(rng, AUX_PATTERNS[:6]), n, levels), da.dim)
        return da

    # ---- (K) every per-point coordinate of the plateaus, each dtype kind x each order inside a plateau
    for da, kw, _names in aux_collapse_cases(stream(9, 0), shard['index']):
        origin['v'] = 'direct'
        pl = call(find_plateaus, da, **kw)
        if pl is None:
            ctx.count('usage:aux matrix series refused')
            continue
        origin['v'] = 'pipeline'
        for nm in [str(k_) for k_ in pl.bins.coords.keys()]:
            call(collapse_plateaus, pl, coord=nm)
        if 'time' in pl.bins.coords:
            call(collapse_plateaus, pl)                       # the default of coord
            ctx.count('usage:collapse with the default coord')
    origin['v'] = 'usage'
    rng = stream(9, 1)
    # ---- calling conventions and stand-in argument types
    da, kw, levels = _level_base(rng, 'float64', 'float64', dim='time')
    da = with_aux(rng, da, levels)
    pl = call(find_plateaus, data=da, atol=kw['atol'], min_n_points=kw['min_n_points'])
    if pl is not None:
        ctx.hit('find_plateaus with every argument by keyword')
        if call(collapse_plateaus, plateaus=pl, coord='phase') is not None:
            ctx.hit('collapse_plateaus with every argument by keyword')
        call(collapse_plateaus, pl, coord=np.str_('phase'))
        call(collapse_plateaus, pl, coord=Name.phase)
        call(collapse_plateaus, pl, coord=Name.time)
    for mn in (np.int64(2), np.int32(3), Count.two, Count.three, sc.index(2), sc.scalar(np.int32(3), unit=None)):
        call(find_plateaus, da, atol=kw['atol'], min_n_points=mn)
    for pd in (np.str_('pl'), Name.out, Name.phase):
        pl2 = call(find_plateaus, da, atol=kw['atol'], min_n_points=2, plateau_dim=pd)
        if pl2 is not None and pd != 'phase':
            call(collapse_plateaus, pl2, coord='phase')
    # ---- data dimensions named like names used inside the implementation / scipp's binning
    names = list(INTERNAL_DIMS)
    for d in [names[(shard['index'] * 5 + j) % len(names)] for j in range(5)] + ['plateau', 'event']:
        xk = _pick(rng, ['float64', 'int64', 'datetime64'])
        da2, kw2, lv2 = _level_base(rng, xk, 'float64', dim=d)
        da2 = with_aux(rng, da2, lv2, names=('phase', 'event', 'time'))
        for extra in ({}, {'plateau_dim': 'pl'}, {'plateau_dim': 'event'}):
            pl2 = call(find_plateaus, da2, **kw2, **extra)
            if pl2 is None:
                continue
            for nm in (d, 'phase', 'event', 'time'):
                if nm in pl2.bins.coords:
                    call(collapse_plateaus, pl2, coord=nm)
        fr = sc.DataArray(sc.array(dims=[d], values=[14.0, 28.0, 3.0, 7.0, 15.0, 0.0, -42.0], unit='Hz'),
                          coords={d: sc.arange(d, 7.0, unit='s')})
        call(filter_in_phase, fr, reference=sc.scalar(14.0, unit='Hz'), rtol=sc.scalar(0.01))
    # ---- variances: on the data (ignored for the comparison, propagated to the mean), on the tolerance, on the
    # dimension-coordinate (observed: refused)
    for xk, yk in (('float64', 'float64'), ('datetime64', 'float64'), ('float32', 'float32'), ('int64', 'float64')):
        da3, kw3, lv3 = _level_base(rng, xk, yk, variances=True)
        da3 = with_aux(rng, da3, lv3)
        pl3 = call(find_plateaus, da3, **kw3)
        if pl3 is not None:
            call(collapse_plateaus, pl3, coord=da3.dim)
            call(collapse_plateaus, pl3, coord='phase')
        a = kw3['atol']
        call(find_plateaus, da3, atol=sc.scalar(a.value, variance=(a.value / 3) ** 2, unit=a.unit),
             min_n_points=kw3['min_n_points'])
        if xk in ('float64', 'float32'):
            da4 = da3.copy()
            xc = da4.coords[da4.dim]
            da4.coords[da4.dim] = sc.array(dims=xc.dims, values=xc.values, variances=np.full(xc.shape, 2.0 ** -40,
                                           dtype=xc.values.dtype), unit=xc.unit, dtype=xc.dtype)
            call(find_plateaus, da4, **kw3)
    # ---- masks: per-point (inside the plateaus: their readings differ from the others), scalar, per-plateau
    for xk in ('float64', 'int64', 'datetime64'):
        da5, kw5, lv5 = _level_base(rng, xk, _pick(rng, ['float64', 'int64']))
        da5 = with_aux(rng, da5, lv5)
        n5 = da5.sizes[da5.dim]
        m = np.zeros(n5, dtype=bool)
        for a0, ln in lv5:
            m[a0 + int(rng.integers(0, ln))] = True
            if rng.random() < 0.3:
                m[a0:a0 + ln] = True          # a plateau of masked points only
        da5.masks['invalid'] = sc.array(dims=[da5.dim], values=m, unit=None)
        da5.masks[_pick(rng, ['phase', da5.dim, 'plateau'])] = sc.array(dims=[da5.dim], values=rng.random(n5) < 0.2,
                                                                         unit=None)
        if rng.random() < 0.5:
            da5.masks['whole'] = sc.scalar(False)
        pl5 = call(find_plateaus, da5, **kw5)
        if pl5 is None:
            continue
        call(collapse_plateaus, pl5, coord=da5.dim)
        call(collapse_plateaus, pl5, coord='phase')
        pl6 = pl5.copy()
        pl6.masks[_pick(rng, ['skip', 'plateau', 'phase'])] = sc.array(
            dims=[pl6.dim], values=np.arange(pl6.sizes[pl6.dim]) % 2 == 0, unit=None)
        col = call(collapse_plateaus, pl6, coord='phase')
        if col is not None:
            call(filter_in_phase, col, reference=sc.scalar(64.0 * float(_pick(rng, [1.0, 0.5])), unit=col.unit)
                 if str(col.dtype) == 'float64' else sc.scalar(64.0, unit=col.unit), rtol=sc.scalar(0.05))
    fr = sc.DataArray(sc.array(dims=['t'], values=[14.0, 28.0, 3.0, 7.0, 15.0, 0.0, -42.0, 14.0 * 3.004], unit='Hz'),
                      coords={'t': sc.arange('t', 8, unit='s')},
                      masks={'m': sc.array(dims=['t'], values=[True, False, True, True, False, False, True, False]),
                             't': sc.array(dims=['t'], values=rng.random(8) < 0.5), 'all': sc.scalar(False)})
    kept = call(filter_in_phase, frequency=fr, reference=sc.scalar(14.0, unit='Hz'), rtol=sc.scalar(0.01))
    if kept is not None:
        ctx.hit('filter_in_phase with every argument by keyword')
        # second use: the result filtered again (every element of it is in phase), the same input again
        call(filter_in_phase, kept, reference=sc.scalar(14.0, unit='Hz'), rtol=sc.scalar(0.01))
        call(filter_in_phase, fr, reference=sc.scalar(14.0, unit='Hz'), rtol=sc.scalar(0.01))
        ctx.hit('second use: filtered result filtered again')
    # ---- second use, calls after an exception, display / copies between two calls
    da7, kw7, lv7 = _level_base(rng, _pick(rng, ['float64', 'int64', 'datetime64']), 'float64')
    da7 = with_aux(rng, da7, lv7, names=('phase', 'temperature'))
    bad = da7.copy()
    bad.coords[bad.dim].values[...] = bad.coords[bad.dim].values[::-1].copy()        # not ascending: refused
    call(find_plateaus, bad, **kw7)
    drift = da7.copy()
    drift.values[...] = np.arange(drift.sizes[drift.dim], dtype=np.float64)             # a ramp: drift guard
    steepest = float(np.max(np.abs(M.slopes(np.asarray(drift.values), np.asarray(drift.coords[drift.dim].values)))))
    call(find_plateaus, drift, atol=sc.scalar(steepest, unit=kw7['atol'].unit), min_n_points=1)
    call(find_plateaus, da7, atol=sc.scalar(1.0, unit='kg'), min_n_points=2)           # wrong unit: refused
    call(collapse_plateaus, da7, coord='phase')                                         # not binned: refused
    pl7 = call(find_plateaus, da7, **kw7)
    pl7b = call(find_plateaus, da7, **kw7)                                              # the same object again
    if pl7 is not None and pl7b is not None:
        ctx.hit('second use: the same series searched again, and again after refused calls')
        call(collapse_plateaus, pl7, coord='no such coordinate')
        c1 = call(collapse_plateaus, pl7, coord='phase')
        for show in (repr, str, lambda v: v._repr_html_(), copy.copy, copy.deepcopy,
                     lambda v: sc.identical(v, pl7b), lambda v: v == v, lambda v: v.bins.size(), lambda v: v.copy()):
            call(show, pl7)
        c2 = call(collapse_plateaus, pl7, coord='phase')
        c3 = call(collapse_plateaus, copy.deepcopy(pl7), coord='temperature')
        call(collapse_plateaus, pl7b['plateau', 1:] if pl7b.sizes['plateau'] > 1 else pl7b, coord='phase')
        call(collapse_plateaus, pl7, coord=da7.dim)
        if c1 is not None and c2 is not None and c3 is not None:
            ctx.hit('second use: the same plateaus collapsed again along another coordinate, after display / copies')
        # results fed back: one plateau (a slice of the input series) searched again; the collapsed plateaus filtered
        inner = pl7['plateau', pl7.sizes['plateau'] - 1].value
        if inner.sizes[inner.dim] >= 2 and call(find_plateaus, inner.copy(), **kw7) is not None:
            ctx.hit('second use: the points of a returned plateau searched again')
    origin['v'] = 'direct'



def _descr(v):
    from rv.snap import describe
    return describe(v)


# strict-caller variant shard of the runner (numpy floating-point events raise while package code runs): on the
# unchanged tree nextafter of the smallest / largest coordinate values underflows / overflows;
# these benign events are therefore not trapped for this property
STRICT_NUMPY = {'under': 'ignore', 'over': 'ignore'}
