"""C20 Bundled nuclear data are returned verbatim; attenuation follows the 1/v law.

Monitors (sys.monitoring on the code objects) sit on ``Atom.for_isotope`` and
``ScatteringParams.for_isotope`` (the functions behind the ``lru_cache`` wrappers: the
tracer sees them on cache misses, the driver judges *every* call, hit or miss),
``_find_line_with_isotope``, ``_parse_isotope_name``, ``_assemble_scalar``,
``reference_wavelength`` and ``Material.attenuation_coefficient``.

Oracle: ``rv.oracle.tables`` re-reads the three bundled CSV files of the working tree
with the ``csv`` module and ``decimal``/``fractions``; the 1/v law is evaluated in long
double from the independent SI table.  Nothing expected is computed by scippneutron.

Names are judged by their characters: ``np.str_``, members of ``(str, Enum)`` / ``StrEnum`` classes and
user subclasses of ``str`` (also ones that render or transform as another row name) are the plain
names they compare equal to; every shard asks rows and near misses in each of these forms.  A
deterministic list of attenuation classes (calling conventions, graph node, variances, dtypes,
layouts, dim names, sizes, stand-ins, second use) runs on every shard through the same monitor.

Rejection: the property says "any other name is rejected" without naming a type; the
package documents ``ValueError`` ("No entry for ...").  Any ``Exception`` counts as a
rejection, the type is tallied (``rejected_with:<Type>``); only *answering* is judged.
"""

from __future__ import annotations

import os
from fractions import Fraction

import numpy as np
import scipp as sc

from rv import operands as ops
from rv.oracle import si, tables
from rv.snap import describe, fp
from rv.trace import Tracer

ID = 'C20'
LEVEL = 'exploration'
RULE = (
    'rows: every row of the three bundled tables (371 + 118 + 3557, exhaustive in both tiers, '
    'split over the shards) is looked up through the real cached entry points three times '
    '(miss, hit inside a block of 64, miss after eviction) in shuffled order; near misses: '
    'one variant of a random real name per case, kinds cycled (case, blanks, digits, element '
    'prefix/suffix, comma, truncation, look-alikes, other-table names, title/comment cells); '
    'attenuation: table materials and synthetic materials, density 1/pm^3..1/m^3, wavelength '
    'fm..m, cross-sections in 7 area units, scalar / 1-d / 2-d operands; object state: live Material '
    'objects and their copy.copy / deepcopy / dataclasses.replace / pickle descendants have every public '
    'field (scattering_params, density, single cross-sections via dataclasses.replace, blank rows) '
    'reassigned or changed in place between calls in an enumerated step list, also before '
    'compute_transmission_map, each call judged against the fields at that call; name types: rows and near '
    'misses of every shard given as np.str_, (str, Enum) member, StrEnum member and user str subclasses that '
    'render (str/repr/format) or transform (strip, lower, ...) as ANOTHER row name, on both entry points, '
    'plus keyword / instance / descriptor calls and lookups repeated after a refusal and after the results '
    'were displayed, compared, copied; enumerated attenuation classes per shard: calling conventions incl. a '
    'transform_coords graph node, operands with variances (result variances judged against first-order '
    'propagation), int / float32 operands, transposed / strided / 3-d layouts, caller dim names, empty and '
    'length-1 wavelengths, 2**20+7 and 3 x 400001 wavelengths on one shard, stand-ins and subclasses of '
    'ScatteringParams / Material, second use of the same objects; a case is distinct by '
    '(function, table, blank pattern | variant kind, outcome | units, shape, decade)'
)
ASSUMPTIONS = [
    'the bundled CSV files are the specification: value = the double nearest to the decimal cell, '
    'variance = (standard uncertainty)^2 to 4 eps, blank cell = no value',
    'scattering_parameters.csv has no title line: its column order is the NIST list order the class '
    'documents, confirmed per run from sigma_coh = 4 pi |b|^2 and sigma_scatt = sigma_coh + sigma_inc',
    'any Exception is a rejection (the property names no type; ValueError is the documented one)',
    'scipp converts the result unit to 1/m correctly (cross-checked against the independent SI '
    'table whenever the unit is the plain product of the operand units)',
    'scipp refusing to broadcast variances (VariancesError) for a dense wavelength on a material '
    'whose cross-sections carry uncertainties is scipp policy: counted as undecided, not judged',
    'a material whose table row has a blank cross-section has no attenuation: the call must not '
    'return a value (any Exception accepted, also one raised when the Material is constructed)',
    '"the attenuation coefficient of a material" is that of the material as it is when asked: the monitor '
    'copies the public fields of the live object when the call starts and judges against those',
    'a name is its characters: any instance of str (np.str_, enum members with a str mixin, user subclasses) '
    'that compares and hashes equal to a row name is that row, whatever its __str__/__repr__/__format__ or '
    'text methods return; which str type the isotope field of the answer carries is not prescribed for them',
    'where the attenuation coefficient carries variances they are the first-order propagation of the operand '
    'variances (each of n, sigma_s, sigma_a, lambda enters the law once; 1e-12 relative); variances that are '
    'not carried are counted, not judged',
    'the bound method attenuation_coefficient(wavelength) is usable as a node of a transform_coords graph '
    'whenever the direct call with the same wavelength answers',
    'a "wavelength" whose unit is not a length (a time, an attenuation coefficient fed back) may be refused: '
    'counted; an answer is judged like any other (it cannot be an inverse length)',
]
TECHNIQUE = ('runtime monitors (sys.monitoring) on the lookup entry points and helpers plus a call-level '
             'judge for cache hits; exhaustive table walk against an independent csv/decimal re-read; '
             'long-double 1/v law for the attenuation monitor')
LEVEL_TEXT = ('exploration with an exhaustive sub-space: every one of the 4046 table rows is decided '
              '(value bitwise, variance, unit, blanks, Z, mass/weight presence) on every run; near-miss '
              'names and attenuation inputs are sampled. Held on the decided executions reported, not a proof.')
LEVEL_NOTE = ('trusted: csv/decimal/fractions of the standard library, numpy long double, the independent SI '
              'table (cross-checked against sc.to_unit at start-up), scipp containers and unit conversion')
DESIGN_REF = 'DESIGN.md section 4, C20'
TIMEOUT_S = {'quick': 600, 'thorough': 3600}

TOL_ATT = 1e-13
EPS = Fraction(1, 2**52)
LAMBDA_REF_M = si.LD(17982) / si.LD(10) ** 14  # 1.7982 angstrom in metres
N_SHARDS = 16
BLOCK = 64  # < 128 = default lru_cache size: the second pass over a block hits the cache
EVICTORS = 140  # > 128: afterwards none of the shard's rows is still cached

DOC_UNITS = {'fm', 'barn', 'Da'}


# ------------------------------------------------------------------ oracle glue ---
_T = None


def T():
    global _T
    if _T is None:
        _T = tables.load()
    return _T


def cmp_quantity(var, q):
    """None if the Variable ``var`` is exactly the tabulated quantity ``q``; else (what, text)."""
    if q is None:
        if var is None:
            return None
        return 'blank', f'table cell is blank but {describe(var)} was returned'
    if var is None:
        return 'missing', f'table has {q.cell!r} but None was returned'
    if not isinstance(var, sc.Variable):
        return 'type', f'{type(var).__name__} instead of a Variable'
    if var.ndim != 0 or var.bins is not None:
        return 'shape', f'dims {var.dims}'
    if var.dtype != sc.DType.float64:
        return 'dtype', f'dtype {var.dtype}'
    if q.unit not in DOC_UNITS:
        raise tables.TableFormatError(f'undocumented unit {q.unit!r} in the table titles')
    if var.unit != sc.Unit(q.unit):
        return 'unit', f'unit {var.unit} expected {q.unit}'
    got = float(var.value)
    if tables.bits(got) != tables.bits(q.value):
        return 'value', f'value {got!r} ({got.hex()}) expected {q.value!r} from cell {q.cell!r}'
    want_var = q.variance_exact
    if want_var is None:
        if var.variance is not None:
            return 'variance', f'variance {var.variance!r} but the table gives no uncertainty'
        return None
    if var.variance is None:
        return 'variance', f'no variance but the table gives uncertainty {q.std_cell!r}'
    gv = float(var.variance)
    if gv != gv or gv in (float('inf'), float('-inf')):
        return 'variance', f'variance {gv!r}'
    if abs(Fraction(gv) - want_var) > 4 * EPS * want_var:
        return 'variance', (f'variance {gv!r} expected {float(want_var)!r} = ({q.std_cell})^2')
    return None


def variance_dev(var, q):
    if q is None or q.variance_exact in (None, 0) or var is None or var.variance is None:
        return 0.0
    return float(abs(Fraction(float(var.variance)) - q.variance_exact) / q.variance_exact)


def blank_pattern(row):
    return ''.join('-' if row[f] is None else ('v' if row[f].std_exact is None else 'u')
                   for f, _ in tables.SCATTERING_FIELDS)


def chars(name):
    """The characters of a ``str`` (sub)class instance as a builtin ``str``, whatever the subclass
    overrides: a name IS its characters (that is what it compares and hashes equal to)."""
    k = str.__str__(name)
    if type(k) is not str:
        k = str.__getitem__(name, slice(None))
    if type(k) is not str:
        k = ''.join(str.__getitem__(name, i) for i in range(str.__len__(name)))
    return k


def show(name):
    """Unambiguous text for a name in messages (a subclass may override repr)."""
    if type(name) is str:
        return repr(name) if len(name) <= 80 else repr(name[:40]) + f'...({len(name)} characters)'
    if isinstance(name, str):
        return f'{type(name).__name__}<{show(chars(name))}>'
    return f'{type(name).__name__} object'


class Judge:
    """Shared by the traced monitors and the call-level driver."""

    def __init__(self, ctx, atom_cls, sp_cls):
        self.ctx = ctx
        self.atom_cls = atom_cls
        self.sp_cls = sp_cls
        self.first_fp: dict = {}
        self.cur = {'kind': 'row', 'base': None}

    # -- a lookup through one of the two entry points ------------------------
    def lookup(self, fn, name, res, exc, seen):
        """fn in ('Atom.for_isotope', 'ScatteringParams.for_isotope'); seen in ('traced', 'call')."""
        ctx = self.ctx
        t = T()
        if not isinstance(name, str):
            ctx.count('lookup:argument is not a str (not judged):' + type(name).__name__)
            return 'not_a_name'
        asked = name
        try:
            # the name is its characters: np.str_, (str, Enum) members, StrEnum members and user
            # subclasses of str are the names they compare equal to
            name = chars(asked)
            shown = show(asked)
            want = t.atom(name) if fn == 'Atom.for_isotope' else t.scattering_row(name)
        except Exception:  # noqa: BLE001
            ctx.oracle_error(f'C20 expected({fn})')
            return 'oracle_error'
        case = {'function': fn, 'name': name if len(name) <= 200 else show(name), 'seen': seen,
                'variant_kind': self.cur['kind'], 'variant_of': self.cur['base']}
        if len(name) > 8192:
            ctx.hit('size:name longer than 8192 characters')
        if type(asked) is not str:
            case['name_given_as'] = f'{type(asked).__module__}.{type(asked).__qualname__} (bases ' + \
                ', '.join(b.__name__ for b in type(asked).__mro__[1:-1]) + ')'
        keys = {'fn': fn, 'seen': seen, 'variant': self.cur['kind']}
        ctx.event(fn if seen == 'traced' else fn + '.call')
        if want is None:
            if exc is None:
                case['returned'] = describe(_fields(res))
                ctx.violation('answered_unknown_name',
                              f'{fn}({shown}) is not a row of the table but was answered with '
                              f'{_short(res)}', case, **keys)
                return 'answered'
            if not isinstance(exc, Exception):
                ctx.violation('non_exception_escape', f'{fn}({shown}) escaped with '
                              f'{type(exc).__name__}', case, **keys)
                return 'escaped'
            if seen == 'call':
                ctx.count('rejected_with:' + type(exc).__name__)
            return 'rejected:' + type(exc).__name__
        if exc is not None:
            ctx.violation('row_rejected', f'{fn}({shown}) is a table row but raised '
                          f'{type(exc).__name__}: {exc}', case, **keys)
            return 'row_rejected'
        try:
            bad = (self._cmp_atom(name, res, want, asked) if fn == 'Atom.for_isotope'
                   else self._cmp_sp(name, res, want, asked))
        except Exception:  # noqa: BLE001
            ctx.oracle_error(f'C20 compare({fn})')
            return 'oracle_error'
        if bad:
            field, what, text = bad
            case['returned'] = describe(_fields(res))
            ctx.violation('row_mismatch', f'{fn}({shown}).{field}: {text}', case,
                          field=field, aspect=what, **keys)
            return 'mismatch'
        # call history must not matter: bitwise the same answer every time
        if seen == 'call':
            try:
                f = fp(_fields(res, plain_name=True))
            except Exception:  # noqa: BLE001
                ctx.oracle_error('C20 fingerprint')
                return 'oracle_error'
            k = (fn, name)
            if k in self.first_fp:
                ctx.event('history.same_answer')
                if self.first_fp[k] != f:
                    ctx.violation('history_dependent',
                                  f'{fn}({shown}) answered differently on a repeated call', case, **keys)
                    return 'history'
            else:
                self.first_fp[k] = f
        return 'row_ok'

    @staticmethod
    def _cmp_name(got, name, asked):
        """The result names the nuclide that was asked for.  Asked with a builtin str: exactly that str.
        Asked with a str subclass: any str with the same characters (the property does not say which
        type the field carries; the package keeps the caller's object)."""
        if asked is None or type(asked) is str:
            if type(got) is not str or got != name:
                return 'isotope', 'name', f'isotope {got!r} expected {name!r}'
        elif not isinstance(got, str) or chars(got) != name:
            return 'isotope', 'name', f'isotope {show(got)} expected the characters {name!r}'
        return None

    def _cmp_atom(self, name, res, want, asked=None):
        z, w, m = want
        if not isinstance(res, self.atom_cls):
            return 'result', 'type', f'{type(res).__name__} is not an Atom'
        bad = self._cmp_name(res.isotope, name, asked)
        if bad:
            return bad
        if type(res.z) is not int or res.z != z:
            return 'z', 'z', f'z = {res.z!r} expected {z} (element {T().element_of(name)})'
        for field, q in (('atomic_weight', w), ('atomic_mass', m)):
            try:
                got = getattr(res, field)
                raised = None
            except Exception as e:  # noqa: BLE001
                got, raised = None, e
            if q is None:
                if raised is None:
                    kind = ('mass_for_element' if field == 'atomic_mass' else 'weight_without_standard')
                    return field, kind, (f'{describe(got)} returned although the table has none '
                                         f'({"element name" if field == "atomic_mass" else "blank weight"})')
                self.ctx.count(f'absent_{field}_raises:{type(raised).__name__}')
                continue
            if raised is not None:
                return field, 'missing', f'raised {type(raised).__name__} but the table has {q.cell!r}'
            bad = cmp_quantity(got, q)
            if bad:
                return field, bad[0], bad[1]
            self.ctx.dev('variance_relerr', variance_dev(got, q))
            # the stored field (what the dataclass carries) must agree with the accessor
            stored = getattr(res, '_' + field, got)
            bad = cmp_quantity(stored, q)
            if bad:
                return '_' + field, bad[0], bad[1]
        for field, q in (('_atomic_weight', w), ('_atomic_mass', m)):
            if q is None and getattr(res, field, None) is not None:
                return field, 'blank', f'{describe(getattr(res, field))} stored although the table has none'
        return None

    def _cmp_sp(self, name, res, want, asked=None):
        if not isinstance(res, self.sp_cls):
            return 'result', 'type', f'{type(res).__name__} is not ScatteringParams'
        bad = self._cmp_name(res.isotope, name, asked)
        if bad:
            return bad
        for field, _ in tables.SCATTERING_FIELDS:
            q = want[field]
            got = getattr(res, field)
            bad = cmp_quantity(got, q)
            if bad:
                return field, bad[0], bad[1]
            self.ctx.dev('variance_relerr', variance_dev(got, q))
        return None


def _fields(res, plain_name=False):
    import dataclasses
    if dataclasses.is_dataclass(res) and not isinstance(res, type):
        d = {f.name: getattr(res, f.name) for f in dataclasses.fields(res)}
        if plain_name and isinstance(d.get('isotope'), str):
            # the name field is judged on its own (_cmp_name); every spelling of a name must give
            # bitwise the same numbers, so the fingerprint takes the characters only
            d['isotope'] = chars(d['isotope'])
        return d
    return res


def _short(res):
    s = repr(res)
    return s if len(s) < 160 else s[:157] + '...'


# --------------------------------------------------------------- helper monitors ---
def judge_find_line(ctx, ev):
    """_find_line_with_isotope(isotope, io): the remainder of exactly that row, else None."""
    name, io = ev.args.get('isotope'), ev.args.get('io')
    fname = os.path.basename(str(getattr(io, 'name', '')))
    t = T()
    if fname not in t.raw:
        ctx.count('find_line:unidentified_file')
        return
    if not isinstance(name, str):
        ctx.count('find_line:non_string')
        return
    name = chars(name)
    case = {'function': '_find_line_with_isotope', 'file': fname, 'name': name if len(name) <= 200 else show(name)}
    row = t.raw[fname].get(name)
    ctx.event('_find_line_with_isotope')
    if ev.exc is not None:
        # scanning a well-formed file for any string needs no exception
        ctx.violation('scan_raised', f'_find_line_with_isotope({show(name)}, {fname}) raised '
                      f'{type(ev.exc).__name__}: {ev.exc}', case, file=fname)
        return
    if row is None:
        if ev.result is not None:
            what = 'title_or_comment' if name in t.non_rows.get(fname, ()) else 'other_row'
            ctx.violation('scan_matched_non_row',
                          f'{show(name)} is not a data row of {fname} but the scan returned '
                          f'{ev.result!r}', case, file=fname, matched=what)
        return
    if ev.result is None:
        ctx.violation('scan_missed_row', f'{show(name)} is a row of {fname} but the scan found nothing',
                      case, file=fname)
        return
    import csv
    got = next(csv.reader([ev.result]), None)
    if got != row:
        ctx.violation('scan_wrong_row', f'scan for {show(name)} in {fname} returned {ev.result!r}, the row is '
                      f'{",".join(row)!r}', case, file=fname)


def judge_parse_name(ctx, ev):
    name = ev.args.get('name')
    t = T()
    if isinstance(name, str):
        name = chars(name)
    if not isinstance(name, str) or (name not in t.weights and name not in t.masses
                                     and name not in t.scattering):
        ctx.count('parse_name:not_a_row')
        return
    ctx.event('_parse_isotope_name')
    want = t.element_of(name)
    case = {'function': '_parse_isotope_name', 'name': name}
    if ev.exc is not None:
        ctx.violation('parse_name_raised', f'_parse_isotope_name({name!r}) raised '
                      f'{type(ev.exc).__name__}', case)
    elif ev.result != want:
        ctx.violation('parse_name_wrong', f'_parse_isotope_name({name!r}) = {ev.result!r}, element is '
                      f'{want!r}', case)


def judge_assemble(ctx, ev):
    value, std, unit = ev.args.get('value'), ev.args.get('std'), ev.args.get('unit')
    if not (isinstance(value, str) and isinstance(std, str) and isinstance(unit, str)):
        ctx.count('assemble:non_string_cell')
        return
    try:
        q = tables.quantity(value, std, unit)
    except tables.TableFormatError:
        # a cell the oracle cannot read (title text under a mutation ...): answering is not judged
        ctx.count('assemble:unreadable_cell')
        return
    ctx.event('_assemble_scalar')
    case = {'function': '_assemble_scalar', 'value': value, 'std': std, 'unit': unit}
    if ev.exc is not None:
        ctx.violation('assemble_raised', f'_assemble_scalar({value!r}, {std!r}, {unit!r}) raised '
                      f'{type(ev.exc).__name__}: {ev.exc}', case)
        return
    bad = cmp_quantity(ev.result, q)
    if bad:
        ctx.violation('assemble_mismatch', f'_assemble_scalar({value!r}, {std!r}, {unit!r}): {bad[1]}',
                      case, aspect=bad[0])


def judge_reference_wavelength(ctx, ev):
    ctx.event('reference_wavelength')
    case = {'function': 'reference_wavelength'}
    if ev.exc is not None:
        ctx.violation('reference_wavelength', f'raised {type(ev.exc).__name__}', case, aspect='raised')
        return
    r = ev.result
    try:
        ok_shape = isinstance(r, sc.Variable) and r.ndim == 0 and r.variance is None
        if ok_shape:
            f, d = si.lookup(r.unit)
    except KeyError:
        ctx.violation('reference_wavelength', f'unit {r.unit} is not a length', case, aspect='unit')
        return
    if not ok_shape:
        ctx.violation('reference_wavelength', f'not a plain scalar: {describe(r)}', case, aspect='shape')
        return
    if d != (1, 0, 0, 0, 0):
        ctx.violation('reference_wavelength', f'unit {r.unit} is not a length', case, aspect='unit')
        return
    got = si.LD(float(r.value)) * si.ld(f)
    err = float(abs(got - LAMBDA_REF_M) / LAMBDA_REF_M)
    ctx.dev('reference_wavelength_relerr', err)
    if err > 4 * si.EPS64:
        case['got'] = describe(r)
        ctx.violation('reference_wavelength', f'{r.value!r} {r.unit} is not 1.7982 angstrom', case,
                      aspect='value')


# ---------------------------------------------------------- attenuation monitor ---
def _has_var(v):
    return v is not None and isinstance(v, sc.Variable) and v.variances is not None


def snapshot_material(ev):
    """on_start: the CURRENT public fields of the live object (the law speaks about the material as it is
    when asked, not as it was constructed): copies, so that nothing the call does can move the reference."""
    m, wl = ev.args.get('self'), ev.args.get('wavelength')
    try:
        n = m.effective_sample_number_density
        p = m.scattering_params
        ss, sa = p.total_scattering_cross_section, p.absorption_cross_section
        cp = lambda v: v.copy() if isinstance(v, sc.Variable) else v  # noqa: E731
        return {'n': cp(n), 'ss': cp(ss), 'sa': cp(sa), 'wl': cp(wl), 'isotope': getattr(p, 'isotope', None),
                'ids': (id(n), id(p)), 'aliased': len({id(n), id(ss), id(sa), id(wl)}) < 4}
    except Exception:  # noqa: BLE001
        return None


def judge_attenuation(ctx, ev, origin):
    m, wl = ev.args.get('self'), ev.args.get('wavelength')
    pre = ev.pre
    if pre is None:
        ctx.count('attenuation:unreadable_material')
        return
    n, ss, sa, wl = pre['n'], pre['ss'], pre['sa'], pre['wl']
    p = type('P', (), {'isotope': pre['isotope']})
    try:
        same = (id(m.effective_sample_number_density), id(m.scattering_params)) == pre['ids'] and \
            all(a is b or sc.identical(a, b, equal_nan=True) for a, b in (
                (m.effective_sample_number_density, n), (m.scattering_params.total_scattering_cross_section, ss),
                (m.scattering_params.absorption_cross_section, sa)))
        if not same:
            ctx.count('attenuation:public fields of the material changed during the call (not judged)')
    except Exception:  # noqa: BLE001
        ctx.count('attenuation:material unreadable after the call')
    state = origin['v'][6:] if origin['v'].startswith('state:') else None
    case = {'function': 'Material.attenuation_coefficient', 'origin': origin['v'],
            'isotope': getattr(p, 'isotope', None), 'density': describe(n),
            'sigma_s': describe(ss), 'sigma_a': describe(sa), 'wavelength': describe(wl)}
    if state is not None:
        case['object_state'] = state
    if ss is None or sa is None:
        ctx.event('attenuation.blank_cross_section')
        ctx.hit('att:blank_cross_section')
        if state is not None:
            ctx.hit('state:' + state)
        if ev.exc is None:
            ctx.violation('attenuation_from_blank', 'a material with a blank cross-section was given an '
                          f'attenuation coefficient {describe(ev.result)}', case)
        else:
            ctx.count('attenuation:blank_rejected_with:' + type(ev.exc).__name__)
        return
    try:
        opers = (n, ss, sa, wl)
        rdims = set()
        for o in opers:
            rdims.update(o.dims)
        var_bcast = any(_has_var(o) and set(o.dims) != rdims for o in opers)
    except Exception:  # noqa: BLE001
        ctx.oracle_error('C20 attenuation operands')
        return
    if ev.exc is not None and origin['v'].startswith('not a wavelength:'):
        # the driver handed over something that is not a wavelength (unit of another dimension): a refusal
        # is the expected outcome and only counted; an answer falls through to the ordinary judgement
        ctx.count('attenuation:refused ' + origin['v'] + ':' + type(ev.exc).__name__)
        return
    if ev.exc is not None:
        if isinstance(ev.exc, sc.VariancesError) and var_bcast:
            # genuine defect (recorded as a known finding): the law cannot be evaluated at all for
            # materials whose tabulated cross-sections carry an uncertainty when the wavelength (or
            # density) has more dims than the cross-section, because scipp refuses to broadcast variances
            ctx.hit('att:variances_broadcast')
            ctx.violation('attenuation_refused_variances',
                          'attenuation_coefficient raised VariancesError: a cross-section with tabulated '
                          'uncertainty cannot be combined with a dense wavelength/density', case,
                          exc='VariancesError', variances_need_broadcast=True)
            return
        ctx.violation('attenuation_raised', f'attenuation_coefficient raised {type(ev.exc).__name__}: '
                      f'{ev.exc}', case, exc=type(ev.exc).__name__)
        return
    res = ev.result
    try:
        if not isinstance(res, sc.Variable) or res.bins is not None:
            ctx.violation('attenuation_type', f'result is {type(res).__name__}', case)
            return
        if set(res.dims) != rdims:
            ctx.violation('attenuation_dims', f'dims {res.dims} expected {sorted(rdims)}', case)
            return
        if res.dtype != sc.DType.float64:
            ctx.violation('attenuation_dtype', f'dtype {res.dtype}', case)
            return
        try:
            f_res = float(sc.scalar(1.0, unit=res.unit).to(unit='1/m').value)
        except sc.UnitError:
            ctx.violation('attenuation_not_inverse_length', f'result unit {res.unit} is not convertible '
                          'to 1/m', case)
            return
        if res.unit == n.unit * ss.unit:
            own = float(si.lookup(n.unit)[0] * si.lookup(ss.unit)[0])
            if abs(own - f_res) > 8 * si.EPS64 * own:
                ctx.inconclusive_because(f'unit cross-check: scipp converts {res.unit} to 1/m with '
                                         f'{f_res!r}, the SI table says {own!r}')
                return
            ctx.count('attenuation:unit_factor_cross_checked')
        a = {}
        for key, o in (('n', n), ('ss', ss), ('sa', sa), ('wl', wl)):
            a[key] = ops.align(sc.values(o) if _has_var(o) else o, res).astype(si.LD) * si.factor(o.unit)
        exp = a['n'] * (a['ss'] + a['sa'] * a['wl'] / LAMBDA_REF_M)
        got = np.asarray(res.values).astype(si.LD) * si.LD(f_res)
    except Exception:  # noqa: BLE001
        ctx.oracle_error('C20 attenuation oracle')
        return
    if got.size == 0:
        ctx.count('attenuation:empty')
        ctx.event('attenuation.empty_wavelength')
        return
    if not np.all(np.isfinite(np.asarray(got, dtype=np.float64))):
        ctx.violation('attenuation_non_finite', 'non-finite attenuation for finite positive input', case)
        return
    err = si.relerr(got, exp)
    worst = float(np.max(err))
    ctx.dev('attenuation_relerr', worst)
    ctx.event('Material.attenuation_coefficient')
    if origin['v'] == 'compute_transmission_map':
        ctx.event('Material.attenuation_coefficient[in situ]')
    if state is not None:
        ctx.event('Material.attenuation_coefficient[live object]')
        ctx.hit('state:' + state)
    if origin['v'].startswith('extra:'):
        ctx.event('Material.attenuation_coefficient[enumerated classes]')
        ctx.hit('judged:' + origin['v'][6:])
    try:
        judge_attenuation_variances(ctx, res, f_res, a, (n, ss, sa, wl), pre, case)
    except Exception:  # noqa: BLE001
        ctx.oracle_error('C20 attenuation variance oracle')
    if worst > TOL_ATT:
        i = int(np.argmax(err))
        case['worst'] = {'got_per_m': repr(np.ravel(got)[i]), 'expected_per_m': repr(np.ravel(exp)[i]),
                         'relerr': worst, 'wavelength_m': repr(np.ravel(a['wl'])[i])}
        # mechanism: which side of the definition the result sits on
        with np.errstate(all='ignore'):
            inv = a['n'] * (a['ss'] + a['sa'] * LAMBDA_REF_M / a['wl'])
            no_abs = a['n'] * a['ss']
        near_inv = bool(np.max(si.relerr(got, inv)) < 1e-9)
        ctx.violation('attenuation_value', f'attenuation deviates from n (sigma_s + sigma_a lambda / '
                      f'1.7982 angstrom) by {worst:.3g} > {TOL_ATT:g}', case,
                      matches_inverse_law=near_inv, object_state='fresh' if state in (None, 'fresh') else 'altered',
                      absorption_share=float(np.ravel(1 - no_abs / exp)[i]) if np.ravel(exp)[i] != 0 else 0.0)


TOL_VAR = 1e-12


def judge_attenuation_variances(ctx, res, f_res, a, opers, pre, case):
    """Where the result carries variances they are the first-order propagation of the operands' variances.
    n, sigma_s, sigma_a and lambda each enter the law exactly once, so (for four distinct operand objects)
    scipp's propagation is unambiguous:
    var(mu) = (sigma_s + sigma_a l/l0)^2 var(n) + n^2 var(sigma_s) + (n l/l0)^2 var(sigma_a) + (n sigma_a/l0)^2 var(l)."""
    n, ss, sa, wl = opers
    with_var = [k for k, o in zip(('n', 'ss', 'sa', 'wl'), opers, strict=True) if _has_var(o)]
    if res.variances is None:
        if with_var:
            ctx.count('attenuation:operand variances not carried by the result (not judged)')
        return
    if pre.get('aliased'):
        ctx.count('attenuation:variances with aliased operands (not judged)')
        return
    v = {}
    for key, o in zip(('n', 'ss', 'sa', 'wl'), opers, strict=True):
        if _has_var(o):
            v[key] = ops.align(sc.variances(o), res).astype(si.LD) * si.factor(o.unit) ** 2
        else:
            v[key] = si.LD(0)
    L = LAMBDA_REF_M
    exp = ((a['ss'] + a['sa'] * a['wl'] / L) ** 2 * v['n'] + a['n'] ** 2 * v['ss']
           + (a['n'] * a['wl'] / L) ** 2 * v['sa'] + (a['n'] * a['sa'] / L) ** 2 * v['wl'])
    got = np.asarray(res.variances).astype(si.LD) * si.LD(f_res) ** 2
    err = si.relerr(got, np.broadcast_to(exp, got.shape))
    worst = float(np.max(err))
    ctx.dev('attenuation_variance_relerr', worst)
    ctx.event('Material.attenuation_coefficient[variances]')
    ctx.hit('var:from ' + '+'.join(with_var) if with_var else 'var:none')
    if not worst <= TOL_VAR:
        i = int(np.argmax(err))
        case = dict(case, worst_variance={'got': repr(np.ravel(got)[i]),
                                          'expected': repr(np.ravel(np.broadcast_to(exp, got.shape))[i]),
                                          'relerr': worst})
        ctx.violation('attenuation_variance', 'the variances of the attenuation coefficient are not the '
                      f'first-order propagation of the operand variances (off by {worst:.3g})', case,
                      variances_from='+'.join(with_var))


# ------------------------------------------------------------ near-miss names ---
LOOKALIKE = {
    'A': 'А', 'B': 'В', 'C': 'С', 'E': 'Е', 'H': 'Н', 'K': 'K',
    'M': 'М', 'O': 'О', 'P': 'Р', 'T': 'Т', 'X': 'Х', 'N': 'Ν',
    'Z': 'Ζ', 'I': 'І', 'S': 'Ѕ', 'Y': 'Υ',
    'a': 'а', 'c': 'с', 'e': 'е', 'o': 'о', 'p': 'р', 'x': 'х',
    'y': 'у', 'i': 'і', 's': 'ѕ',
}
SUPER = str.maketrans('0123456789', '⁰¹²³⁴⁵⁶⁷⁸⁹')
FULLW = str.maketrans('0123456789', ''.join(chr(0xFF10 + i) for i in range(10)))
ARABIC = str.maketrans('0123456789', ''.join(chr(0x0660 + i) for i in range(10)))

KINDS = [
    'swapcase', 'lower', 'upper', 'first_case', 'lead_space', 'trail_space', 'lead_tab', 'trail_tab',
    'lead_newline', 'trail_newline', 'trail_crlf', 'inner_space', 'digit_prefix', 'digit_suffix',
    'leading_zero', 'mass_number_shift', 'element_prefix', 'element_suffix', 'letter_suffix',
    'comma_joined', 'comma_trailing', 'comma_row', 'truncate_last', 'truncate_first', 'doubled',
    'lookalike', 'unicode_digits', 'nul_suffix', 'hyphen_notation', 'reversed_notation',
    'other_table', 'special',
]


def _split(name):
    digits = name[:len(name) - len(name.lstrip('0123456789'))]
    return digits, name[len(digits):]


def make_variant(kind, name, rng, names, specials):
    d, el = _split(name)
    r = lambda n: int(rng.integers(0, n))  # noqa: E731
    if kind == 'swapcase':
        return name.swapcase()
    if kind == 'lower':
        return name.lower()
    if kind == 'upper':
        return name.upper() if name.upper() != name else name.lower()
    if kind == 'first_case':
        return d + el[:1].swapcase() + el[1:]
    if kind == 'lead_space':
        return ' ' * (1 + r(2)) + name
    if kind == 'trail_space':
        return name + ' ' * (1 + r(2))
    if kind == 'lead_tab':
        return '\t' + name
    if kind == 'trail_tab':
        return name + '\t'
    if kind == 'lead_newline':
        return '\n' + name
    if kind == 'trail_newline':
        return name + '\n'
    if kind == 'trail_crlf':
        return name + '\r\n'
    if kind == 'inner_space':
        return (d + ' ' + el) if d else (el[:1] + ' ' + el[1:])
    if kind == 'digit_prefix':
        return str(1 + r(9)) + name
    if kind == 'digit_suffix':
        return name + str(r(10))
    if kind == 'leading_zero':
        return '0' * (1 + r(2)) + name
    if kind == 'mass_number_shift':
        a = int(d) if d else 0
        return str(max(a + [-1, 1, 10, 100, -10][r(5)], 0)) + el
    if kind == 'element_prefix':
        other = _split(names[r(len(names))])[1]
        return other + name
    if kind == 'element_suffix':
        other = _split(names[r(len(names))])[1]
        return name + other
    if kind == 'letter_suffix':
        return name + 'abcdefghijklmnopqrstuvwxyzABCDEFGH'[r(34)]
    if kind == 'comma_joined':
        return name + ',' + names[r(len(names))]
    if kind == 'comma_trailing':
        return [name + ',', ',' + name, name + ',,'][r(3)]
    if kind == 'comma_row':
        t = T()
        for fn in tables.FILES:
            row = t.raw[fn].get(name)
            if row is not None:
                k = 1 + r(len(row))
                return name + ',' + ','.join(row[:k])
        return name + ',1'
    if kind == 'truncate_last':
        return name[:-1]
    if kind == 'truncate_first':
        return name[1:]
    if kind == 'doubled':
        return name + name
    if kind == 'lookalike':
        idx = [i for i, c in enumerate(name) if c in LOOKALIKE]
        if idx:
            i = idx[r(len(idx))]
            return name[:i] + LOOKALIKE[name[i]] + name[i + 1:]
        i = len(d)
        return name[:i] + chr(ord(name[i]) + 0xFEE0) + name[i + 1:]  # full-width letter
    if kind == 'unicode_digits':
        if d:
            return d.translate([SUPER, FULLW, ARABIC][r(3)]) + el
        return chr(0xFF21 + ord(el[0]) - 65) + el[1:] if el[:1].isupper() else '１' + el
    if kind == 'nul_suffix':
        return name + ['\x00', '\x0b', '\x0c', ' ', '​', '﻿'][r(6)]
    if kind == 'hyphen_notation':
        return (el + '-' + d) if d else (el + '-' + str(1 + r(250)))
    if kind == 'reversed_notation':
        return (el + d) if d else (el + str(1 + r(250)))
    if kind == 'other_table':
        return name  # a real name; whichever table does not list it must reject it
    if kind == 'special':
        return specials[r(len(specials))]
    raise KeyError(kind)


def special_names():
    t = T()
    out = ['', ' ', ',', '\n', ',,', 'Element', 'Isotope', 'Z', 'Atomic Weight [Da]', 'Atomic Mass [Da]',
           'Uncertainty [Da]', 'D', 'T', 'n', 'scippium', '1', '12', '0', 'None', 'nan', 'inf', '#', '.',
           '-', 'H\x00', '1.008', '-3.739']
    for non in t.non_rows.values():
        out.extend(non)
    # sizes: names far longer than any row (nothing in the scan may depend on the length of the name)
    out.extend(['H' * (8192 + 7), 'He' + ' ' * (2 ** 16 + 7), '1' * 5000 + 'H', 'Xe' * (2 ** 19) + 'Xenon7'])
    return list(dict.fromkeys(out))


# ------------------------------------------------ names given as str subclasses ---
_TEXT_METHODS = ('strip', 'lstrip', 'rstrip', 'lower', 'upper', 'casefold', 'title', 'capitalize', 'swapcase',
                 'replace', 'removeprefix', 'removesuffix', 'expandtabs', 'translate', 'center', 'ljust',
                 'rjust', 'zfill', 'format', 'format_map')


class PlainName(str):
    """A user subclass that overrides nothing."""


class DecoyText(str):
    """Renders as ANOTHER name (str / repr / format); its characters are the name."""

    def __new__(cls, s, decoy):
        o = str.__new__(cls, s)
        o.decoy = decoy
        return o

    def __str__(self):
        return self.decoy

    def __repr__(self):
        return repr(self.decoy)

    def __format__(self, spec):
        return format(self.decoy, spec)


class DecoyMethods(str):
    """Every text-transforming method answers with ANOTHER name; its characters are the name."""

    def __new__(cls, s, decoy):
        o = str.__new__(cls, s)
        o.decoy = decoy
        return o

    def encode(self, *a, **k):
        return self.decoy.encode()

    def split(self, *a, **k):
        return [self.decoy]

    rsplit = splitlines = split

    def __reduce__(self):
        return (DecoyMethods, (chars(self), self.decoy))


for _m in _TEXT_METHODS:
    setattr(DecoyMethods, _m, lambda self, *a, **k: self.decoy)
del _m

SPELLINGS = ['np.str_', '(str, Enum) member', 'StrEnum member', 'str subclass', 'str subclass, other text',
             'str subclass, other methods']


def spellers(names, decoys):
    """{spelling: {name: object}} for the given names; ``decoys[name]`` is what the decoy classes render."""
    import enum

    mixed = enum.Enum('Nuclide', [(f'N{i}', nm) for i, nm in enumerate(names)], type=str)
    strenum = enum.StrEnum('NuclideName', [(f'N{i}', nm) for i, nm in enumerate(names)])
    out = {
        'np.str_': {nm: np.str_(nm) for nm in names},
        '(str, Enum) member': {nm: mixed[f'N{i}'] for i, nm in enumerate(names)},
        'StrEnum member': {nm: strenum[f'N{i}'] for i, nm in enumerate(names)},
        'str subclass': {nm: PlainName(nm) for nm in names},
        'str subclass, other text': {nm: DecoyText(nm, decoys[nm]) for nm in names},
        'str subclass, other methods': {nm: DecoyMethods(nm, decoys[nm]) for nm in names},
    }
    for sp, d in out.items():  # the generator's own contract: same characters, equal, same hash
        for nm, o in d.items():
            if not (isinstance(o, str) and chars(o) == nm and o == nm and hash(o) == hash(nm)):
                raise AssertionError(f'speller {sp} broke the name {nm!r}')
    return out


NONROW_KINDS = ['trail_space', 'lower', 'digit_suffix', 'element_suffix', 'truncate_last', 'letter_suffix',
                'lead_space', 'leading_zero']


def spelled_names(rng, ctx, t, J, call, work, all_names, A):
    """The name argument in every form a ``str`` can take (np.str_, enum members with a str mixin, StrEnum,
    user subclasses that render or transform as ANOTHER name): a row name in any of them is that row, a
    non-row in any of them is refused.  Also the calling conventions of the two entry points, a second use
    after a refusal and after the results were displayed / compared / copied."""
    import copy
    import dataclasses
    import pickle

    fns = ('Atom.for_isotope', 'ScatteringParams.for_isotope')
    rows, decoys = [], {}
    for fn_file in tables.FILES:
        mine = [nm for _, f, nm in work if f == fn_file][:3]
        pool = sorted(t.raw[fn_file])
        for nm in mine:
            d = nm
            while d == nm:
                d = pool[int(rng.integers(0, len(pool)))]
            decoys[nm] = d  # another row of the same table: using the text instead of the name gives ITS data
            rows.append(nm)
    rows = list(dict.fromkeys(rows))
    nonrows = []
    k = 0
    while len(nonrows) < 4 and k < 200:
        base = rows[k % len(rows)]
        v = make_variant(NONROW_KINDS[k % len(NONROW_KINDS)], base, rng, all_names, [''])
        k += 1
        if v and t.atom(v) is None and t.scattering_row(v) is None and v not in decoys:
            nonrows.append(v)
            decoys[v] = base  # renders as the real name it was derived from
    forms = spellers(rows + nonrows, decoys)
    for sp in SPELLINGS:
        for nm in rows + nonrows:
            is_row = nm in rows
            o = forms[sp][nm]
            J.cur = {'kind': 'spelling:' + sp, 'base': decoys[nm] if not is_row else None}
            ctx.hit('spell:' + sp + ('' if is_row else ', not a row'))
            for fn in fns:
                before = ctx.n_violations
                out, res = call(fn, o)
                ctx.event('spelled_name.judged')
                if out.startswith('rejected'):
                    ctx.event('near_miss.rejected')
                ctx.case((fn, 'spelled', sp, out.split(':')[0]))
                if ctx.n_violations > before:
                    ctx.sample({'function': fn, 'name': nm, 'given_as': sp, 'renders_as': str(o)[:40],
                                'outcome': out})
            # the plain string afterwards: the spelled lookups left nothing behind
            for fn in fns:
                call(fn, nm)

    # ------------------------------------------------------ calling conventions ---
    atom_cls, sp_cls = A.Atom, A.ScatteringParams
    holder = {}

    def via(fn, how, name):
        f = {'Atom.for_isotope': atom_cls, 'ScatteringParams.for_isotope': sp_cls}[fn]
        try:
            if how == 'keyword':
                res, exc = f.for_isotope(isotope=name), None
            elif how == 'instance':
                res, exc = holder[fn].for_isotope(name), None
            else:
                res, exc = f.__dict__['for_isotope'].__get__(None, f)(name), None
        except Exception as e:  # noqa: BLE001
            res, exc = None, e
        return J.lookup(fn, name, res, exc, 'call'), res

    for fn in fns:
        pick = [nm for nm in rows if (t.atom(nm) if fn == 'Atom.for_isotope' else t.scattering_row(nm)) is not None]
        out, holder[fn] = call(fn, pick[0])
        for how in ('keyword', 'instance', 'descriptor'):
            J.cur = {'kind': 'convention:' + how, 'base': None}
            ctx.hit('conv:lookup ' + how)
            for nm in pick[:3] + nonrows[:1]:
                out, _ = via(fn, how, nm)
                ctx.case((fn, 'convention', how, out.split(':')[0]))
        # ------------------------------------- second use: after a refusal, after display / copy ---
        J.cur = {'kind': 'second use', 'base': None}
        for nm in pick[:3]:
            out, _ = call(fn, nm + ' ')
            out2, _ = call(fn, nm)
            ctx.hit('again:row asked after its near miss was refused')
            ctx.case((fn, 'second_use', 'after refusal', out.split(':')[0], out2))
            out, res = call(fn, nm)
            if res is None:
                continue
            done = []
            for what, f in (('repr', lambda r: repr(r)), ('str', lambda r: str(r)),
                            ('format', lambda r: f'{r}'),
                            ('==', lambda r: (r == r, r == copy.copy(r), r != holder[fn], r == nm)),
                            ('copy', lambda r: copy.copy(r)), ('deepcopy', lambda r: copy.deepcopy(r)),
                            ('replace', lambda r: dataclasses.replace(r, isotope='Xx')),
                            ('asdict', lambda r: dataclasses.asdict(r)),
                            ('hash', lambda r: hash(r)),
                            ('pickle', lambda r: pickle.loads(pickle.dumps(r)))):  # noqa: S301
                try:
                    f(res)
                    done.append(what)
                except Exception as e:  # noqa: BLE001  (what the objects support is not C20's subject)
                    ctx.count(f'between:{what} of a result not possible:{type(e).__name__}')
            out3, _ = call(fn, nm)  # judged, and bitwise the same as every earlier answer for this name
            ctx.hit('between:results displayed, compared and copied between two lookups')
            ctx.case((fn, 'second_use', 'after display/copy', out3, len(done)))


# ------------------------------------------------------------------- workloads ---
DENS_UNITS = ['1/angstrom^3', '1/nm^3', '1/um^3', '1/mm^3', '1/cm^3', '1/m^3', '1/pm^3']
WAV_UNITS = ['angstrom', 'nm', 'pm', 'um', 'mm', 'cm', 'm', 'fm']
AREA_UNITS = ['barn', 'fm^2', 'angstrom^2', 'mm^2', 'm^2', 'cm^2', 'nm^2']


def _in_unit(x_si, unit):
    return np.asarray(x_si, dtype=float) / float(si.lookup(sc.Unit(unit))[0])


def _var_like(values, dims, unit):
    values = np.asarray(values, dtype=np.float64)
    if not dims:
        return sc.scalar(float(values.ravel()[0]), unit=unit)
    return sc.array(dims=dims, values=values, unit=unit)


def gen_attenuation(rng, ctx, sp_lookup, sp_cls, i):
    """One direct call: (material, wavelength, signature, description)."""
    t = T()
    shape_cls = ['scalar', 'dense_1d', 'dense_2d', 'scalar', 'dense_1d'][i % 5]
    table = (i % 2 == 0)
    n_unit = DENS_UNITS[int(rng.integers(0, len(DENS_UNITS)))]
    w_unit = WAV_UNITS[int(rng.integers(0, len(WAV_UNITS)))]
    nw = int(rng.integers(1, 40))
    nx = int(rng.integers(1, 5))
    n_si = 10.0 ** rng.uniform(24, 31, size=nx)
    w_si = 10.0 ** rng.uniform(-12, -6, size=nw * nx)
    if shape_cls == 'scalar':
        wl = _var_like(_in_unit(w_si[:1], w_unit), [], w_unit)
        n = _var_like(_in_unit(n_si[:1], n_unit), [], n_unit)
    elif shape_cls == 'dense_1d':
        wl = _var_like(_in_unit(w_si[:nw], w_unit), ['wavelength'], w_unit)
        n = _var_like(_in_unit(n_si[:1], n_unit), [], n_unit)
    else:
        wl = _var_like(_in_unit(w_si, w_unit).reshape(nx, nw), ['x', 'wavelength'], w_unit)
        n = _var_like(_in_unit(n_si, n_unit), ['x'], n_unit)
    if table:
        names = sorted(t.scattering)
        if i == 0:  # forced: a row with a blank cross-section
            names = [k for k in names if t.scattering[k]['total_scattering_cross_section'] is None
                     or t.scattering[k]['absorption_cross_section'] is None] or names
        name = names[int(rng.integers(0, len(names)))]
        params = sp_lookup(name)
        s_unit = 'barn'
        row = t.scattering[name]
        kind = 'table:' + ('blank' if row['total_scattering_cross_section'] is None
                           or row['absorption_cross_section'] is None else
                           'unc' if (row['total_scattering_cross_section'].std_exact is not None
                                     or row['absorption_cross_section'].std_exact is not None) else 'plain')
        ctx.hit('att:table')
    else:
        s_unit = AREA_UNITS[int(rng.integers(0, len(AREA_UNITS)))]
        a_unit = s_unit if rng.random() < 0.6 else AREA_UNITS[int(rng.integers(0, len(AREA_UNITS)))]
        ss_si = 10.0 ** rng.uniform(-32, -24)
        sa_si = 10.0 ** rng.uniform(-32, -22)
        u = rng.random()
        u = 0.05 if i == 1 else 0.15 if i == 3 else u  # forced classes
        kind = 'synthetic'
        if u < 0.1:
            sa_si = 0.0
            kind = 'synthetic:sigma_a=0'
            ctx.hit('att:sigma_a=0')
        elif u < 0.2:
            ss_si = 0.0
            kind = 'synthetic:sigma_s=0'
            ctx.hit('att:sigma_s=0')
        # decoy values in the fields the law does not use
        decoy = lambda: sc.scalar(float(10.0 ** rng.uniform(-3, 3)), unit='barn')  # noqa: E731
        params = sp_cls(
            isotope='synthetic',
            coherent_scattering_length_re=sc.scalar(float(rng.uniform(-10, 10)), unit='fm'),
            coherent_scattering_cross_section=decoy(),
            incoherent_scattering_cross_section=decoy(),
            total_scattering_cross_section=sc.scalar(float(_in_unit(ss_si, s_unit)), unit=s_unit),
            absorption_cross_section=sc.scalar(float(_in_unit(sa_si, a_unit)), unit=a_unit),
        )
        name = 'synthetic'
        ctx.hit('att:synthetic')
    ctx.hit('att:' + shape_cls)
    sig = ('attenuation', kind, n_unit, w_unit, s_unit, shape_cls,
           int(np.floor(np.log10(float(np.median(w_si))))))
    return params, n, wl, sig, name


def _synthetic_params(rng, sp_cls, isotope='synthetic'):
    """ScatteringParams with cross-sections in independent area units and decoys elsewhere."""
    s_unit = AREA_UNITS[int(rng.integers(0, len(AREA_UNITS)))]
    a_unit = s_unit if rng.random() < 0.5 else AREA_UNITS[int(rng.integers(0, len(AREA_UNITS)))]
    ss_si = 10.0 ** rng.uniform(-32, -24)
    sa_si = 10.0 ** rng.uniform(-32, -22)
    decoy = lambda: sc.scalar(float(10.0 ** rng.uniform(-3, 3)), unit='barn')  # noqa: E731
    return sp_cls(
        isotope=isotope,
        coherent_scattering_length_re=sc.scalar(float(rng.uniform(-10, 10)), unit='fm'),
        coherent_scattering_cross_section=decoy(),
        incoherent_scattering_cross_section=decoy(),
        total_scattering_cross_section=sc.scalar(float(_in_unit(ss_si, s_unit)), unit=s_unit),
        absorption_cross_section=sc.scalar(float(_in_unit(sa_si, a_unit)), unit=a_unit),
    )


def _row_kinds():
    t = T()
    plain, unc, blank = [], [], []
    for k, row in sorted(t.scattering.items()):
        ss, sa = row['total_scattering_cross_section'], row['absorption_cross_section']
        if ss is None or sa is None:
            blank.append(k)
        elif ss.std_exact is None and sa.std_exact is None:
            plain.append(k)
        else:
            unc.append(k)
    return plain, unc, blank


def state_sequence(rng, ctx, scn_abs, sp_cls, sp_lookup, origin):
    """Object state: one live Material (an ordinary mutable dataclass) and the objects derived from it by
    copy.copy / copy.deepcopy / dataclasses.replace / pickle have every public field reassigned (or changed
    in place) between calls; after every step the attenuation is asked for again and the monitor judges it
    against the fields the object has AT THAT CALL.  The steps are enumerated, the materials are drawn."""
    import copy
    import dataclasses
    import pickle

    plain, unc, blank = _row_kinds()
    pick = lambda seq: seq[int(rng.integers(0, len(seq)))]  # noqa: E731

    def params(kind=None):
        kind = kind or ['plain', 'plain', 'unc', 'synthetic', 'synthetic'][int(rng.integers(0, 5))]
        if kind == 'synthetic':
            return _synthetic_params(rng, sp_cls)
        return sp_lookup(pick(plain if kind == 'plain' else unc))

    def density():
        u = pick(DENS_UNITS)
        return sc.scalar(float(_in_unit(10.0 ** rng.uniform(24, 31), u)), unit=u)

    def ask(m, step):
        p = m.scattering_params
        has_var = any(_has_var(getattr(p, f)) for f in ('total_scattering_cross_section',
                                                        'absorption_cross_section'))
        u = pick(WAV_UNITS)
        k = 1 if has_var or rng.random() < 0.5 else int(rng.integers(2, 6))
        w = _in_unit(10.0 ** rng.uniform(-11, -8, size=k), u)
        wl = _var_like(w, [] if k == 1 else ['wavelength'], u)
        origin['v'] = 'state:' + step
        try:
            m.attenuation_coefficient(wl)
        except Exception:  # noqa: BLE001  (judged by the monitor through PY_UNWIND)
            pass
        finally:
            origin['v'] = 'direct'

    m = scn_abs.Material(params(), density())
    ask(m, 'fresh')
    for _ in range(2):
        m.scattering_params = params()
        ask(m, 'scattering_params reassigned')
    m.effective_sample_number_density = density()
    ask(m, 'density reassigned')
    m.scattering_params, m.effective_sample_number_density = params(), density()
    ask(m, 'both fields reassigned')
    # derived objects, specialised afterwards; the original must stay what it is
    c = copy.copy(m)
    ask(c, 'copy.copy')
    c.scattering_params = params()
    ask(c, 'copy.copy then scattering_params reassigned')
    c.effective_sample_number_density = density()
    ask(c, 'copy.copy then density reassigned')
    ask(m, 'original after its copy was changed')
    d = copy.deepcopy(m)
    d.scattering_params = params()
    ask(d, 'copy.deepcopy then scattering_params reassigned')
    r = dataclasses.replace(m, scattering_params=params())
    ask(r, 'dataclasses.replace(scattering_params)')
    r = dataclasses.replace(m, effective_sample_number_density=density())
    ask(r, 'dataclasses.replace(density)')
    r.scattering_params = params()
    ask(r, 'dataclasses.replace then scattering_params reassigned')
    try:
        q = pickle.loads(pickle.dumps(m))  # noqa: S301
        q.scattering_params = params()
        ask(q, 'pickle round trip then scattering_params reassigned')
    except Exception as e:  # noqa: BLE001
        ctx.count('state:pickle not possible:' + type(e).__name__)
    ask(m, 'original after its copy was changed')
    # one cross-section of the (frozen) parameter set replaced
    for field in ('absorption_cross_section', 'total_scattering_cross_section'):
        old = getattr(m.scattering_params, field)
        u = pick(AREA_UNITS)
        newv = sc.scalar(float(_in_unit(10.0 ** rng.uniform(-31, -24), u)), unit=u)
        m.scattering_params = dataclasses.replace(m.scattering_params, **{field: newv})
        ask(m, 'one cross-section replaced')
        del old
    # in-place changes of variables the driver owns (never of cached table results)
    m.effective_sample_number_density = density()
    ask(m, 'density reassigned')
    m.effective_sample_number_density *= float(rng.uniform(1.5, 9))
    ask(m, 'density changed in place')
    own = _synthetic_params(rng, sp_cls)
    m.scattering_params = own
    ask(m, 'scattering_params reassigned')
    own.absorption_cross_section.value = own.absorption_cross_section.value * float(rng.uniform(2, 50)) + 1e-3
    ask(m, 'cross-section changed in place')
    own.total_scattering_cross_section.value = own.total_scattering_cross_section.value * float(rng.uniform(2, 50))
    ask(m, 'cross-section changed in place')
    # blank rows: no attenuation while the blank row is there, an ordinary one afterwards
    if blank:
        m.scattering_params = sp_lookup(pick(blank))
        ask(m, 'reassigned to a blank row')
        m.scattering_params = params('plain')
        ask(m, 'reassigned from a blank row')
        try:
            mb = scn_abs.Material(sp_lookup(pick(blank)), density())
        except Exception as e:  # noqa: BLE001  (refusing the blank row already at construction is a refusal)
            ctx.count('attenuation:blank_rejected_at_construction:' + type(e).__name__)
        else:
            mb.scattering_params = params('plain')
            ask(mb, 'reassigned from a blank row')


STATE_CLASSES = [
    'fresh', 'scattering_params reassigned', 'density reassigned', 'both fields reassigned', 'copy.copy',
    'copy.copy then scattering_params reassigned', 'copy.copy then density reassigned',
    'original after its copy was changed', 'copy.deepcopy then scattering_params reassigned',
    'dataclasses.replace(scattering_params)', 'dataclasses.replace(density)',
    'dataclasses.replace then scattering_params reassigned', 'one cross-section replaced',
    'density changed in place', 'cross-section changed in place', 'reassigned from a blank row',
]


def in_situ_case(rng, ctx, scn_abs, sp_lookup, live=False):
    """compute_transmission_map drives attenuation_coefficient once per wavelength."""
    t = T()
    # rows whose cross-sections carry no uncertainty: with variances the pipeline *after*
    # attenuation_coefficient (mu * path lengths) is refused by scipp, which is not C20's subject
    plain = [k for k, row in sorted(t.scattering.items())
             if row['total_scattering_cross_section'] is not None
             and row['absorption_cross_section'] is not None
             and row['total_scattering_cross_section'].std_exact is None
             and row['absorption_cross_section'].std_exact is None]
    name = plain[int(rng.integers(0, len(plain)))]
    dens = sc.scalar(float(10 ** rng.uniform(-3, -1)), unit='1/angstrom^3')
    if live:
        # the pipeline is handed a live object whose fields were reassigned after construction
        import copy
        first = scn_abs.Material(sp_lookup(plain[int(rng.integers(0, len(plain)))]),
                                 sc.scalar(float(10 ** rng.uniform(-3, -1)), unit='1/angstrom^3'))
        material = copy.copy(first)
        material.scattering_params = sp_lookup(name)
        material.effective_sample_number_density = dens
        ctx.hit('att:in_situ with a reassigned material')
    else:
        material = scn_abs.Material(sp_lookup(name), dens)
    cyl = scn_abs.Cylinder(sc.vector([0, 1.0, 0]), sc.vector([0, 0, 0.0], unit='mm'),
                           sc.scalar(float(rng.uniform(0.5, 3)), unit='mm'),
                           sc.scalar(float(rng.uniform(0.5, 3)), unit='mm'))
    w_unit = ['angstrom', 'nm', 'pm'][int(rng.integers(0, 3))]
    wl = sc.array(dims=['wavelength'], values=_in_unit(10.0 ** rng.uniform(-11, -9, size=3), w_unit),
                  unit=w_unit)
    scn_abs.compute_transmission_map(
        cyl, material, beam_direction=sc.vector([0, 0, 1.0]), wavelength=wl,
        detector_position=sc.vectors(dims=['x'], values=[[0, 0, 1.0], [1.0, 0, 0]], unit='m'),
        quadrature_kind='cheap')
    ctx.hit('att:in_situ')
    return ('attenuation', 'in_situ', w_unit, name in t.weights)


# ------------------------------------------------ enumerated attenuation classes ---
HEAVY_SHARD = 5
DIM_NAMES = ['row', 'event', 'x', 'λ', 'wave length', 'range', 'vertex', 'dim_0', 'wavelength ', 'Wavelength']
EXTRA_CLASSES = [
    'conv:keywords', 'conv:mixed positional and keyword', 'conv:unbound method',
    'conv:unbound method, keywords', 'conv:node of a transform_coords graph',
    'var:wavelength with variances', 'var:wavelength with variances, 1-d', 'var:density with variances',
    'var:all four operands with variances',
    'dtype:int64 wavelength', 'dtype:int32 wavelength', 'dtype:float32 wavelength', 'dtype:int64 density',
    'dtype:float32 density', 'dtype:float32 cross-sections',
    'layout:transposed view', 'layout:strided slice', 'layout:slice of the outer dim', 'layout:3-d wavelength',
    'layout:caller dim names', 'size:empty wavelength', 'size:length 1',
    'duck:stand-in for ScatteringParams', 'duck:ScatteringParams subclass with computed cross-sections',
    'duck:Material subclass', 'again:same objects twice', 'again:after a refused call',
    'again:result fed back as wavelength', 'between:material displayed, compared and copied between two calls',
]
HEAVY_CLASSES = ['size:2**20 + 7 wavelengths', 'size:3 x 400001 wavelengths']
# classes whose call the attenuation monitor decides against the law (an empty wavelength has nothing to decide)
JUDGED_EXTRA = [c for c in EXTRA_CLASSES if c != 'size:empty wavelength']


def extra_attenuation(rng, ctx, scn_abs, A, sp_lookup, origin, heavy):
    """One case per class of EXTRA_CLASSES (every shard) and of HEAVY_CLASSES (one shard): calling conventions,
    operands with variances, dtypes, memory layouts and dim names, sizes, stand-ins for the argument classes,
    second use.  Every call goes through the attenuation monitor, which knows nothing of the class."""
    import copy
    import dataclasses
    from types import SimpleNamespace

    Material, sp_cls = scn_abs.Material, A.ScatteringParams
    plain, unc, blank = _row_kinds()
    pick = lambda seq: seq[int(rng.integers(0, len(seq)))]  # noqa: E731

    def dens(dims=(), shape=(), unit=None, dtype=None, rel_std=None):
        u = unit or pick(DENS_UNITS)
        vals = _in_unit(10.0 ** rng.uniform(24, 31, size=shape or None), u)
        v = sc.array(dims=list(dims), values=vals, unit=u) if dims else sc.scalar(float(vals), unit=u)
        if dtype:
            v = v.astype(dtype)
        if rel_std:
            v.variances = (np.asarray(v.values) * rel_std) ** 2
        return v

    def wav(dims=(), shape=(), unit=None, dtype=None, rel_std=None):
        u = unit or pick(WAV_UNITS)
        vals = _in_unit(10.0 ** rng.uniform(-11, -8, size=shape or None), u)
        v = sc.array(dims=list(dims), values=vals, unit=u) if dims else sc.scalar(float(vals), unit=u)
        if dtype:
            v = v.astype(dtype)
        if rel_std:
            v.variances = (np.asarray(v.values) * rel_std) ** 2
        return v

    def table_params():
        return sp_lookup(pick(plain))

    class Box:
        res = None

    def ask(label, f, mark=None):
        origin['v'] = mark or ('extra:' + label)
        ctx.hit(label)
        try:
            Box.res = f()
        except Exception:  # noqa: BLE001  (judged by the monitor through PY_UNWIND)
            Box.res = None
        finally:
            origin['v'] = 'direct'
        ctx.case(('attenuation', 'extra', label))
        return Box.res

    # ----------------------------------------------------------- conventions ---
    p, n, wl = table_params(), dens(), wav(['wavelength'], [4])
    m = Material(scattering_params=p, effective_sample_number_density=n)
    ask('conv:keywords', lambda: m.attenuation_coefficient(wavelength=wl))
    m = Material(table_params(), effective_sample_number_density=dens())
    ask('conv:mixed positional and keyword', lambda: m.attenuation_coefficient(wav()))
    ask('conv:unbound method', lambda: Material.attenuation_coefficient(m, wl))
    ask('conv:unbound method, keywords', lambda: Material.attenuation_coefficient(self=m, wavelength=wl))
    direct = ask('conv:keywords', lambda: m.attenuation_coefficient(wavelength=wl))
    da = sc.DataArray(sc.ones(dims=['wavelength'], shape=[4]), coords={'wavelength': wl})
    tried = {}

    def as_node():
        try:
            return da.transform_coords('mu', graph={'mu': m.attenuation_coefficient},
                                       rename_dims=False).coords['mu']
        except Exception as e:  # noqa: BLE001
            tried['exc'] = e
            raise

    via_graph = ask('conv:node of a transform_coords graph', as_node)
    if direct is not None:
        ctx.event('attenuation.as_graph_node')
        case = {'function': 'Material.attenuation_coefficient', 'used_as': "graph={'mu': material."
                "attenuation_coefficient} of transform_coords on a DataArray with a 'wavelength' coordinate",
                'wavelength': describe(wl)}
        if via_graph is None:
            e = tried.get('exc')
            ctx.violation('attenuation_as_graph_node', 'the bound method cannot be used as a node of a coordinate '
                          f'graph although the direct call answers: {type(e).__name__}: {e}', case,
                          aspect='raised')
        elif not sc.identical(sc.values(via_graph), sc.values(direct)):
            ctx.violation('attenuation_as_graph_node', 'the coordinate computed through the graph differs from '
                          'the direct call', case, aspect='differs')

    # -------------------------------------------------------------- variances ---
    m = Material(table_params(), dens())
    ask('var:wavelength with variances', lambda: m.attenuation_coefficient(wav(rel_std=0.05)))
    ask('var:wavelength with variances, 1-d',
        lambda: m.attenuation_coefficient(wav(['wavelength'], [5], rel_std=0.01)))
    mv = Material(table_params(), dens(rel_std=0.02))
    ask('var:density with variances', lambda: mv.attenuation_coefficient(wav()))
    own = _synthetic_params(rng, sp_cls)
    for f in ('total_scattering_cross_section', 'absorption_cross_section'):
        x = getattr(own, f)
        x.variance = (float(x.value) * float(rng.uniform(0.001, 0.2))) ** 2
    ma = Material(own, dens(rel_std=0.03))
    ask('var:all four operands with variances', lambda: ma.attenuation_coefficient(wav(rel_std=0.04)))

    # ----------------------------------------------------------------- dtypes ---
    m = Material(table_params(), dens())
    for dt, unit in (('int64', 'angstrom'), ('int32', 'nm'), ('float32', None)):
        if dt == 'float32':
            w = wav(['wavelength'], [6], dtype='float32')
        else:
            w = sc.array(dims=['wavelength'], values=rng.integers(1, 40, size=6), unit=unit, dtype=dt)
        ask(f'dtype:{dt} wavelength', lambda w=w: m.attenuation_coefficient(w))
    mi = Material(table_params(), sc.scalar(int(rng.integers(1, 90)), unit='1/nm^3', dtype='int64'))
    ask('dtype:int64 density', lambda: mi.attenuation_coefficient(wav(['wavelength'], [3])))
    mf = Material(table_params(), dens(dtype='float32', unit='1/angstrom^3'))
    ask('dtype:float32 density', lambda: mf.attenuation_coefficient(wav()))
    own = _synthetic_params(rng, sp_cls)
    own = dataclasses.replace(own, total_scattering_cross_section=own.total_scattering_cross_section.astype('float32'),
                              absorption_cross_section=own.absorption_cross_section.astype('float32'))
    mo = Material(own, dens())
    ask('dtype:float32 cross-sections', lambda: mo.attenuation_coefficient(wav(['wavelength'], [3])))

    # ---------------------------------------------------- layouts, dim names ---
    w2 = wav(['x', 'wavelength'], [3, 8])
    m2 = Material(table_params(), dens(['x'], [3]))
    ask('layout:transposed view', lambda: m2.attenuation_coefficient(w2.transpose()))
    ask('layout:strided slice', lambda: m2.attenuation_coefficient(w2['wavelength', 1::3]))
    ask('layout:slice of the outer dim', lambda: m.attenuation_coefficient(w2['x', 1]))
    w3 = wav(['a', 'b', 'c'], [2, 3, 4])
    m3 = Material(table_params(), dens(['b'], [3]))
    ask('layout:3-d wavelength', lambda: m3.attenuation_coefficient(w3))
    for k in range(3):
        d1, d2 = (DIM_NAMES[int(i)] for i in rng.permutation(len(DIM_NAMES))[:2])
        wn = wav([d1, d2], [2, 3])
        mn = Material(table_params(), dens([d1] if k % 2 else [d2], [2] if k % 2 else [3]))
        ask('layout:caller dim names', lambda wn=wn, mn=mn: mn.attenuation_coefficient(wn))

    # ------------------------------------------------------------------ sizes ---
    ask('size:empty wavelength', lambda: m.attenuation_coefficient(wav(['wavelength'], [0])))
    ask('size:length 1', lambda: m.attenuation_coefficient(wav(['wavelength'], [1])))
    if heavy:
        big = wav(['wavelength'], [2 ** 20 + 7], unit='angstrom')
        ask('size:2**20 + 7 wavelengths', lambda: m.attenuation_coefficient(big))
        big2 = wav(['x', 'wavelength'], [3, 400001], unit='nm')
        ask('size:3 x 400001 wavelengths', lambda: m2.attenuation_coefficient(big2))
        del big, big2

    # -------------------------------------- stand-ins for the argument classes ---
    src = _synthetic_params(rng, sp_cls)
    duck = SimpleNamespace(isotope='stand-in', total_scattering_cross_section=src.total_scattering_cross_section,
                           absorption_cross_section=src.absorption_cross_section)
    md = Material(duck, dens())
    ask('duck:stand-in for ScatteringParams', lambda: md.attenuation_coefficient(wav(['wavelength'], [3])))

    class Mixture(sp_cls):
        """Cross-sections computed on every access from the parts (isotope mixture)."""

        def __init__(self, parts, shares):
            object.__setattr__(self, 'isotope', 'mixture')
            object.__setattr__(self, 'parts', parts)
            object.__setattr__(self, 'shares', shares)

        def _mix(self, field):
            return sum((getattr(q, field) * c for q, c in zip(self.parts[1:], self.shares[1:], strict=True)),
                       getattr(self.parts[0], field) * self.shares[0])

        total_scattering_cross_section = property(lambda self: self._mix('total_scattering_cross_section'))
        absorption_cross_section = property(lambda self: self._mix('absorption_cross_section'))

    share = float(rng.uniform(0.1, 0.9))
    mix = Mixture([sp_lookup(pick(plain)), sp_lookup(pick(plain))], [share, 1 - share])
    mm = Material(mix, dens())
    ask('duck:ScatteringParams subclass with computed cross-sections',
        lambda: mm.attenuation_coefficient(wav(['wavelength'], [3])))

    @dataclasses.dataclass
    class Sample(Material):
        label: str = 'sample'

        def __repr__(self):
            return f'Sample({self.label})'

    ms = Sample(table_params(), dens(), label='can')
    ask('duck:Material subclass', lambda: ms.attenuation_coefficient(wav(['wavelength'], [3])))

    # -------------------------------------------------------------- second use ---
    m, w = Material(table_params(), dens()), wav(['wavelength'], [5])
    r1 = ask('again:same objects twice', lambda: m.attenuation_coefficient(w))
    r2 = ask('again:same objects twice', lambda: m.attenuation_coefficient(w))
    ask('again:after a refused call',
        lambda: m.attenuation_coefficient(sc.array(dims=['wavelength'], values=[1.0, 2.0], unit='s')),
        mark='not a wavelength:a time')
    r3 = ask('again:after a refused call', lambda: m.attenuation_coefficient(w))
    if r1 is not None:
        ask('again:result fed back as wavelength', lambda: m.attenuation_coefficient(r1),
            mark='not a wavelength:an attenuation coefficient')
    r4 = ask('again:result fed back as wavelength', lambda: m.attenuation_coefficient(w))
    done = 0
    for f in (repr, str, lambda o: f'{o}', lambda o: o == copy.copy(o), lambda o: o != m2, copy.copy, copy.deepcopy,
              dataclasses.asdict, lambda o: repr(o.scattering_params), lambda o: str(o.effective_sample_number_density),
              lambda o: o.scattering_params == copy.deepcopy(o.scattering_params)):
        try:
            f(m)
            done += 1
        except Exception as e:  # noqa: BLE001
            ctx.count('between:operation on a Material not possible:' + type(e).__name__)
    r5 = ask('between:material displayed, compared and copied between two calls',
             lambda: m.attenuation_coefficient(w))
    ctx.event('attenuation.second_use')
    fps = [fp(r) if r is not None else None for r in (r1, r2, r3, r4, r5)]
    if len(set(fps)) != 1:
        which = ['first call', 'second call', 'after a refused call', 'after the result was fed back',
                 'after display / comparison / copy']
        k = next(i for i, x in enumerate(fps) if x != fps[0])
        ctx.violation('attenuation_history_dependent', 'the same material asked with the same wavelength answered '
                      f'differently {which[k]}', {'function': 'Material.attenuation_coefficient',
                                                  'wavelength': describe(w), 'answers': [describe(r) for r in
                                                                                         (r1, r2, r3, r4, r5)]},
                      stage=which[k])


# ---------------------------------------------------------------------- driver ---
def plan(tier, seed):
    near = 320 if tier == 'quick' else 1250
    att = 32 if tier == 'quick' else 1250
    return [{'near': near, 'att': att, 'insitu': 2 if tier == 'quick' else 12,
             'state': 3 if tier == 'quick' else 60, 'nshards': N_SHARDS}
            for _ in range(N_SHARDS)]


def _row_classes_present():
    """Row classes that must be met because the bundled tables contain them (oracle's view)."""
    try:
        t = T()
    except Exception:  # noqa: BLE001  (run() reports an unreadable table as inconclusive)
        return []
    out = ['row:element_without_mass']
    if any(w is None for _, w in t.weights.values()):
        out.append('row:blank_weight')
    if any(q.std_exact == 0 for q in t.masses.values()) or any(
            w is not None and w.std_exact == 0 for _, w in t.weights.values()):
        out.append('row:zero_uncertainty')
    if any(q is None for row in t.scattering.values() for q in row.values()):
        out.append('row:blank_scattering_cell')
    if any(row['total_scattering_cross_section'] is None or row['absorption_cross_section'] is None
           for row in t.scattering.values()):
        out.append('att:blank_cross_section')
    return out


def requirements(tier):
    rows = tables.PINNED_ROWS
    n_att = (32 if tier == 'quick' else 1250) * N_SHARDS
    n_near = (320 if tier == 'quick' else 1250) * N_SHARDS
    return {
        'events': {
            'Atom.for_isotope': rows['atomic_weights.csv'] + rows['atomic_masses.csv'],
            'ScatteringParams.for_isotope': rows['scattering_parameters.csv'],
            'Atom.for_isotope.call': 3 * (rows['atomic_weights.csv'] + rows['atomic_masses.csv']),
            'ScatteringParams.for_isotope.call': 3 * rows['scattering_parameters.csv'],
            '_find_line_with_isotope': 4046,
            '_parse_isotope_name': rows['atomic_weights.csv'] + rows['atomic_masses.csv'],
            '_assemble_scalar': 16 * rows['scattering_parameters.csv'],
            'reference_wavelength': n_att // 4,
            'Material.attenuation_coefficient': n_att // 3,
            'Material.attenuation_coefficient[in situ]': 3 * N_SHARDS,
            'Material.attenuation_coefficient[live object]': (3 if tier == 'quick' else 60) * 15 * N_SHARDS,
            'history.same_answer': 2 * 4046,
            'near_miss.rejected': n_near,
            'spelled_name.judged': N_SHARDS * len(SPELLINGS) * 2 * 10,
            'attenuation.as_graph_node': N_SHARDS,
            'attenuation.second_use': N_SHARDS,
            'attenuation.empty_wavelength': N_SHARDS,
            'Material.attenuation_coefficient[enumerated classes]': N_SHARDS * len(JUDGED_EXTRA),
            'Material.attenuation_coefficient[variances]': N_SHARDS * 4,
        },
        'forced': ['kind:' + k for k in KINDS] + [
            'att:table', 'att:synthetic', 'att:scalar', 'att:dense_1d', 'att:dense_2d', 'att:in_situ',
            'att:sigma_a=0', 'att:sigma_s=0', 'cache:hit', 'cache:miss_after_eviction',
            'att:in_situ with a reassigned material',
            'repeat:asked again within a block of 64', 'repeat:asked again after 140 other names',
            'size:name longer than 8192 characters', 'conv:lookup keyword', 'conv:lookup instance', 'conv:lookup descriptor',
            'again:row asked after its near miss was refused',
            'between:results displayed, compared and copied between two lookups',
            'var:from wl', 'var:from n', 'var:from n+ss+sa+wl',
        ] + ['state:' + c for c in STATE_CLASSES] + _row_classes_present() + [
            'spell:' + sp for sp in SPELLINGS] + ['spell:' + sp + ', not a row' for sp in SPELLINGS
        ] + EXTRA_CLASSES + HEAVY_CLASSES + ['judged:' + c for c in JUDGED_EXTRA + HEAVY_CLASSES],
        'counters': {
            'rows_decided:scattering_parameters.csv': rows['scattering_parameters.csv'],
            'rows_decided:atomic_weights.csv': rows['atomic_weights.csv'],
            'rows_decided:atomic_masses.csv': rows['atomic_masses.csv'],
        },
    }


def run(shard, ctx):
    from scippneutron import absorption as scn_abs
    from scippneutron import atoms as A
    from scippneutron.absorption import material as M

    bad = si.self_test()
    if bad:
        ctx.inconclusive_because('unit table cross-check failed: ' + '; '.join(bad))
        return
    try:
        t = T()
        chk = tables.layout_self_check(t)
    except tables.TableFormatError as e:
        ctx.inconclusive_because(f'the oracle cannot read the bundled tables: {e}')
        return
    if (chk['coh_rows'] < 100 or chk['coh_agree'] < 0.9 * chk['coh_rows']
            or chk['sum_agree'] < 0.9 * chk['sum_rows']):
        ctx.inconclusive_because(f'scattering-table layout not confirmed by the physics: {chk}')
        return
    ctx.extra['exhaustive'] = True
    ctx.extra['exhaustive_subspace'] = 'all rows of the three bundled tables (both tiers)'
    ctx.extra['table_rows'] = {'scattering_parameters.csv': len(t.scattering),
                               'atomic_weights.csv': len(t.weights), 'atomic_masses.csv': len(t.masses)}
    ctx.extra['table_sha256'] = t.sha256
    ctx.extra['layout_self_check'] = chk
    for fn, n in tables.PINNED_ROWS.items():
        if ctx.extra['table_rows'][fn] < n:
            ctx.inconclusive_because(f'{fn} has {ctx.extra["table_rows"][fn]} rows, the property '
                                     f'quantifies over {n}')

    idx, nsh = int(shard['index']), int(shard.get('nshards', N_SHARDS))
    rng = np.random.Generator(np.random.PCG64([shard['seed'], idx, 20]))
    # History probe: do to earlier results what a caller may do (in-place arithmetic on the returned
    # variables). Lookups and the reference wavelength must be unaffected, so everything judged below runs
    # after this; on a tree where results are independent objects this is a no-op.
    try:
        w = A.reference_wavelength()
        w *= 2
        for name in ('V', 'Cd', 'H', '3He'):
            p_ = A.ScatteringParams.for_isotope(name)
            for f in ('absorption_cross_section', 'total_scattering_cross_section',
                      'coherent_scattering_length_re'):
                v = getattr(p_, f)
                if v is not None:
                    v *= 3
            a_ = A.Atom.for_isotope(name)
            for f in ('atomic_weight', 'atomic_mass'):
                try:
                    v = getattr(a_, f)
                    v *= 3
                except ValueError:
                    pass
        ctx.count('history probe: earlier results mutated in place before the judged lookups')
    except Exception as e:  # noqa: BLE001
        ctx.count(f'history probe could not mutate: {type(e).__name__}')
    J = Judge(ctx, A.Atom, A.ScatteringParams)
    origin = {'v': 'direct'}

    def safe(where, f):
        # an exception of a monitor must never propagate into the code it watches
        def on_return(ev):
            try:
                f(ev)
            except Exception:  # noqa: BLE001
                ctx.oracle_error('C20 monitor ' + where)
        return on_return

    tr = Tracer()
    tr.watch(A.Atom.for_isotope, 'Atom.for_isotope',
             on_return=safe('Atom.for_isotope', lambda ev: J.lookup(
                 'Atom.for_isotope', ev.args.get('isotope'), ev.result, ev.exc, 'traced')))
    tr.watch(A.ScatteringParams.for_isotope, 'ScatteringParams.for_isotope',
             on_return=safe('ScatteringParams.for_isotope', lambda ev: J.lookup(
                 'ScatteringParams.for_isotope', ev.args.get('isotope'), ev.result, ev.exc, 'traced')))
    tr.watch(A._find_line_with_isotope, '_find_line_with_isotope',
             on_return=safe('_find_line_with_isotope', lambda ev: judge_find_line(ctx, ev)))
    tr.watch(A._parse_isotope_name, '_parse_isotope_name',
             on_return=safe('_parse_isotope_name', lambda ev: judge_parse_name(ctx, ev)))
    tr.watch(A._assemble_scalar, '_assemble_scalar',
             on_return=safe('_assemble_scalar', lambda ev: judge_assemble(ctx, ev)))
    tr.watch(A.reference_wavelength, 'reference_wavelength',
             on_return=safe('reference_wavelength', lambda ev: judge_reference_wavelength(ctx, ev)))
    tr.watch(M.Material.attenuation_coefficient, 'Material.attenuation_coefficient',
             on_start=snapshot_material,
             on_return=safe('attenuation_coefficient', lambda ev: judge_attenuation(ctx, ev, origin)))

    entry = {'Atom.for_isotope': A.Atom.for_isotope,
             'ScatteringParams.for_isotope': A.ScatteringParams.for_isotope}

    def call(fn, name):
        """Drive the real cached entry point and judge what the caller receives."""
        try:
            res, exc = entry[fn](name), None
        except BaseException as e:  # noqa: BLE001
            if isinstance(e, KeyboardInterrupt | SystemExit | MemoryError):
                raise
            res, exc = None, e
        return J.lookup(fn, name, res, exc, 'call'), res

    # every memoising wrapper of the atoms module, wherever it sits (entry point, loader, helper): which
    # function carries the cache is the package's business, the evidence only says that repeated lookups
    # were served from one
    caches = []
    for holder_ in (A, A.Atom, A.ScatteringParams):
        for obj in list(vars(holder_).values()):
            obj = getattr(obj, '__func__', obj)
            if callable(getattr(obj, 'cache_info', None)) and not any(obj is c for c in caches):
                caches.append(obj)
    ctx.extra['memoised_functions'] = sorted(getattr(c, '__qualname__', repr(c)) for c in caches)

    def hits():
        return sum(c.cache_info().hits for c in caches)

    with tr:
        # ---------------------------------------------------- exhaustive rows ---
        work = []
        for fn_file, fn in (('scattering_parameters.csv', 'ScatteringParams.for_isotope'),
                            ('atomic_weights.csv', 'Atom.for_isotope'),
                            ('atomic_masses.csv', 'Atom.for_isotope')):
            names = sorted(t.raw[fn_file])[idx::nsh]
            work.extend((fn, fn_file, nm) for nm in names)
        order = rng.permutation(len(work))
        work = [work[i] for i in order]
        J.cur = {'kind': 'row', 'base': None}
        for b0 in range(0, len(work), BLOCK):
            block = work[b0:b0 + BLOCK]
            for pass_no in (0, 1):
                h0 = hits()
                for j in (range(len(block)) if pass_no == 0 else rng.permutation(len(block))):
                    fn, fn_file, nm = block[j]
                    out, res = call(fn, nm)
                    _row_bookkeeping(ctx, t, fn, fn_file, nm, out, pass_no)
                if pass_no == 1:
                    ctx.hit('repeat:asked again within a block of 64')
                    got_hits = hits() - h0
                    if got_hits:
                        ctx.hit('cache:hit', got_hits)
                    ctx.count('cache_hits_in_second_pass', got_hits)
        # third round: push this shard's rows out of both caches with rows of the other
        # shards (judged like any other lookup), then ask again -> fresh parse
        for fn_file, fn in (('scattering_parameters.csv', 'ScatteringParams.for_isotope'),
                            ('atomic_masses.csv', 'Atom.for_isotope')):
            others = [nm for k, nm in enumerate(sorted(t.raw[fn_file])) if k % nsh != idx]
            for k in rng.permutation(len(others))[:EVICTORS]:
                out, res = call(fn, others[k])
                ctx.case((fn, fn_file, 'evictor', out))
        h0 = hits()
        for j in rng.permutation(len(work)):
            fn, fn_file, nm = work[j]
            out, res = call(fn, nm)
            _row_bookkeeping(ctx, t, fn, fn_file, nm, out, 2)
        ctx.hit('repeat:asked again after 140 other names')
        missed = len(work) - (hits() - h0)
        if missed > 0:
            ctx.hit('cache:miss_after_eviction', missed)
        ctx.count('cache_misses_in_third_pass', missed)

        # --------------------------------------------------------- near misses ---
        all_names = t.all_names()
        mine = all_names[idx::nsh]
        specials = special_names()
        J.cur = {'kind': 'special', 'base': None}
        for v in specials[idx::nsh]:  # every special name is asked once per run, on both entry points
            ctx.hit('kind:special')
            # the two table loaders named in the property's anchors are also asked directly: through
            # Atom.for_isotope a title cell never reaches the masses scan (its "element" is unknown
            # first); only the scan monitor judges these calls, any outcome of the loader is tallied
            for helper in ('_load_atomic_weight', '_load_atomic_mass'):
                h = getattr(A, helper, None)
                if h is None:
                    ctx.count('loader_absent:' + helper)
                    continue
                try:
                    h(v)
                    ctx.count('loader_direct:' + helper + ':returned')
                except Exception as e:  # noqa: BLE001
                    ctx.count('loader_direct:' + helper + ':' + type(e).__name__)
            for fn in entry:
                out, res = call(fn, v)
                if out.startswith('rejected'):
                    ctx.event('near_miss.rejected')
                ctx.case((fn, 'near_miss', 'special', out.split(':')[0]))
        for i in range(int(shard['near'])):
            kind = KINDS[(i + idx) % len(KINDS)]
            base = mine[int(rng.integers(0, len(mine)))]
            try:
                v = make_variant(kind, base, rng, all_names, specials)
            except Exception:  # noqa: BLE001
                ctx.oracle_error('C20 variant generator')
                continue
            ctx.hit('kind:' + kind)
            J.cur = {'kind': kind, 'base': base}
            outs = []
            for fn in entry:
                before = ctx.n_violations
                out, res = call(fn, v)
                outs.append(out)
                if out.startswith('rejected'):
                    ctx.event('near_miss.rejected')
                elif out == 'row_ok':
                    ctx.count('near_miss_is_itself_a_row')
                ctx.case((fn, 'near_miss', kind, out.split(':')[0]))
                if ctx.n_violations > before or (i < 3 and fn == 'Atom.for_isotope'):
                    ctx.sample({'function': fn, 'name': v, 'variant_kind': kind, 'variant_of': base,
                                'outcome': out})
        J.cur = {'kind': 'row', 'base': None}

        # ---------------------------------------- names given as str subclasses ---
        try:
            spelled_names(np.random.Generator(np.random.PCG64([shard['seed'], idx, 20, 11])), ctx, t, J, call,
                          work, all_names, A)
        except Exception:  # noqa: BLE001
            ctx.oracle_error('C20 spelled-name driver')
        J.cur = {'kind': 'row', 'base': None}

        # --------------------------------------------------------- attenuation ---
        def sp_lookup(name):
            p = A.ScatteringParams.for_isotope(name)
            bad = J._cmp_sp(name, p, t.scattering[name])
            if bad:
                ctx.violation('row_mismatch', f'ScatteringParams.for_isotope({name!r}).{bad[0]}: {bad[2]}',
                              {'function': 'ScatteringParams.for_isotope', 'name': name,
                               'seen': 'material'}, field=bad[0], aspect=bad[1],
                              fn='ScatteringParams.for_isotope', seen='material', variant='row')
            return p

        for i in range(int(shard['att'])):
            try:
                params, n, wl, sig, name = gen_attenuation(rng, ctx, sp_lookup, A.ScatteringParams, i)
            except Exception:  # noqa: BLE001
                ctx.oracle_error('C20 attenuation generator')
                continue
            before = ctx.n_violations
            material = None
            try:
                material = scn_abs.Material(params, n)
            except Exception as e:  # noqa: BLE001
                if params.total_scattering_cross_section is None or params.absorption_cross_section is None:
                    # "no attenuation for a blank row" may be enforced when the material is built
                    ctx.event('attenuation.blank_cross_section')
                    ctx.hit('att:blank_cross_section')
                    ctx.count('attenuation:blank_rejected_at_construction:' + type(e).__name__)
                else:
                    ctx.violation('material_construction_raised',
                                  f'Material(...) raised {type(e).__name__}: {e}',
                                  {'function': 'Material', 'isotope': name, 'density': describe(n)},
                                  exc=type(e).__name__)
            if material is not None:
                try:
                    material.attenuation_coefficient(wl)
                except Exception:  # noqa: BLE001  (judged by the monitor through PY_UNWIND)
                    pass
            ctx.case(sig)
            if i < 2 or ctx.n_violations > before:
                ctx.sample({'function': 'Material.attenuation_coefficient', 'isotope': name,
                            'density': describe(n), 'wavelength': describe(wl), 'sig': sig})
        # ------------------------------------------------- enumerated classes ---
        try:
            extra_attenuation(np.random.Generator(np.random.PCG64([shard['seed'], idx, 20, 13])), ctx, scn_abs, A,
                              sp_lookup, origin, heavy=idx == HEAVY_SHARD % nsh)
        except Exception:  # noqa: BLE001
            ctx.oracle_error('C20 enumerated attenuation classes')
        origin['v'] = 'direct'
        # --------------------------------------------------------- object state ---
        for k in range(int(shard.get('state', 0))):
            srng = np.random.Generator(np.random.PCG64([shard['seed'], idx, 20, 7, k]))
            try:
                state_sequence(srng, ctx, scn_abs, A.ScatteringParams, sp_lookup, origin)
            except Exception:  # noqa: BLE001
                ctx.oracle_error('C20 object-state driver')
            origin['v'] = 'direct'
            ctx.case(('attenuation', 'object_state', k % 4))
        origin['v'] = 'compute_transmission_map'
        for k in range(int(shard.get('insitu', 0))):
            try:
                sig = in_situ_case(rng, ctx, scn_abs, sp_lookup, live=k % 2 == 1)
            except Exception as e:  # noqa: BLE001
                # what happens downstream of attenuation_coefficient belongs to C18; the calls the
                # monitor saw were judged, and requirements() insists that enough were seen
                ctx.count('in_situ:pipeline_raised:' + type(e).__name__)
                continue
            ctx.case(sig)
        origin['v'] = 'direct'
    ctx.extra['traced_calls'] = dict(tr.counts)


def _row_bookkeeping(ctx, t, fn, fn_file, nm, out, pass_no):
    if pass_no == 0 and out == 'row_ok':
        ctx.count('rows_decided:' + fn_file)
    if fn_file == 'scattering_parameters.csv':
        row = t.scattering[nm]
        pat = blank_pattern(row)
        if '-' in pat:
            ctx.hit('row:blank_scattering_cell')
        sig = (fn, fn_file, 'nuclide' if nm[:1].isdigit() else 'element', pat, pass_no)
    else:
        z, w, m = t.atom(nm)
        if w is None:
            ctx.hit('row:blank_weight')
        if m is None:
            ctx.hit('row:element_without_mass')
        if (m is not None and m.std_exact == 0) or (w is not None and w.std_exact == 0):
            ctx.hit('row:zero_uncertainty')
        sig = (fn, fn_file, 'weight' if w is not None else 'no_weight',
               'mass' if m is not None else 'no_mass', 'Z%d' % (z // 10 * 10), pass_no)
    ctx.case(sig, trivial=False)
    if pass_no == 0 and ctx.evaluations <= 2:
        ctx.sample({'function': fn, 'name': nm, 'table': fn_file, 'outcome': out})


FINDING_PREDICATES: dict = {
    'material.attenuation_variances_broadcast': lambda v: (
        v['kind'] == 'attenuation_refused_variances' and v['keys'].get('exc') == 'VariancesError'
        and v['keys'].get('variances_need_broadcast') is True),
}
