"""C04 Gravity-corrected angles follow the documented construction on every code path."""

from __future__ import annotations

import numpy as np
import scipp as sc

from rv import operands as ops
from rv.oracle import geom, si
from rv.snap import describe
from rv.trace import Tracer

ID = 'C04'
LEVEL = 'exploration'
RULE = (
    'cases = one call of scattering_angles_with_gravity / scattering_angle_in_yz_plane on a generated '
    '(incident beam at a forced tilt out of the horizontal, detector directions over the sphere, wavelengths '
    '0..100 angstrom dense/2-d/binned in float32/float64, gravity of magnitude 1e-11..100 m/s^2 in a random '
    'direction) tuple, or one tilt sweep of the same configuration; distinct = (function, code path, tilt '
    'class, |g| class, dtype, layout, units) signatures; non-trivial unless axis-aligned+scalar'
)
ASSUMPTIONS = [
    'the documented construction (e_y = -g/|g|, beam raised by delta along e_y) is the specification',
    'gravity of exactly zero magnitude has no direction and is outside the domain (counted, not judged)',
]
TOL64 = 1e-12
TOL32 = 1e-5
TILTS = [0.0, 1e-13, 1e-12, 1e-11, 1e-10, 1e-9, 1e-7, 1e-5, 1e-3, 1e-1, 1.0]
GMAGS = [1e-11, 1.0, 9.80665, 100.0]
LEN_UNITS = ['m', 'mm', 'cm']
WAV_UNITS = ['angstrom', 'nm', 'm']
G_UNITS = ['m/s^2', 'mm/s^2', 'cm/s^2']

_C = None


def consts():
    global _C
    if _C is None:
        _C = si.constants()
    return _C


# ---------------------------------------------------------------- oracle ---
def construction(b1, b2, lam_si, g, u_b2_factor, sign=+1):
    """Documented construction in long double.

    b1, b2: (..., 3) in their own units (only directions / b2 lengths matter; b2 in unit with SI
    factor u_b2_factor); lam_si wavelength [m] broadcastable to b2[..., 0]; g: (3,) in SI.
    Returns dict(two_theta, phi, gamma, x, yp, z, delta) ; lengths in the unit of b2.
    """
    c = consts()
    b1, b2, g = geom.v3(b1), geom.v3(b2), geom.v3(g)
    gn = geom.norm(g)
    ey = -g / gn
    zp = b1 - geom.dot(b1, ey)[..., None] * ey
    ez = zp / geom.norm(zp)[..., None]
    ex = np.cross(ey, ez)
    L2_si = geom.norm(b2) * u_b2_factor
    delta_si = gn * c['m_n'] ** 2 * lam_si**2 * L2_si**2 / (2 * c['h'] ** 2)
    delta = delta_si / u_b2_factor
    b2p = b2 + sign * delta[..., None] * ey
    x = geom.dot(b2, ex)
    yp = geom.dot(b2p, ey)
    z = geom.dot(b2, ez)
    # deviation of b1 from the plane perpendicular to g, as a length in the unit of b1 and as an angle
    off = np.abs(geom.dot(b1, ey))
    return {
        'off_len': off, 'off_ang': off / geom.norm(b1),
        'two_theta': geom.angle(np.broadcast_to(b1, b2p.shape), b2p),
        'phi': np.arctan2(yp, x),
        'gamma': np.arctan2(np.abs(yp), z),
        'x': x, 'yp': yp, 'z': z, 'delta': delta, 'L2': geom.norm(b2),
    }


def _b2_aligned(args, res):
    """scattered_beam, wavelength[SI] laid out like the result elements."""
    b2 = ops.align(args['scattered_beam'], res)  # (..., 3)
    lam = ops.align(args['wavelength'], res).astype(si.LD) * si.factor(ops.elem_unit(args['wavelength']))
    b1 = ops.align(args['incident_beam'], res)
    return b1, b2, lam


class Monitors:
    def __init__(self, ctx):
        self.ctx = ctx
        self.path = None
        self.meta = {}
        self.intended = None

    def mark(self, path):
        def h(ev):
            self.path = path
        return h

    def binding(self, ev, name):
        """The callee must receive each object under the documented parameter name, however it was passed."""
        want, self.intended = self.intended, None
        if want is None:
            return
        self.ctx.event('binding.' + name)
        wrong = [k for k, v in want.items() if ev.args.get(k) is not v]
        if wrong:
            self.ctx.violation('binding', f'{name} called with positional arguments in the documented order '
                               f'(incident_beam, scattered_beam, wavelength, gravity) receives other objects as '
                               f'{wrong}', {'function': name, 'wrong': wrong, **self.meta}, function=name)

    def _common(self, ev):
        args = ev.args
        g = args['gravity']
        g_si = np.asarray(g.values).astype(si.LD) * si.factor(g.unit)
        u2 = si.factor(args['scattered_beam'].unit)
        f32 = ops.elem_dtype(args['wavelength']) == sc.DType.float32
        return args, g_si, u2, f32

    def angles(self, ev):
        name = 'scattering_angles_with_gravity'
        ctx = self.ctx
        path, self.path = self.path, None
        self.binding(ev, name)
        case = {'function': name, 'path': path, **self.meta,
                'args': {k: describe(v) for k, v in ev.args.items()}}
        if ev.exc is not None:
            ctx.violation('raised', f'{name} raised {type(ev.exc).__name__}: {ev.exc}', case, path=path)
            return
        try:
            args, g_si, u2, f32 = self._common(ev)
            tt, phi = ev.result['two_theta'], ev.result['phi']
            out = {}
            for key, res in (('two_theta', tt), ('phi', phi)):
                b1, b2, lam = _b2_aligned(args, res)
                exp = construction(b1, b2, lam, g_si, u2)
                low = construction(b1, b2, lam, g_si, u2, sign=-1)
                got = ops.result_values(res).astype(si.LD)
                eps = si.EPS32 if f32 else si.EPS64
                base = TOL32 if f32 else TOL64
                if key == 'phi':
                    scale = exp['L2'] + exp['delta']
                    den = np.hypot(exp['x'], exp['yp'])
                    with np.errstate(divide='ignore', invalid='ignore'):
                        tol = base + 64 * eps * scale / den
                    d = np.abs(got - exp[key])
                    d = np.minimum(d, np.abs(2 * si.PI - d))  # atan2 branch cut at +-pi
                    dl = np.abs(got - low[key])
                else:
                    # beams within the dispatch threshold (|b1 . g^| <= 1e-10 length units) are treated
                    # as perpendicular by the documented equivalent formula: allow their actual tilt
                    allow = np.where(exp['off_len'] <= 1.001e-10, 2 * exp['off_ang'], 0)
                    tol = np.full(got.shape, base, dtype=si.LD) + allow
                    d = np.abs(got - exp[key])
                    dl = np.abs(got - low[key])
                decided = np.isfinite(tol.astype(np.float64)) & (tol < 1e-3)
                out[key] = (d, dl, tol, decided, got, exp, res)
        except Exception:  # noqa: BLE001
            ctx.oracle_error(name)
            return
        ctx.event(name)
        ctx.event('path.' + str(path))
        want_dtype = sc.DType.float32 if f32 else sc.DType.float64
        for key, (d, dl, tol, decided, got, exp, res) in out.items():
            if ops.elem_unit(res) != sc.Unit('rad') or ops.elem_dtype(res) != want_dtype:
                ctx.violation('unit_dtype', f'{name}[{key}]: unit {ops.elem_unit(res)} dtype '
                              f'{ops.elem_dtype(res)}', case, path=path, output=key)
                continue
            n_und = int(d.size - np.count_nonzero(decided))
            if n_und:
                ctx.count('undecided:ill-conditioned ' + key, n_und)
            if not np.any(decided):
                continue
            frac = np.where(decided, d / tol, 0)
            worst = float(np.max(frac))
            ctx.dev(f'{key}.{path}.{"f32" if f32 else "f64"} (fraction of bound)', worst)
            if not np.all(np.isfinite(got[decided].astype(np.float64))):
                ctx.violation('nonfinite', f'{name}[{key}] non-finite', case, path=path, output=key)
            elif worst > 1:
                i = int(np.argmax(frac))
                lowered = bool(np.ravel(dl)[i] <= np.ravel(tol)[i])
                case2 = dict(case, output=key, got=repr(np.ravel(got)[i]), expected=repr(np.ravel(exp[key])[i]),
                             abserr=float(np.ravel(d)[i]), tol=float(np.ravel(tol)[i]),
                             matches_lowered_beam=lowered)
                ctx.violation('angle', f'{name}[{key}] via {path} path: off by {float(np.ravel(d)[i]):.3g} rad'
                              + (' (equals the construction with the beam LOWERED)' if lowered else ''),
                              case2, path=path, output=key, matches_lowered_beam=lowered)

    def frame(self, ev):
        """beam_aligned_unit_vectors: e_y = -g/|g|, e_z = the normalised projection of b1 perpendicular to e_y,
        e_x = e_y x e_z (documented); refusal only for beams parallel to gravity."""
        name = 'beam_aligned_unit_vectors'
        ctx = self.ctx
        case = {'function': name, **self.meta, 'args': {k: describe(v) for k, v in ev.args.items()}}
        if ev.exc is not None:
            if self.meta.get('parallel_to_gravity') and isinstance(ev.exc, ValueError):
                ctx.event('frame.refused')
                return
            if self.meta.get('family') in ('direct', 'yz', 'tilt_sweep', 'limits', 'frame'):
                ctx.violation('frame_raised', f'{name} raised {type(ev.exc).__name__}: {ev.exc}', case)
            return
        if self.meta.get('parallel_to_gravity'):
            ctx.violation('frame_not_refused', f'{name} accepted an incident beam parallel to gravity', case)
            return
        try:
            b1 = geom.v3(np.asarray(ev.args['incident_beam'].values))
            g = geom.v3(np.asarray(ev.args['gravity'].values))
            ey = -g / geom.norm(g)[..., None]
            b1, ey = np.broadcast_arrays(b1, ey)
            z = b1 - np.sum(b1 * ey, axis=-1)[..., None] * ey
            zn = geom.norm(z)
            ez = z / zn[..., None]
            ex = np.cross(ey, ez)
            got = {k: np.asarray(ev.result['beam_aligned_unit_' + k].values).astype(si.LD) for k in 'xyz'}
            # conditioning of the projection: |b1| / |z_proj|
            cond = geom.norm(b1) / zn
            tol = {'x': 64 * si.EPS64 * cond, 'y': 8 * si.EPS64 * np.ones_like(cond), 'z': 64 * si.EPS64 * cond}
            want = {'x': ex, 'y': ey, 'z': ez}
        except Exception:  # noqa: BLE001
            ctx.oracle_error(name)
            return
        ctx.event(name)
        for k in 'xyz':
            gk = np.broadcast_to(got[k], want[k].shape) if got[k].shape != want[k].shape else got[k]
            d = np.max(np.abs(gk - want[k]), axis=-1)
            frac = float(np.max(d / tol[k]))
            ctx.dev(f'frame.e{k} (fraction of bound)', frac)
            unit_ok = ev.result['beam_aligned_unit_' + k].unit == sc.units.dimensionless
            if frac > 1 or not unit_ok:
                ctx.violation('frame', f'{name}: e_{k} differs from the documented construction by '
                              f'{float(np.max(d)):.3g}' + ('' if unit_ok else ' (not dimensionless)'), case, axis=k)

    def yz(self, ev):
        name = 'scattering_angle_in_yz_plane'
        ctx = self.ctx
        tilt = self.meta.get('tilt')
        self.binding(ev, name)
        case = {'function': name, **self.meta, 'args': {k: describe(v) for k, v in ev.args.items()}}
        if ev.exc is not None:
            if isinstance(ev.exc, ValueError) and tilt is not None and tilt > 0:
                ctx.event('yz.refused')
                return
            ctx.violation('yz_raised', f'{name} raised {type(ev.exc).__name__} for tilt {tilt}: {ev.exc}',
                          case, tilt_zero=(tilt == 0))
            return
        if tilt is not None and tilt >= 1e-3:
            ctx.violation('yz_not_refused', f'{name} accepted an incident beam tilted by {tilt} rad '
                          'out of the plane perpendicular to gravity', case)
            return
        if tilt is None or tilt > 0:
            ctx.count('undecided:yz tilt band')
            return
        try:
            args, g_si, u2, f32 = self._common(ev)
            res = ev.result
            b1, b2, lam = _b2_aligned(args, res)
            exp = construction(b1, b2, lam, g_si, u2)
            got = ops.result_values(res).astype(si.LD)
            eps = si.EPS32 if f32 else si.EPS64
            base = TOL32 if f32 else TOL64
            with np.errstate(divide='ignore', invalid='ignore'):
                tol = base + 64 * eps * (exp['L2'] + exp['delta']) / np.hypot(exp['yp'], exp['z'])
            d = np.abs(got - exp['gamma'])
            decided = np.isfinite(tol.astype(np.float64)) & (tol < 1e-3)
        except Exception:  # noqa: BLE001
            ctx.oracle_error(name)
            return
        ctx.event(name)
        if np.any(decided):
            frac = np.where(decided, d / tol, 0)
            worst = float(np.max(frac))
            ctx.dev(f'gamma.{"f32" if f32 else "f64"} (fraction of bound)', worst)
            if ops.elem_unit(res) != sc.Unit('rad'):
                ctx.violation('unit_dtype', f'{name}: unit {ops.elem_unit(res)}', case)
            elif worst > 1:
                i = int(np.argmax(frac))
                ctx.violation('angle_yz', f'{name}: off by {float(np.ravel(d)[i]):.3g} rad from '
                              'atan2(|y_d + delta|, z_d)', dict(case, got=repr(np.ravel(got)[i]),
                                                                expected=repr(np.ravel(exp["gamma"])[i])))


# ------------------------------------------------------------- generator ---
AXIS_KINDS = ('nexus', 'g-y beam-z', 'g-y beam+x', 'g-y beam oblique in xz', 'g any axis, beam any axis')


def make_config(rng, ctx, tilt=None, gmag=None, axis_aligned=False):
    """One beamline configuration: returns numpy pieces (SI-free: lengths in unit u)."""
    gmag = GMAGS[rng.integers(0, len(GMAGS))] if gmag is None else gmag
    if axis_aligned:
        # gravity exactly along a coordinate axis (NeXus: -y), the beam exactly perpendicular to it:
        # along another axis in either sense, or oblique in the plane of the two other axes
        kind = AXIS_KINDS[int(rng.integers(0, len(AXIS_KINDS)))] if axis_aligned is True else axis_aligned
        ghat = np.array([0.0, -1.0, 0.0])
        if kind == 'nexus':
            h = np.array([0.0, 0.0, 1.0])
        elif kind == 'g-y beam-z':
            h = np.array([0.0, 0.0, -1.0])
        elif kind == 'g-y beam+x':
            h = np.array([1.0, 0.0, 0.0])
        elif kind == 'g-y beam oblique in xz':
            a = rng.uniform(0.1, 3.0) * (1 if rng.random() < 0.5 else -1)
            h = np.array([np.sin(a), 0.0, np.cos(a)])
            h /= np.linalg.norm(h)
        else:  # any axis for gravity, any perpendicular axis for the beam
            ax = int(rng.integers(0, 3))
            ghat = np.zeros(3)
            ghat[ax] = 1.0 if rng.random() < 0.5 else -1.0
            h = np.zeros(3)
            h[(ax + int(rng.integers(1, 3))) % 3] = 1.0 if rng.random() < 0.5 else -1.0
        ctx.hit('axis-aligned: ' + kind)
    else:
        ghat = geom.random_unit(rng, 1)[0]
        h = geom.perpendicular_unit(rng, ghat[None, :])[0].astype(np.float64)
    tilt = TILTS[rng.integers(0, len(TILTS))] if tilt is None else tilt
    L1 = 10.0 ** rng.uniform(-1, 2)
    up = -geom.v3(ghat)
    sgn = 1.0 if rng.random() < 0.5 else -1.0
    b1 = (L1 * (np.cos(si.LD(tilt)) * geom.v3(h) + sgn * np.sin(si.LD(tilt)) * up)).astype(np.float64)
    return {'ghat': ghat, 'gmag': gmag, 'h': h, 'tilt': tilt, 'b1': b1, 'L1': L1, 'axis_aligned': axis_aligned}


def detectors(rng, n):
    d = geom.random_unit(rng, n) * (10.0 ** rng.uniform(-1, 2, size=(n, 1)))
    return d


def build_args(rng, cfg, det, layout, f32, units):
    ub, uw, ug = units
    fb = float(si.lookup(sc.Unit(ub))[0])
    b1 = sc.vector(cfg['b1'] / fb, unit=ub)
    npix = len(det)
    b2 = sc.vectors(dims=['pixel'], values=det / fb, unit=ub) if npix > 1 or layout != 'scalar' else sc.vector(det[0] / fb, unit=ub)
    fg = float(si.lookup(sc.Unit(ug))[0])
    g = sc.vector(cfg['ghat'] * cfg['gmag'] / fg, unit=ug)
    fw = float(si.lookup(sc.Unit(uw))[0])
    dt = 'float32' if f32 else 'float64'
    lo = 1e-3 if f32 else 0.0
    nw = int(rng.integers(1, 12))

    def lam(n):
        v = rng.uniform(lo, 100.0, size=n) * 1e-10
        if n > 2 and not f32:
            v[0] = 0.0
        return (v / fw).astype(dt)

    if layout == 'scalar':
        w = sc.scalar(lam(1)[0].item(), unit=uw, dtype=dt)
    elif layout == '1d':
        w = sc.array(dims=['wavelength'], values=lam(nw), unit=uw, dtype=dt)
    elif layout == '2d':
        w = sc.array(dims=['pixel', 'wavelength'], values=lam(npix * nw).reshape(npix, nw), unit=uw, dtype=dt)
    elif layout == 'per_pixel':
        w = sc.array(dims=['pixel'], values=lam(npix), unit=uw, dtype=dt)
    else:  # binned
        sizes = rng.integers(0, 9, size=npix)
        w = ops.make_binned(lam(int(sizes.sum())), sizes, ['pixel'], (npix,), uw, dtype=dt)
    return {'incident_beam': b1, 'scattered_beam': b2, 'wavelength': w, 'gravity': g}


LAYOUTS = ['scalar', '1d', '2d', 'per_pixel', 'binned']


def tilt_sweep(rng, ctx, K, mon):
    """Continuity across the dispatch between the two implementations."""
    gmag = [1.0, 9.80665, 100.0][rng.integers(0, 3)]
    base = make_config(rng, ctx, tilt=0.0, gmag=gmag)
    det = detectors(rng, int(rng.integers(2, 10)))
    units = (LEN_UNITS[rng.integers(0, 3)], 'angstrom', 'm/s^2')
    fb = float(si.lookup(sc.Unit(units[0]))[0])
    lam = sc.array(dims=['wavelength'], values=rng.uniform(1.0, 100.0, size=4), unit='angstrom')
    up = -geom.v3(base['ghat'])
    prev = None
    paths = []
    for tilt in TILTS:
        b1 = (base['L1'] * (np.cos(si.LD(tilt)) * geom.v3(base['h']) + np.sin(si.LD(tilt)) * up)).astype(np.float64)
        mon.meta = {'family': 'tilt_sweep', 'tilt': tilt, 'gmag': gmag}
        mon.path = None
        res = K.scattering_angles_with_gravity(
            incident_beam=sc.vector(b1 / fb, unit=units[0]),
            scattered_beam=sc.vectors(dims=['pixel'], values=det / fb, unit=units[0]),
            wavelength=lam, gravity=sc.vector(base['ghat'] * gmag, unit='m/s^2'))
        tt = res['two_theta'].transpose(['pixel', 'wavelength']).values.astype(si.LD)
        ph = res['phi'].transpose(['pixel', 'wavelength']).values.astype(si.LD)
        if prev is not None:
            dt_ = tilt - prev[0]
            jump = float(np.max(np.abs(tt - prev[1])))
            ctx.event('continuity')
            ctx.dev('continuity: max |d two_theta| - 2|d tilt|', jump - 2 * dt_)
            if jump > 2 * dt_ + 1e-12:
                ctx.violation('discontinuity', f'two_theta jumps by {jump:.3g} rad when the incident beam is '
                              f'tilted from {prev[0]:g} to {tilt:g} rad out of the horizontal',
                              {'family': 'tilt_sweep', 'tilt_from': prev[0], 'tilt_to': tilt, 'gmag': gmag,
                               'unit': units[0], 'b1': [float(x).hex() for x in b1],
                               'det0': [float(x).hex() for x in det[0]],
                               'ghat': [float(x).hex() for x in base['ghat']]},
                              tilt_from=prev[0], tilt_to=tilt)
        prev = (tilt, tt, ph)
    return ('tilt_sweep', units[0], gmag)


DOCUMENTED_ORDER = ('incident_beam', 'scattered_beam', 'wavelength', 'gravity')


def call(fn, args, mon, positional):
    if positional:
        mon.intended = dict(args)
        return fn(*[args[k] for k in DOCUMENTED_ORDER])
    return fn(**args)


def run_case(rng, ctx, K, mon, i=0):
    axis = rng.random() < 0.15
    if i < len(AXIS_KINDS):
        axis = AXIS_KINDS[i]  # every axis-aligned kind in every shard
    cfg = make_config(rng, ctx, axis_aligned=axis, tilt=0.0 if i < len(AXIS_KINDS) else None)
    axis = bool(axis)
    positional = i % 3 == 1
    layout = LAYOUTS[rng.integers(0, len(LAYOUTS))]
    f32 = rng.random() < 0.3
    units = (LEN_UNITS[rng.integers(0, 3)], WAV_UNITS[rng.integers(0, 3)], G_UNITS[rng.integers(0, 3)])
    npix = 1 if layout == 'scalar' else int(rng.integers(1, 12))
    det = detectors(rng, npix)
    special = rng.random()
    if special < 0.15:  # detectors above a horizontal beam (claim iii) incl. straight up
        det = np.abs(rng.uniform(0.1, 1, size=(npix, 1))) * (-cfg['ghat'])[None, :] * 10 + \
            cfg['h'][None, :] * rng.uniform(-5, 20, size=(npix, 1))
        ctx.hit('detector above beam')
    args = build_args(rng, cfg, det, layout, f32, units)
    per_pixel_b1 = layout in ('per_pixel', '2d', 'binned') and npix > 1 and rng.random() < 0.3
    if per_pixel_b1:
        # one incident beam per pixel: some perpendicular to gravity, the others tilted up OR down
        up = -geom.v3(cfg['ghat'])
        sgn = 1.0 if rng.random() < 0.5 else -1.0  # all tilted beams on the same side
        tl = np.where(rng.random(npix) < 0.5, 0.0, cfg['tilt'])
        if cfg['tilt'] > 0:
            tl[rng.integers(0, npix)] = cfg['tilt']
            tl[(rng.integers(0, npix) + 1) % npix if npix > 1 else 0] = 0.0 if rng.random() < 0.7 else cfg['tilt']
        b1s = np.array([(cfg['L1'] * (np.cos(si.LD(t)) * geom.v3(cfg['h']) + sgn * np.sin(si.LD(t)) * up)).astype(np.float64)
                        for t in tl])
        fb = float(si.lookup(sc.Unit(units[0]))[0])
        args['incident_beam'] = sc.vectors(dims=['pixel'], values=b1s / fb, unit=units[0])
        ctx.hit('per-pixel incident beams ' + ('tilted up' if sgn > 0 else 'tilted down'))
    if per_pixel_b1:
        cfg = dict(cfg, tilt=float(np.max(tl)))
    mon.meta = {'family': 'direct', 'tilt': float(cfg['tilt']), 'gmag': cfg['gmag'], 'layout': layout,
                'axis_aligned': axis, 'per_pixel_incident': bool(per_pixel_b1)}
    mon.path = None
    try:
        call(K.scattering_angles_with_gravity, args, mon, positional)
    except Exception:  # noqa: BLE001 judged through PY_UNWIND
        pass
    ctx.hit(f'tilt:{cfg["tilt"]:g}')
    ctx.hit(f'|g|:{cfg["gmag"]:g}')
    sig = ('angles', f'tilt{cfg["tilt"]:g}', f'g{cfg["gmag"]:g}', 'f32' if f32 else 'f64', layout, units)
    # reflectometry variant on the same configuration
    if rng.random() < 0.5 or i < len(AXIS_KINDS):
        mon.meta = dict(mon.meta, family='yz')
        try:
            call(K.scattering_angle_in_yz_plane, args, mon, positional)
        except Exception:  # noqa: BLE001
            pass
    trivial = axis and layout == 'scalar' and cfg['tilt'] == 0 and units == ('m', 'm', 'm/s^2') and not f32
    return sig, trivial, args


def frame_case(rng, ctx, K, mon, j):
    """Direct calls of the public beam_aligned_unit_vectors: any tilt up to nearly parallel, per-pixel beams,
    positional and keyword calls, and the refusal for a beam parallel to gravity."""
    ghat = geom.random_unit(rng, 1)[0]
    gmag = GMAGS[rng.integers(0, len(GMAGS))]
    h = geom.perpendicular_unit(rng, ghat[None, :])[0].astype(np.float64)
    n = int(rng.integers(1, 6))
    parallel = j % 8 == 7
    ang = rng.uniform(-1.5, 1.5, size=n)
    if parallel:
        b1 = (np.cos(ang)[:, None] * h[None, :] - np.sin(ang)[:, None] * ghat[None, :]) * 10.0 ** rng.uniform(-1, 2)
        # one beam of the array (or the only one) is parallel to gravity
        b1[int(rng.integers(0, n))] = ghat * (1.0 if rng.random() < 0.5 else -1.0) * 10.0 ** rng.uniform(-1, 2)
    else:
        ang = rng.uniform(-1.5, 1.5, size=n)  # elevation out of the horizontal
        b1 = (np.cos(ang)[:, None] * h[None, :] - np.sin(ang)[:, None] * ghat[None, :]) * 10.0 ** rng.uniform(-1, 2)
    ub = LEN_UNITS[rng.integers(0, 3)]
    ug = G_UNITS[rng.integers(0, 3)]
    beam = sc.vectors(dims=['pixel'], values=b1, unit=ub) if (len(b1) > 1 or rng.random() < 0.5) else sc.vector(b1[0], unit=ub)
    g = sc.vector(ghat * max(gmag, 1e-3), unit=ug)
    mon.meta = {'family': 'frame', 'parallel_to_gravity': parallel}
    try:
        if j % 2:
            K.beam_aligned_unit_vectors(beam, g)
        else:
            K.beam_aligned_unit_vectors(incident_beam=beam, gravity=g)
    except Exception:  # noqa: BLE001  judged by the monitor
        pass
    mon.meta = {}
    return ('frame', ub, ug, 'parallel' if parallel else 'tilted', beam.ndim)


def limits_case(rng, ctx, K, mon):
    """lambda -> 0 and |g| -> 0 equal the gravity-free two_theta of the same beams (observed)."""
    cfg = make_config(rng, ctx, gmag=1e-11 if rng.random() < 0.5 else 9.80665)
    det = detectors(rng, 6)
    lam0 = cfg['gmag'] > 1
    b1 = sc.vector(cfg['b1'], unit='m')
    b2 = sc.vectors(dims=['pixel'], values=det, unit='m')
    lam = sc.array(dims=['wavelength'], values=[0.0, 0.0] if lam0 else [1.0, 20.0], unit='angstrom')
    mon.meta = {'family': 'limits', 'tilt': cfg['tilt'], 'gmag': cfg['gmag'], 'lambda_zero': lam0}
    mon.path = None
    res = K.scattering_angles_with_gravity(incident_beam=b1, scattered_beam=b2, wavelength=lam,
                                           gravity=sc.vector(cfg['ghat'] * cfg['gmag'], unit='m/s^2'))
    free = K.two_theta(incident_beam=b1, scattered_beam=b2)
    d = float(np.max(np.abs(res['two_theta'].transpose(['pixel', 'wavelength']).values
                            - free.values[:, None])))
    off = abs(float(np.dot(cfg['b1'], cfg['ghat'])))
    allow = 2 * off / float(np.linalg.norm(cfg['b1'])) if off <= 1.001e-10 else 0.0
    ctx.event('limit')
    ctx.dev('limit: |two_theta - gravity-free|', d - allow)
    if d > 1e-11 + allow:
        ctx.violation('limit', f'two_theta differs from the gravity-free angle by {d:.3g} rad although '
                      + ('lambda = 0' if lam0 else '|g| = 1e-11 m/s^2'), dict(mon.meta), lambda_zero=lam0)
    return ('limits', lam0, f'tilt{cfg["tilt"]:g}')


# ---------------------------------------------------------------- driver ---
def plan(tier, seed):
    n = 16
    return [{'cases': 300 if tier == 'quick' else 20000, 'sweeps': 15 if tier == 'quick' else 800}
            for _ in range(n)]


def requirements(tier):
    return {
        'events': {'scattering_angles_with_gravity': 200, 'path.generic': 50, 'path.orthogonal': 30,
                   'scattering_angle_in_yz_plane': 10, 'yz.refused': 10,
                   'beam_aligned_unit_vectors': 100, 'frame.refused': 5, 'binding.scattering_angles_with_gravity': 20, 'binding.scattering_angle_in_yz_plane': 10, 'continuity': 50, 'limit': 10},
        'forced': [f'tilt:{t:g}' for t in TILTS] + [f'|g|:{g:g}' for g in GMAGS] + ['detector above beam', 'per-pixel incident beams tilted up', 'per-pixel incident beams tilted down']
        + ['axis-aligned: ' + k for k in AXIS_KINDS],
    }


def run(shard, ctx):
    from scippneutron.conversion import beamline as K

    rng = np.random.Generator(np.random.PCG64([shard['seed'], shard['index'], 4]))
    mon = Monitors(ctx)
    tr = Tracer()
    tr.watch(K._scattering_angles_with_gravity_generic, 'generic', on_return=mon.mark('generic'))
    tr.watch(K._scattering_angles_with_gravity_orthogonal_coords, 'orthogonal', on_return=mon.mark('orthogonal'))
    tr.watch(K.scattering_angles_with_gravity, 'scattering_angles_with_gravity', on_return=mon.angles)
    tr.watch(K.scattering_angle_in_yz_plane, 'scattering_angle_in_yz_plane', on_return=mon.yz)
    tr.watch(K.beam_aligned_unit_vectors, 'beam_aligned_unit_vectors', on_return=mon.frame)
    with tr:
        for i in range(shard['cases']):
            before = ctx.n_violations
            sig, trivial, args = run_case(rng, ctx, K, mon, i)
            ctx.case(sig, trivial=trivial)
            if i < 2 or (ctx.n_violations > before and len(ctx.samples) < 6):
                ctx.sample({'signature': sig, 'args': {k: describe(v) for k, v in args.items()}})
        for j in range(shard['sweeps'] * 4):
            ctx.case(frame_case(rng, ctx, K, mon, j))
        for _ in range(shard['sweeps']):
            ctx.case(tilt_sweep(rng, ctx, K, mon))
            ctx.case(limits_case(rng, ctx, K, mon))


FINDING_PREDICATES = {}

TECHNIQUE = ('runtime monitors (sys.monitoring) on both gravity code paths and the reflectometry variant; '
             'long-double re-evaluation of the documented construction; tilt-sweep continuity and limit monitors')
LEVEL_TEXT = ('exploration: every observed return of scattering_angles_with_gravity / scattering_angle_in_yz_plane '
              'is compared with the documented construction (beam raised by delta along -g/|g|) at 1e-12 rad '
              '(1e-5 single precision) with the conditioning of atan2 accounted for; which private implementation '
              'ran is observed so both paths are known to be covered; continuity over a forced tilt sweep across '
              'the dispatch threshold, the lambda->0 / g->0 limits and the refusal of the reflectometry variant '
              'are checked on observed values. Sampled inputs, not a proof.')
LEVEL_NOTE = ('trusted: numpy long double, scipp containers, h and m_n from scipp.constants, the docstring '
              'construction as specification')
DESIGN_REF = 'DESIGN.md section 4, C04'
