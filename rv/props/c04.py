"""C04 Gravity-corrected angles follow the documented construction on every code path."""

from __future__ import annotations

import numpy as np
import scipp as sc

from rv import operands as ops
from rv.oracle import geom, si
from rv.snap import describe
from rv.trace import Tracer

ID = 'C04'
LEVEL = 'exploration'
RULE = (
    'cases = one call of scattering_angles_with_gravity / scattering_angle_in_yz_plane on a generated '
    '(incident beam at a forced tilt out of the horizontal, detector directions over the sphere, wavelengths '
    '0..100 angstrom dense/2-d/binned in float32/float64, gravity of a fixed magnitude {1e-11, 1, 9.80665, 100} '
    'm/s^2 or of a magnitude log-uniform over 1e-149..100 m/s^2 given in m/s^2, cm/s^2, mm/s^2 or km/s^2, in a '
    'random direction) tuple; or one call on every broadcast relation scipp allows between the dims of '
    'wavelength (dense / binned) and scattered_beam (equal, transposed, either a strict subset of the other incl. '
    '0-d, overlapping, disjoint) on both code paths and the reflectometry variant; or one tilt sweep of the same '
    'configuration; or one call made by scipp\'s transform_coords with a kernel as a node of a coordinate graph '
    '(the kernel alone, or the documented graph beamline(scatter=True)+elastic_Q("tof") with the two_theta node '
    'replaced; dense data and binned data with an event coordinate; masks per pixel / over both dims / on the events; '
    'every keep/rename option); every calling convention of the four-parameter signature (keywords in either order, '
    '1..4 positional); caller dims named like parameters, outputs and internal dim names; a wavelength with variances '
    '(refused by scipp: counted); second use (same objects again, deep copies after repr/str/==/copy, after a refused '
    'call); and, on three shards of their own, every size class beyond 2^19 result elements (wavelength[det,tof] / '
    '[tof,det] / disjoint / per-pixel incident beams beyond 2^22 elements, 2^20+7 pixels, 3 x 400001, binned with '
    '> 2^22 events, float32) on both code paths; caller dims whose labels are not in NFC / NFKC form (labels that '
    'differ only by normalisation are different dims); all dims of length 1 / 2 / 3 / 4 (the lengths of a vector and '
    'of a range, one below, one above); the same operand objects with one of them modified in place (values, unit, a '
    'slice, the beam across the dispatch, gravity) between two calls, followed by the result overwritten in place and '
    'a third call; and per ordinary shard one fresh interpreter (subprocess importing numpy, scipp and only '
    'scippneutron.conversion.beamline in one of four ways, nothing of this harness) whose FIRST call is one of 13 '
    'classes (function x horizontal / tilted / refused beam x dense / binned / float32 wavelength x keywords / '
    'positional / transform_coords node) followed by both gravity entry points on a horizontal and a tilted beam, '
    'every return judged by the same monitors and compared bit for bit with the worker\'s result for the same operands; '
    'distinct = (function, code path, tilt class, |g| class, dtype, layout, units) signatures; '
    'non-trivial unless axis-aligned+scalar. Domain rule for |g|: a gravity vector whose magnitude, as a number '
    'in its own unit, is below 1e-150 has a squared norm that underflows float64 (the same kind of range limit '
    'as the float32 exponent range): such calls are driven in every run (1e-300..1e-155) but only counted, with '
    'the number of non-finite results, never judged'
)
ASSUMPTIONS = [
    'the documented construction (e_y = -g/|g|, beam raised by delta along e_y) is the specification',
    'gravity of exactly zero magnitude has no direction and is outside the domain (counted, not judged)',
    'gravity whose magnitude in its own unit is below 1e-150 (|g|^2 underflows float64) is outside the judged '
    'domain: a floating-point range limit of the squared norm; counted together with the number of non-finite '
    'results, not judged',
    'incident_beam may only carry dims that scattered_beam or wavelength also carry (the result has the union '
    'of the dims of the three operands; binned iff the wavelength is binned, with the bins of the wavelength)',
    'a wavelength with variances is outside the quantifier: scipp refuses atan2 of such operands (VariancesError; '
    'DTypeError on the events of binned data); the refusal is counted, a returned result has its values judged',
    'results beyond 2^19 elements: every element is compared with the construction evaluated in float64 at '
    '1e-11 rad + 1e4 eps x conditioning (single precision: the ordinary bound), a deterministic selection of ~1e4 '
    'elements (ends, both sides of every split into 2..16 pieces, random rest) in long double at the ordinary bound',
    'transform_coords (scipp) is trusted to pass the coordinates it looks up to the node and to store what the '
    'node returns; renaming of dims by transform_coords is not judged',
    'the kernels are functions of the CONTENTS of their arguments at the time of the call: a result does not change '
    'afterwards (when an argument is modified, when another call is made), writing into a result changes neither an '
    'argument nor another output nor what the same call returns next time; a process that imported only the module '
    'of the entry points gets the results every other process gets (elementwise float arithmetic: bit for bit)',
    'the kernels have no string parameters; strings reach them only as dim labels of the operands, and (through '
    'scipp, which accepts several spellings of the same unit) as units: only dim labels are varied',
]
TOL64 = 1e-12
TOL32 = 1e-5
TILTS = [0.0, 1e-13, 1e-12, 1e-11, 1e-10, 1e-9, 1e-7, 1e-5, 1e-3, 1e-1, 1.0]
GMAGS = [1e-11, 1.0, 9.80665, 100.0]
LEN_UNITS = ['m', 'mm', 'cm']
WAV_UNITS = ['angstrom', 'nm', 'm']
G_UNITS = ['m/s^2', 'mm/s^2', 'cm/s^2', 'km/s^2']
# |g| classes by the numeric value in the unit gravity is given in (log10 bounds); the last band ends at 100 m/s^2
G_FLOOR = 1e-150  # below: |g|^2 underflows float64 -> outside the judged domain (counted)
GBANDS = [('1e-149..1e-100', -149.0, -100.0), ('1e-100..1e-50', -100.0, -50.0), ('1e-50..1e-20', -50.0, -20.0),
          ('1e-20..1e-12', -20.0, -12.0), ('1e-12..1e-6', -12.0, -6.0), ('1e-6..100 m/s^2', -6.0, None)]
DEEP_BAND = ('1e-300..1e-155 (|g|^2 underflows)', -300.0, -155.0)

_C = None


def consts():
    global _C
    if _C is None:
        _C = si.constants()
    return _C


# ---------------------------------------------------------------- oracle ---
def construction(b1, b2, lam_si, g, u_b2_factor, sign=+1):
    """Documented construction in long double.

    b1, b2: (..., 3) in their own units (only directions / b2 lengths matter; b2 in unit with SI
    factor u_b2_factor); lam_si wavelength [m] broadcastable to b2[..., 0]; g: (3,) in SI.
    Returns dict(two_theta, phi, gamma, x, yp, z, delta) ; lengths in the unit of b2.
    """
    c = consts()
    b1, b2, g = geom.v3(b1), geom.v3(b2), geom.v3(g)
    gn = geom.norm(g)
    ey = -g / gn
    zp = b1 - geom.dot(b1, ey)[..., None] * ey
    ez = zp / geom.norm(zp)[..., None]
    ex = np.cross(ey, ez)
    L2_si = geom.norm(b2) * u_b2_factor
    delta_si = gn * c['m_n'] ** 2 * lam_si**2 * L2_si**2 / (2 * c['h'] ** 2)
    delta = delta_si / u_b2_factor
    b2p = b2 + sign * delta[..., None] * ey
    x = geom.dot(b2, ex)
    yp = geom.dot(b2p, ey)
    z = geom.dot(b2, ez)
    # deviation of b1 from the plane perpendicular to g, as a length in the unit of b1 and as an angle
    off = np.abs(geom.dot(b1, ey))
    return {
        'off_len': off, 'off_ang': off / geom.norm(b1),
        'two_theta': geom.angle(np.broadcast_to(b1, b2p.shape), b2p),
        'phi': np.arctan2(yp, x),
        'gamma': np.arctan2(np.abs(yp), z),
        'x': x, 'yp': yp, 'z': z, 'delta': delta, 'L2': geom.norm(b2),
    }


def _np_broadcast(values, dims, to_dims, to_shape):
    """numpy view of ``values`` (dims ``dims`` + optional trailing element axes) laid out along ``to_dims``."""
    values = np.asarray(values)
    dims, to_dims = list(dims), list(to_dims)
    extra = values.ndim - len(dims)
    order = [d for d in to_dims if d in dims]
    if set(order) != set(dims):
        raise ValueError(f'operand dims {dims} are not part of the result dims {to_dims}')
    v = np.transpose(values, [dims.index(d) for d in order] + list(range(len(dims), values.ndim)))
    idx = tuple(slice(None) if d in dims else None for d in to_dims) + (slice(None),) * extra
    if to_shape is None:
        return v[idx]  # size-1 axes for the dims the operand does not carry
    return np.broadcast_to(v[idx], tuple(to_shape) + values.shape[len(dims):])


def _bin_ranges(v):
    c = v.bins.constituents
    return np.asarray(c['begin'].values), np.asarray(c['end'].values)


def elements_like(op, res):
    """Values of operand ``op`` for each element (dense result) / each event (binned result) of ``res``, in the
    order of ``ops.result_values(res)``: the operand is broadcast over the dims of the result by dim label
    (any order, any subset); a binned operand contributes the events of its bin to every result bin it is
    broadcast to."""
    if not ops.is_binned(res):
        if ops.is_binned(op):
            raise ValueError('binned operand but dense result')
        return _np_broadcast(op.values, op.dims, res.dims, res.shape)
    rb, re_ = _bin_ranges(res)
    sizes = (re_ - rb).ravel()
    if ops.is_binned(op):
        b, e = _bin_ranges(op)
        b = _np_broadcast(b, op.dims, res.dims, res.shape).ravel()
        e = _np_broadcast(e, op.dims, res.dims, res.shape).ravel()
        if not np.array_equal(e - b, sizes):
            raise ValueError('bin layouts differ')
        data = np.asarray(op.bins.constituents['data'].values)
        return np.concatenate([data[x:y] for x, y in zip(b, e, strict=True)] + [data[:0]])
    full = _np_broadcast(op.values, op.dims, res.dims, res.shape)
    outer = full.reshape((-1,) + full.shape[len(res.shape):])
    return np.repeat(outer, sizes, axis=0)


def layout_problem(args, res):
    """The result holds one value per combination of the operands' elements: its dims are the union of the dims
    of the three operands, it is binned iff the wavelength is, with the bins of the wavelength."""
    want = {}
    for k in ('incident_beam', 'scattered_beam', 'wavelength'):
        want.update(dict(args[k].sizes))
    if dict(res.sizes) != want:
        def show(d):  # labels code point by code point
            return '{' + ', '.join(f'{k!a}: {n}' for k, n in d.items()) + '}'
        return f'result sizes {show(dict(res.sizes))} but the operands span {show(want)}'
    w = args['wavelength']
    if ops.is_binned(w) != ops.is_binned(res):
        return 'wavelength is ' + ('binned' if ops.is_binned(w) else 'dense') + ' but the result is not'
    if ops.is_binned(w):
        b, e = _bin_ranges(w)
        rb, re_ = _bin_ranges(res)
        if not np.array_equal(_np_broadcast(e - b, w.dims, res.dims, res.shape), re_ - rb):
            return 'the bins of the result do not have the sizes of the (broadcast) bins of the wavelength'
    return None


def _b2_aligned(args, res, sel=None):
    """incident_beam, scattered_beam, wavelength[SI] laid out like the result elements (``sel``: only the
    elements / events with these flat indices)."""
    def pick(a):
        if sel is None:
            return a
        if ops.is_binned(res):
            return a[sel]
        return a[np.unravel_index(sel, res.shape)]

    b2 = pick(elements_like(args['scattered_beam'], res))  # (..., 3)
    lam = pick(elements_like(args['wavelength'], res)).astype(si.LD) * si.factor(ops.elem_unit(args['wavelength']))
    b1 = pick(elements_like(args['incident_beam'], res))
    return b1, b2, lam


# Results beyond this many elements / events are judged in two stages: every element against the documented
# construction evaluated in float64 (bound 1e-11 rad + the conditioning of atan2; long double on 4e6 elements
# would take minutes), and a deterministic selection of elements (both ends, both sides of every place where
# the result could have been assembled from 2..16 pieces along the flat order and along the leading dim,
# a few thousand spread over the rest) in long double at the ordinary bound.
HEAVY_LIMIT = 1 << 19
SCREEN_TOL64 = 1e-11


def n_elements(res):
    if ops.is_binned(res):
        b, e = _bin_ranges(res)
        return int(np.sum(e - b))
    return int(np.prod(res.shape, dtype=np.int64))


def heavy_selection(res):
    n = n_elements(res)
    rng = np.random.Generator(np.random.PCG64([n, 404]))
    pick = [np.arange(0, min(n, 64)), np.arange(max(0, n - 64), n), rng.integers(0, n, size=4096)]
    for m in range(2, 17):
        for k in range(1, m):
            c = (k * n) // m
            pick.append(np.arange(max(0, c - 2), min(n, c + 3)))
    if not ops.is_binned(res) and res.ndim > 1 and res.shape[0] > 1:
        n0 = res.shape[0]
        row = n // n0
        rows = {0, n0 - 1}
        for m in range(2, 17):
            for k in range(1, m):
                for c in ((k * n0) // m, -((-k * n0) // m)):  # floor and ceil of the split point
                    rows.update(r for r in (c - 1, c, c + 1) if 0 <= r < n0)
        rows = np.array(sorted(rows), dtype=np.int64)
        cols = np.unique(np.concatenate([[0, row - 1], rng.integers(0, row, size=6)]))
        pick.append((rows[:, None] * row + cols[None, :]).ravel())
    return np.unique(np.concatenate(pick).astype(np.int64))


def screen64(args, res, g_si, u2):
    """The documented construction in float64 for every element / event of ``res`` (components in the
    beam-aligned frame; two_theta = atan2(|b1 x b2'|, b1 . b2')). Per-operand quantities are computed at the
    size of the operands; only delta and the angles have the size of the result."""
    c = consts()
    f = np.float64
    dims = list(res.dims)

    def ex_(op):
        return np.asarray(_np_broadcast(op.values, op.dims, dims, None), dtype=f)

    g = np.asarray(g_si, dtype=f)
    gn = float(np.sqrt(np.sum(g * g)))
    ey = -g / gn
    b1, b2 = ex_(args['incident_beam']), ex_(args['scattered_beam'])
    b1y = np.sum(b1 * ey, axis=-1)
    zp = b1 - b1y[..., None] * ey
    b1z = np.sqrt(np.sum(zp * zp, axis=-1))
    ez = zp / b1z[..., None]
    exv = np.cross(ey, ez)
    x, y, z = np.sum(b2 * exv, axis=-1), np.sum(b2 * ey, axis=-1), np.sum(b2 * ez, axis=-1)
    L2 = np.sqrt(np.sum(b2 * b2, axis=-1))
    off = np.abs(b1y)
    off_ang = off / np.sqrt(np.sum(b1 * b1, axis=-1))
    w = args['wavelength']
    fw = float(si.factor(ops.elem_unit(w)))
    if ops.is_binned(res):
        rb, re_ = _bin_ranges(res)
        sizes = (re_ - rb).ravel()

        def full(a):
            return np.repeat(np.broadcast_to(a, res.shape).ravel(), sizes)

        lam = np.asarray(elements_like(w, res), dtype=f) * fw
    else:
        def full(a):
            return a

        lam = np.asarray(_np_broadcast(w.values, w.dims, dims, None), dtype=f) * fw
    u2 = float(u2)
    k = gn * float(c['m_n']) ** 2 / (2 * float(c['h']) ** 2) * u2
    delta = k * lam * lam * full(L2 * L2)
    yp = full(y) + delta
    x, z, b1y, b1z = full(x), full(z), full(b1y), full(b1z)
    cx = b1y * z - b1z * yp
    cy = b1z * x
    cz = b1y * x
    return {
        'two_theta': np.arctan2(np.sqrt(cx * cx + cy * cy + cz * cz), b1y * yp + b1z * z),
        'phi': np.arctan2(yp, x), 'gamma': np.arctan2(np.abs(yp), z),
        'scale_phi': (full(L2) + delta) / np.hypot(x, yp), 'scale_gamma': (full(L2) + delta) / np.hypot(yp, z),
        'off_len': full(off), 'off_ang': full(off_ang),
    }


def screen_judge(key, got, scr, f32):
    """(worst fraction of the bound, flat index of it, number of undecided elements) of one output."""
    got = np.asarray(got, dtype=np.float64)
    exp = np.broadcast_to(scr[key], got.shape)
    eps = si.EPS32 if f32 else si.EPS64
    base = TOL32 if f32 else SCREEN_TOL64
    with np.errstate(divide='ignore', invalid='ignore'):
        d = np.abs(got - exp)
        if key == 'two_theta':
            tol = base + np.where(scr['off_len'] <= 1.001e-10, 2 * scr['off_ang'], 0.0)
            tol = np.broadcast_to(tol, got.shape)
        else:
            if key == 'phi':
                d = np.minimum(d, np.abs(2 * np.pi - d))
            tol = base + (64 if f32 else 1e4) * eps * np.broadcast_to(scr['scale_' + key], got.shape)
        decided = np.isfinite(tol) & (tol < 1e-3)
        frac = np.where(decided, d / tol, 0.0)
        frac = np.where(decided & ~np.isfinite(got), np.inf, frac)
    i = int(np.argmax(frac))
    return float(np.ravel(frac)[i]), i, int(got.size - np.count_nonzero(decided)), \
        float(np.ravel(d)[i]), float(np.ravel(exp)[i])


def g_domain(gravity):
    """None inside the judged domain; else the reason the call is only counted."""
    gn = float(geom.norm(np.asarray(gravity.values)))
    if gn == 0:
        return 'out of domain: |g| = 0'
    if gn < G_FLOOR:
        return 'out of judged domain: |g|^2 underflows float64'
    return None


def _nonfinite(res):
    try:
        vals = [ops.result_values(r) for r in (res.values() if isinstance(res, dict) else [res])]
        return any(not np.all(np.isfinite(np.asarray(v, dtype=np.float64))) for v in vals)
    except Exception:  # noqa: BLE001
        return True


class Monitors:
    def __init__(self, ctx):
        self.ctx = ctx
        self.path = None
        self.meta = {}
        self.intended = None
        self.same = 'is'       # 'identical': the objects pass through scipp's transform_coords (new wrappers)
        self.seen = None       # list collecting (name, event) of every observed public call, when set

    def mark(self, path):
        def h(ev):
            self.path = path
        return h

    def where(self):
        if self.meta.get('process') == 'fresh interpreter':
            return f' [in a fresh interpreter after `{self.meta.get("imported")}` only]'
        return ''

    def binding(self, ev, name):
        """The callee must receive each object under the documented parameter name, however it was passed."""
        want, self.intended = self.intended, None
        if self.seen is not None:
            self.seen.append((name, ev))
        if want is None:
            return
        self.ctx.event('binding.' + name)
        if self.same == 'is':
            wrong = [k for k, v in want.items() if ev.args.get(k) is not v]
        else:
            wrong = [k for k, v in want.items()
                     if not (isinstance(ev.args.get(k), sc.Variable) and sc.identical(ev.args[k], v))]
        if wrong:
            how = self.meta.get('convention', 'positional arguments in the documented order')
            self.ctx.violation('binding', f'{name} called with {how} '
                               f'(incident_beam, scattered_beam, wavelength, gravity) receives other objects as '
                               f'{wrong}', {'function': name, 'wrong': wrong, **self.meta}, function=name)

    def variances_refused(self, ev, name):
        """scipp defines no propagation of uncertainties through atan2: a wavelength with variances is refused with
        scipp's VariancesError (DTypeError for the events of binned data) by the unchanged tree -- a counted refusal. (If a result is returned its values
        are judged like any other; its variances are not judged.)"""
        try:
            w = ev.args['wavelength']
            data = w.bins.constituents['data'] if ops.is_binned(w) else w
            has = data.variances is not None
        except Exception:  # noqa: BLE001
            return False
        if not has:
            return False
        if isinstance(ev.exc, sc.VariancesError | sc.DTypeError):
            # (scipp refuses variances on the events of binned data in atan2 with its DTypeError)
            self.ctx.event('variances.refused: ' + name)
            self.ctx.count(f'refused: wavelength with variances ({type(ev.exc).__name__})')
            return True
        if ev.exc is None:
            self.ctx.count('wavelength with variances accepted: values judged, variances of the result not judged')
        return False

    def screen(self, name, args, results, g_si, u2, f32, case, path):
        """Stage one for results beyond HEAVY_LIMIT: every element against the construction in float64.
        True if a violation was reported."""
        ctx = self.ctx
        cache, bad = {}, False
        for key, res in results.items():
            lay = (tuple(res.dims), tuple(res.shape))
            if lay not in cache:
                cache[lay] = screen64(args, res, g_si, u2)
            worst, i, n_und, d, exp = screen_judge(key, ops.result_values(res), cache[lay], f32)
            ctx.event('screen.' + name)
            ctx.count('elements judged against the float64 construction (results beyond 2^19 elements)',
                      n_elements(res) - n_und)
            if n_und:
                ctx.count('undecided:ill-conditioned ' + key, n_und)
            ctx.dev(f'screen {key}.{path or "yz"}.{"f32" if f32 else "f64"} (fraction of the screening bound)', worst)
            if worst > 1:
                bad = True
                case2 = dict(case, output=key, flat_index=i, abserr=d, expected=repr(exp), stage='float64 screen')
                if key == 'gamma':
                    ctx.violation('angle_yz', f'{name}: element {i} of {n_elements(res)} off by {d:.3g} rad from '
                                  'atan2(|y_d + delta|, z_d)', case2)
                else:
                    ctx.violation('angle', f'{name}[{key}] via {path} path: element {i} of {n_elements(res)} off by '
                                  f'{d:.3g} rad', case2, path=path, output=key, matches_lowered_beam=False)
        return bad

    def outside(self, ev, name):
        """Calls with a gravity vector outside the judged domain are counted, never judged."""
        try:
            why = g_domain(ev.args['gravity'])
        except Exception:  # noqa: BLE001
            self.ctx.oracle_error(name)
            return True
        if why is None:
            return False
        self.ctx.count(why)
        if ev.exc is not None or _nonfinite(ev.result):
            self.ctx.count(why + ': non-finite or refused result')
        return True

    def _common(self, ev):
        args = ev.args
        g = args['gravity']
        g_si = np.asarray(g.values).astype(si.LD) * si.factor(g.unit)
        u2 = si.factor(args['scattered_beam'].unit)
        f32 = ops.elem_dtype(args['wavelength']) == sc.DType.float32
        return args, g_si, u2, f32

    def angles(self, ev):
        name = 'scattering_angles_with_gravity'
        ctx = self.ctx
        path, self.path = self.path, None
        self.binding(ev, name)
        if self.outside(ev, name) or self.variances_refused(ev, name):
            return
        case = {'function': name, 'path': path, **self.meta,
                'args': {k: describe(v) for k, v in ev.args.items()}}
        if ev.exc is not None:
            ctx.violation('raised', f'{name} raised {type(ev.exc).__name__}: {str(ev.exc)[:300]}' + self.where(), case,
                          path=path)
            return
        try:
            args, g_si, u2, f32 = self._common(ev)
            tt, phi = ev.result['two_theta'], ev.result['phi']
            problems = {key: layout_problem(args, res) for key, res in (('two_theta', tt), ('phi', phi))}
        except Exception:  # noqa: BLE001
            ctx.oracle_error(name)
            return
        for key, problem in problems.items():
            if problem is not None:
                ctx.event(name)
                ctx.violation('layout', f'{name}[{key}]: {problem}', case, path=path, output=key)
        if any(v is not None for v in problems.values()):
            return
        try:
            heavy = n_elements(tt) > HEAVY_LIMIT
            if heavy and self.screen(name, args, {'two_theta': tt, 'phi': phi}, g_si, u2, f32, case, path):
                ctx.event(name)
                return
            out = {}
            for key, res in (('two_theta', tt), ('phi', phi)):
                sel = heavy_selection(res) if heavy else None
                b1, b2, lam = _b2_aligned(args, res, sel)
                exp = construction(b1, b2, lam, g_si, u2)
                low = construction(b1, b2, lam, g_si, u2, sign=-1)
                got = ops.result_values(res)
                got = (got if sel is None else np.ravel(got)[sel]).astype(si.LD)
                eps = si.EPS32 if f32 else si.EPS64
                base = TOL32 if f32 else TOL64
                if key == 'phi':
                    scale = exp['L2'] + exp['delta']
                    den = np.hypot(exp['x'], exp['yp'])
                    with np.errstate(divide='ignore', invalid='ignore'):
                        tol = base + 64 * eps * scale / den
                    d = np.abs(got - exp[key])
                    d = np.minimum(d, np.abs(2 * si.PI - d))  # atan2 branch cut at +-pi
                    dl = np.abs(got - low[key])
                else:
                    # beams within the dispatch threshold (|b1 . g^| <= 1e-10 length units) are treated
                    # as perpendicular by the documented equivalent formula: allow their actual tilt
                    allow = np.where(exp['off_len'] <= 1.001e-10, 2 * exp['off_ang'], 0)
                    tol = np.full(got.shape, base, dtype=si.LD) + allow
                    d = np.abs(got - exp[key])
                    dl = np.abs(got - low[key])
                decided = np.isfinite(tol.astype(np.float64)) & (tol < 1e-3)
                out[key] = (d, dl, tol, decided, got, exp, res)
        except Exception:  # noqa: BLE001
            ctx.oracle_error(name)
            return
        ctx.event(name)
        ctx.event('path.' + str(path))
        self.judged_classes(ev, name)
        want_dtype = sc.DType.float32 if f32 else sc.DType.float64
        for key, (d, dl, tol, decided, got, exp, res) in out.items():
            if ops.elem_unit(res) != sc.Unit('rad') or ops.elem_dtype(res) != want_dtype:
                ctx.violation('unit_dtype', f'{name}[{key}]: unit {ops.elem_unit(res)} dtype '
                              f'{ops.elem_dtype(res)}', case, path=path, output=key)
                continue
            n_und = int(d.size - np.count_nonzero(decided))
            if n_und:
                ctx.count('undecided:ill-conditioned ' + key, n_und)
            if not np.any(decided):
                continue
            frac = np.where(decided, d / tol, 0)
            worst = float(np.max(frac))
            ctx.dev(f'{key}.{path}.{"f32" if f32 else "f64"} (fraction of bound)', worst)
            if not np.all(np.isfinite(got[decided].astype(np.float64))):
                ctx.violation('nonfinite', f'{name}[{key}] non-finite', case, path=path, output=key)
            elif worst > 1:
                i = int(np.argmax(frac))
                lowered = bool(np.ravel(dl)[i] <= np.ravel(tol)[i])
                case2 = dict(case, output=key, got=repr(np.ravel(got)[i]), expected=repr(np.ravel(exp[key])[i]),
                             abserr=float(np.ravel(d)[i]), tol=float(np.ravel(tol)[i]),
                             matches_lowered_beam=lowered)
                ctx.violation('angle', f'{name}[{key}] via {path} path: off by {float(np.ravel(d)[i]):.3g} rad'
                              + (' (equals the construction with the beam LOWERED)' if lowered else ''),
                              case2, path=path, output=key, matches_lowered_beam=lowered)

    def judged_classes(self, ev, name):
        """Evidence: which of the forced input classes actually reached a verdict."""
        ctx = self.ctx
        fam = self.meta.get('family')
        if fam == 'layout' and name != 'beam_aligned_unit_vectors':
            ctx.event('judged.layout: ' + self.meta.get('wavelength_kind', '?') + ' wavelength, '
                      + self.meta.get('relation', '?') + ', ' + name)
        if fam in ('heavy', 'graph', 'reuse', 'dim names', 'sizes', 'inplace', 'fresh') \
                and name != 'beam_aligned_unit_vectors':
            ctx.event(f'judged.{fam}: ' + self.meta.get('class', '?') + ', ' + name)
        gn = float(geom.norm(np.asarray(ev.args['gravity'].values)))
        if gn < 1e-12:
            ctx.event('judged.|g| below 1e-12 in its unit: ' + name)
            if self.meta.get('tilt') == 0:
                ctx.event('judged.|g| below 1e-12 in its unit, horizontal beam: ' + name)

    def frame(self, ev):
        """beam_aligned_unit_vectors: e_y = -g/|g|, e_z = the normalised projection of b1 perpendicular to e_y,
        e_x = e_y x e_z (documented); refusal only for beams parallel to gravity."""
        name = 'beam_aligned_unit_vectors'
        ctx = self.ctx
        if self.seen is not None:
            self.seen.append((name, ev))
        if self.outside(ev, name):
            return
        case = {'function': name, **self.meta, 'args': {k: describe(v) for k, v in ev.args.items()}}
        if ev.exc is not None:
            if self.meta.get('parallel_to_gravity') and isinstance(ev.exc, ValueError):
                ctx.event('frame.refused')
                return
            if self.meta.get('family') in ('direct', 'yz', 'tilt_sweep', 'limits', 'frame', 'layout', 'heavy',
                                           'graph', 'reuse', 'dim names', 'sizes', 'inplace', 'fresh'):
                ctx.violation('frame_raised', f'{name} raised {type(ev.exc).__name__}: {ev.exc}' + self.where(), case)
            return
        if self.meta.get('parallel_to_gravity'):
            ctx.violation('frame_not_refused', f'{name} accepted an incident beam parallel to gravity', case)
            return
        try:
            b1 = geom.v3(np.asarray(ev.args['incident_beam'].values))
            g = geom.v3(np.asarray(ev.args['gravity'].values))
            ey = -g / geom.norm(g)[..., None]
            b1, ey = np.broadcast_arrays(b1, ey)
            z = b1 - np.sum(b1 * ey, axis=-1)[..., None] * ey
            zn = geom.norm(z)
            ez = z / zn[..., None]
            ex = np.cross(ey, ez)
            got = {k: np.asarray(ev.result['beam_aligned_unit_' + k].values).astype(si.LD) for k in 'xyz'}
            # conditioning of the projection: |b1| / |z_proj|
            cond = geom.norm(b1) / zn
            tol = {'x': 64 * si.EPS64 * cond, 'y': 8 * si.EPS64 * np.ones_like(cond), 'z': 64 * si.EPS64 * cond}
            want = {'x': ex, 'y': ey, 'z': ez}
        except Exception:  # noqa: BLE001
            ctx.oracle_error(name)
            return
        ctx.event(name)
        self.judged_classes(ev, name)
        for k in 'xyz':
            gk = np.broadcast_to(got[k], want[k].shape) if got[k].shape != want[k].shape else got[k]
            d = np.max(np.abs(gk - want[k]), axis=-1)
            frac = float(np.max(d / tol[k]))
            ctx.dev(f'frame.e{k} (fraction of bound)', frac)
            unit_ok = ev.result['beam_aligned_unit_' + k].unit == sc.units.dimensionless
            if frac > 1 or not unit_ok:
                ctx.violation('frame', f'{name}: e_{k} differs from the documented construction by '
                              f'{float(np.max(d)):.3g}' + ('' if unit_ok else ' (not dimensionless)'), case, axis=k)

    def yz(self, ev):
        name = 'scattering_angle_in_yz_plane'
        ctx = self.ctx
        tilt = self.meta.get('tilt')
        self.binding(ev, name)
        if self.outside(ev, name) or self.variances_refused(ev, name):
            return
        case = {'function': name, **self.meta, 'args': {k: describe(v) for k, v in ev.args.items()}}
        if ev.exc is not None:
            if isinstance(ev.exc, ValueError) and tilt is not None and tilt > 0:
                ctx.event('yz.refused')
                return
            ctx.violation('yz_raised', f'{name} raised {type(ev.exc).__name__} for tilt {tilt}: {str(ev.exc)[:300]}'
                          + self.where(), case, tilt_zero=(tilt == 0))
            return
        if tilt is not None and tilt >= 1e-3:
            ctx.violation('yz_not_refused', f'{name} accepted an incident beam tilted by {tilt} rad '
                          'out of the plane perpendicular to gravity', case)
            return
        if tilt is None or tilt > 0:
            ctx.count('undecided:yz tilt band')
            return
        try:
            args, g_si, u2, f32 = self._common(ev)
            res = ev.result
            problem = layout_problem(args, res)
        except Exception:  # noqa: BLE001
            ctx.oracle_error(name)
            return
        if problem is not None:
            ctx.event(name)
            ctx.violation('layout', f'{name}: {problem}', case, output='gamma')
            return
        try:
            heavy = n_elements(res) > HEAVY_LIMIT
            if heavy and self.screen(name, args, {'gamma': res}, g_si, u2, f32, case, None):
                ctx.event(name)
                return
            sel = heavy_selection(res) if heavy else None
            b1, b2, lam = _b2_aligned(args, res, sel)
            exp = construction(b1, b2, lam, g_si, u2)
            got = ops.result_values(res)
            got = (got if sel is None else np.ravel(got)[sel]).astype(si.LD)
            eps = si.EPS32 if f32 else si.EPS64
            base = TOL32 if f32 else TOL64
            with np.errstate(divide='ignore', invalid='ignore'):
                tol = base + 64 * eps * (exp['L2'] + exp['delta']) / np.hypot(exp['yp'], exp['z'])
            d = np.abs(got - exp['gamma'])
            decided = np.isfinite(tol.astype(np.float64)) & (tol < 1e-3)
        except Exception:  # noqa: BLE001
            ctx.oracle_error(name)
            return
        ctx.event(name)
        self.judged_classes(ev, name)
        if np.any(decided):
            frac = np.where(decided, d / tol, 0)
            worst = float(np.max(frac))
            ctx.dev(f'gamma.{"f32" if f32 else "f64"} (fraction of bound)', worst)
            if ops.elem_unit(res) != sc.Unit('rad'):
                ctx.violation('unit_dtype', f'{name}: unit {ops.elem_unit(res)}', case)
            elif worst > 1:
                i = int(np.argmax(frac))
                ctx.violation('angle_yz', f'{name}: off by {float(np.ravel(d)[i]):.3g} rad from '
                              'atan2(|y_d + delta|, z_d)', dict(case, got=repr(np.ravel(got)[i]),
                                                                expected=repr(np.ravel(exp["gamma"])[i])))


# ------------------------------------------------------------- generator ---
AXIS_KINDS = ('nexus', 'g-y beam-z', 'g-y beam+x', 'g-y beam oblique in xz', 'g any axis, beam any axis')


def draw_g(rng, band, ug, hi_si=100.0):
    """|g| in SI with the numeric value in unit ``ug`` log-uniform over the band (never above hi_si m/s^2)."""
    fg = float(si.lookup(sc.Unit(ug))[0])
    lo, hi = band[1], band[2]
    top = float(np.log10(hi_si / fg))
    hi = top if hi is None else min(hi, top)
    return float(10.0 ** rng.uniform(lo, hi) * fg)


def make_config(rng, ctx, tilt=None, gmag=None, axis_aligned=False):
    """One beamline configuration: returns numpy pieces (SI-free: lengths in unit u)."""
    gmag = GMAGS[rng.integers(0, len(GMAGS))] if gmag is None else gmag
    if axis_aligned:
        # gravity exactly along a coordinate axis (NeXus: -y), the beam exactly perpendicular to it:
        # along another axis in either sense, or oblique in the plane of the two other axes
        kind = AXIS_KINDS[int(rng.integers(0, len(AXIS_KINDS)))] if axis_aligned is True else axis_aligned
        ghat = np.array([0.0, -1.0, 0.0])
        if kind == 'nexus':
            h = np.array([0.0, 0.0, 1.0])
        elif kind == 'g-y beam-z':
            h = np.array([0.0, 0.0, -1.0])
        elif kind == 'g-y beam+x':
            h = np.array([1.0, 0.0, 0.0])
        elif kind == 'g-y beam oblique in xz':
            a = rng.uniform(0.1, 3.0) * (1 if rng.random() < 0.5 else -1)
            h = np.array([np.sin(a), 0.0, np.cos(a)])
            h /= np.linalg.norm(h)
        else:  # any axis for gravity, any perpendicular axis for the beam
            ax = int(rng.integers(0, 3))
            ghat = np.zeros(3)
            ghat[ax] = 1.0 if rng.random() < 0.5 else -1.0
            h = np.zeros(3)
            h[(ax + int(rng.integers(1, 3))) % 3] = 1.0 if rng.random() < 0.5 else -1.0
        ctx.hit('axis-aligned: ' + kind)
    else:
        ghat = geom.random_unit(rng, 1)[0]
        h = geom.perpendicular_unit(rng, ghat[None, :])[0].astype(np.float64)
    tilt = TILTS[rng.integers(0, len(TILTS))] if tilt is None else tilt
    L1 = 10.0 ** rng.uniform(-1, 2)
    up = -geom.v3(ghat)
    sgn = 1.0 if rng.random() < 0.5 else -1.0
    b1 = (L1 * (np.cos(si.LD(tilt)) * geom.v3(h) + sgn * np.sin(si.LD(tilt)) * up)).astype(np.float64)
    return {'ghat': ghat, 'gmag': gmag, 'h': h, 'tilt': tilt, 'b1': b1, 'L1': L1, 'axis_aligned': axis_aligned}


def detectors(rng, n):
    d = geom.random_unit(rng, n) * (10.0 ** rng.uniform(-1, 2, size=(n, 1)))
    return d


def build_args(rng, cfg, det, layout, f32, units):
    ub, uw, ug = units
    fb = float(si.lookup(sc.Unit(ub))[0])
    b1 = sc.vector(cfg['b1'] / fb, unit=ub)
    npix = len(det)
    b2 = sc.vectors(dims=['pixel'], values=det / fb, unit=ub) if npix > 1 or layout != 'scalar' else sc.vector(det[0] / fb, unit=ub)
    fg = float(si.lookup(sc.Unit(ug))[0])
    g = sc.vector(cfg['ghat'] * cfg['gmag'] / fg, unit=ug)
    fw = float(si.lookup(sc.Unit(uw))[0])
    dt = 'float32' if f32 else 'float64'
    lo = 1e-3 if f32 else 0.0
    nw = int(rng.integers(1, 12))

    def lam(n):
        v = rng.uniform(lo, 100.0, size=n) * 1e-10
        if n > 2 and not f32:
            v[0] = 0.0
        return (v / fw).astype(dt)

    if layout == 'scalar':
        w = sc.scalar(lam(1)[0].item(), unit=uw, dtype=dt)
    elif layout == '1d':
        w = sc.array(dims=['wavelength'], values=lam(nw), unit=uw, dtype=dt)
    elif layout == '2d':
        w = sc.array(dims=['pixel', 'wavelength'], values=lam(npix * nw).reshape(npix, nw), unit=uw, dtype=dt)
    elif layout == 'per_pixel':
        w = sc.array(dims=['pixel'], values=lam(npix), unit=uw, dtype=dt)
    else:  # binned
        sizes = rng.integers(0, 9, size=npix)
        w = ops.make_binned(lam(int(sizes.sum())), sizes, ['pixel'], (npix,), uw, dtype=dt)
    return {'incident_beam': b1, 'scattered_beam': b2, 'wavelength': w, 'gravity': g}


LAYOUTS = ['scalar', '1d', '2d', 'per_pixel', 'binned']


def tilt_sweep(rng, ctx, K, mon):
    """Continuity across the dispatch between the two implementations."""
    gmag = [1.0, 9.80665, 100.0][rng.integers(0, 3)]
    base = make_config(rng, ctx, tilt=0.0, gmag=gmag)
    det = detectors(rng, int(rng.integers(2, 10)))
    units = (LEN_UNITS[rng.integers(0, 3)], 'angstrom', 'm/s^2')
    fb = float(si.lookup(sc.Unit(units[0]))[0])
    lam = sc.array(dims=['wavelength'], values=rng.uniform(1.0, 100.0, size=4), unit='angstrom')
    up = -geom.v3(base['ghat'])
    prev = None
    paths = []
    for tilt in TILTS:
        b1 = (base['L1'] * (np.cos(si.LD(tilt)) * geom.v3(base['h']) + np.sin(si.LD(tilt)) * up)).astype(np.float64)
        mon.meta = {'family': 'tilt_sweep', 'tilt': tilt, 'gmag': gmag}
        mon.path = None
        res = K.scattering_angles_with_gravity(
            incident_beam=sc.vector(b1 / fb, unit=units[0]),
            scattered_beam=sc.vectors(dims=['pixel'], values=det / fb, unit=units[0]),
            wavelength=lam, gravity=sc.vector(base['ghat'] * gmag, unit='m/s^2'))
        tt = res['two_theta'].transpose(['pixel', 'wavelength']).values.astype(si.LD)
        ph = res['phi'].transpose(['pixel', 'wavelength']).values.astype(si.LD)
        if prev is not None:
            dt_ = tilt - prev[0]
            jump = float(np.max(np.abs(tt - prev[1])))
            ctx.event('continuity')
            ctx.dev('continuity: max |d two_theta| - 2|d tilt|', jump - 2 * dt_)
            if jump > 2 * dt_ + 1e-12:
                ctx.violation('discontinuity', f'two_theta jumps by {jump:.3g} rad when the incident beam is '
                              f'tilted from {prev[0]:g} to {tilt:g} rad out of the horizontal',
                              {'family': 'tilt_sweep', 'tilt_from': prev[0], 'tilt_to': tilt, 'gmag': gmag,
                               'unit': units[0], 'b1': [float(x).hex() for x in b1],
                               'det0': [float(x).hex() for x in det[0]],
                               'ghat': [float(x).hex() for x in base['ghat']]},
                              tilt_from=prev[0], tilt_to=tilt)
        prev = (tilt, tt, ph)
    return ('tilt_sweep', units[0], gmag)


DOCUMENTED_ORDER = ('incident_beam', 'scattered_beam', 'wavelength', 'gravity')


# every calling convention the signature (four positional-or-keyword parameters) allows
CONVENTIONS = ('keywords', 'positional', '1 positional + 3 keywords', '2 positional + 2 keywords',
               '3 positional + 1 keyword', 'keywords in reverse order')
N_POSITIONAL = {'keywords': 0, 'positional': 4, '1 positional + 3 keywords': 1, '2 positional + 2 keywords': 2,
                '3 positional + 1 keyword': 3, 'keywords in reverse order': 0}


def call(fn, args, mon, convention):
    """``convention``: a member of CONVENTIONS (True = 'positional', False = 'keywords'). For every convention but
    plain keywords the monitor checks that each object arrives under its documented name."""
    if isinstance(convention, bool):
        convention = 'positional' if convention else 'keywords'
    mon.ctx.hit('call: ' + convention)
    if convention == 'keywords':
        return fn(**args)
    mon.intended = dict(args)
    mon.meta = dict(mon.meta, convention=convention)
    n = N_POSITIONAL[convention]
    names = DOCUMENTED_ORDER[n:]
    if convention == 'keywords in reverse order':
        names = names[::-1]
    return fn(*[args[k] for k in DOCUMENTED_ORDER[:n]], **{k: args[k] for k in names})


def convention_of(i):
    """Every third call uses one of the non-keyword conventions, in turn."""
    return CONVENTIONS[1 + (i // 3) % (len(CONVENTIONS) - 1)] if i % 3 == 1 else 'keywords'


N_AXIS = len(AXIS_KINDS)
N_GFORCED = 2 * len(GBANDS)  # every |g| band with a horizontal beam and with a drawn tilt, in every shard
N_DEEP = 2


def run_case(rng, ctx, K, mon, i=0, shard_index=0):
    axis = rng.random() < 0.15
    if i < N_AXIS:
        axis = AXIS_KINDS[i]  # every axis-aligned kind in every shard
    units = [LEN_UNITS[rng.integers(0, 3)], WAV_UNITS[rng.integers(0, 3)], G_UNITS[rng.integers(0, len(G_UNITS))]]
    # gravity class: a fixed magnitude, or a magnitude log-uniform over a band of the numeric value in its unit
    band, tilt = None, (0.0 if i < N_AXIS else None)
    k = i - N_AXIS
    if 0 <= k < N_GFORCED + N_DEEP:
        band = GBANDS[k // 2] if k < N_GFORCED else DEEP_BAND
        tilt = 0.0 if k % 2 == 0 else TILTS[1 + (k // 2 + shard_index) % (len(TILTS) - 1)]
        units[2] = G_UNITS[(k + shard_index) % len(G_UNITS)]  # every unit with every band over the shards
        axis = False
    elif k >= 0 and rng.random() < 0.25:
        band = GBANDS[rng.integers(0, len(GBANDS))]
    units = tuple(units)
    gmag = None if band is None else draw_g(rng, band, units[2])
    cfg = make_config(rng, ctx, axis_aligned=axis, tilt=tilt, gmag=gmag)
    gclass = f'{cfg["gmag"]:g}' if band is None else 'band ' + band[0]
    axis = bool(axis)
    positional = convention_of(i)
    layout = LAYOUTS[rng.integers(0, len(LAYOUTS))]
    f32 = rng.random() < 0.3
    npix = 1 if layout == 'scalar' else int(rng.integers(1, 12))
    det = detectors(rng, npix)
    special = rng.random()
    if special < 0.15:  # detectors above a horizontal beam (claim iii) incl. straight up
        det = np.abs(rng.uniform(0.1, 1, size=(npix, 1))) * (-cfg['ghat'])[None, :] * 10 + \
            cfg['h'][None, :] * rng.uniform(-5, 20, size=(npix, 1))
        ctx.hit('detector above beam')
    args = build_args(rng, cfg, det, layout, f32, units)
    per_pixel_b1 = layout in ('per_pixel', '2d', 'binned') and npix > 1 and rng.random() < 0.3
    if per_pixel_b1:
        # one incident beam per pixel: some perpendicular to gravity, the others tilted up OR down
        up = -geom.v3(cfg['ghat'])
        sgn = 1.0 if rng.random() < 0.5 else -1.0  # all tilted beams on the same side
        tl = np.where(rng.random(npix) < 0.5, 0.0, cfg['tilt'])
        if cfg['tilt'] > 0:
            tl[rng.integers(0, npix)] = cfg['tilt']
            tl[(rng.integers(0, npix) + 1) % npix if npix > 1 else 0] = 0.0 if rng.random() < 0.7 else cfg['tilt']
        b1s = np.array([(cfg['L1'] * (np.cos(si.LD(t)) * geom.v3(cfg['h']) + sgn * np.sin(si.LD(t)) * up)).astype(np.float64)
                        for t in tl])
        fb = float(si.lookup(sc.Unit(units[0]))[0])
        args['incident_beam'] = sc.vectors(dims=['pixel'], values=b1s / fb, unit=units[0])
        ctx.hit('per-pixel incident beams ' + ('tilted up' if sgn > 0 else 'tilted down'))
    if per_pixel_b1:
        cfg = dict(cfg, tilt=float(np.max(tl)))
    mon.meta = {'family': 'direct', 'tilt': float(cfg['tilt']), 'gmag': cfg['gmag'], 'g_class': gclass,
                'layout': layout, 'axis_aligned': axis, 'per_pixel_incident': bool(per_pixel_b1)}
    mon.path = None
    try:
        call(K.scattering_angles_with_gravity, args, mon, positional)
    except Exception:  # noqa: BLE001 judged through PY_UNWIND
        pass
    ctx.hit(f'tilt:{cfg["tilt"]:g}')
    ctx.hit('|g|:' + gclass)
    ctx.hit('|g| unit: ' + units[2])
    if band is not None:
        ctx.hit('|g|:' + gclass + (', horizontal beam' if cfg['tilt'] == 0 else ', tilted beam'))
    sig = ('angles', f'tilt{cfg["tilt"]:g}', 'g' + gclass, 'f32' if f32 else 'f64', layout, units)
    # reflectometry variant on the same configuration
    if rng.random() < 0.5 or i < N_AXIS or (band is not None and cfg['tilt'] == 0):
        mon.meta = dict(mon.meta, family='yz')
        try:
            call(K.scattering_angle_in_yz_plane, args, mon, positional)
        except Exception:  # noqa: BLE001
            pass
    trivial = axis and layout == 'scalar' and cfg['tilt'] == 0 and units == ('m', 'm', 'm/s^2') and not f32
    return sig, trivial, args


def frame_case(rng, ctx, K, mon, j):
    """Direct calls of the public beam_aligned_unit_vectors: any tilt up to nearly parallel, per-pixel beams,
    positional and keyword calls, and the refusal for a beam parallel to gravity."""
    ghat = geom.random_unit(rng, 1)[0]
    gmag = GMAGS[rng.integers(0, len(GMAGS))]
    h = geom.perpendicular_unit(rng, ghat[None, :])[0].astype(np.float64)
    n = int(rng.integers(1, 6))
    parallel = j % 8 == 7
    # the frame consists of unit vectors whatever the magnitude of gravity: every |g| band, the fixed magnitudes
    # and the band below the judged domain (counted) in turn
    bands = [*GBANDS, None, DEEP_BAND]
    band = bands[(j // 8 + j) % len(bands)]
    ang = rng.uniform(-1.5, 1.5, size=n)
    if parallel:
        b1 = (np.cos(ang)[:, None] * h[None, :] - np.sin(ang)[:, None] * ghat[None, :]) * 10.0 ** rng.uniform(-1, 2)
        # one beam of the array (or the only one) is parallel to gravity
        b1[int(rng.integers(0, n))] = ghat * (1.0 if rng.random() < 0.5 else -1.0) * 10.0 ** rng.uniform(-1, 2)
    else:
        ang = rng.uniform(-1.5, 1.5, size=n)  # elevation out of the horizontal
        b1 = (np.cos(ang)[:, None] * h[None, :] - np.sin(ang)[:, None] * ghat[None, :]) * 10.0 ** rng.uniform(-1, 2)
    ub = LEN_UNITS[rng.integers(0, 3)]
    ug = G_UNITS[rng.integers(0, len(G_UNITS))]
    beam = sc.vectors(dims=['pixel'], values=b1, unit=ub) if (len(b1) > 1 or rng.random() < 0.5) else sc.vector(b1[0], unit=ub)
    if band is None:
        g = sc.vector(ghat * max(gmag, 1e-3), unit=ug)
    else:
        g = sc.vector(ghat * (draw_g(rng, band, ug) / float(si.lookup(sc.Unit(ug))[0])), unit=ug)
    ctx.hit('frame: |g| ' + ('fixed magnitudes' if band is None else 'band ' + band[0]))
    mon.meta = {'family': 'frame', 'parallel_to_gravity': parallel}
    try:
        if j % 2:
            K.beam_aligned_unit_vectors(beam, g)
        else:
            K.beam_aligned_unit_vectors(incident_beam=beam, gravity=g)
    except Exception:  # noqa: BLE001  judged by the monitor
        pass
    mon.meta = {}
    return ('frame', ub, ug, 'parallel' if parallel else 'tilted', beam.ndim, 'fixed' if band is None else band[0])


LIMIT_MODES = ('lambda = 0', 'lambda -> 0 (1e-140..1e-6 angstrom)', '|g| = 1e-11 m/s^2',
               '|g| -> 0 (1e-149 in its unit .. 1e-11 m/s^2), horizontal beam',
               '|g| -> 0 (1e-149 in its unit .. 1e-11 m/s^2), tilted beam')


def limits_case(rng, ctx, K, mon, s=0):
    """lambda -> 0 and |g| -> 0 equal the gravity-free two_theta of the same beams (observed): lambda exactly 0
    and tiny; |g| = 1e-11 m/s^2 and |g| log-uniform down to the bottom of the judged domain, in every unit,
    with a horizontal (optimised path) and a tilted (general path) incident beam."""
    mode = LIMIT_MODES[s % len(LIMIT_MODES)]
    ug = 'm/s^2'
    tilt = None
    if mode.startswith('lambda'):
        gmag = 9.80665
    elif mode.startswith('|g| ='):
        gmag = 1e-11
    else:
        ug = G_UNITS[rng.integers(0, len(G_UNITS))]
        gmag = draw_g(rng, ('->0', -149.0, None), ug, hi_si=1e-11)
        tilt = 0.0 if 'horizontal' in mode else TILTS[int(rng.integers(1, len(TILTS)))]
    cfg = make_config(rng, ctx, gmag=gmag, tilt=tilt)
    det = detectors(rng, 6)
    lam0 = mode.startswith('lambda')
    b1 = sc.vector(cfg['b1'], unit='m')
    b2 = sc.vectors(dims=['pixel'], values=det, unit='m')
    if mode == 'lambda = 0':
        lam = [0.0, 0.0]
    elif lam0:
        lam = list(10.0 ** rng.uniform(-140, -6, size=2))
    else:
        lam = [1.0, 20.0]
    lam = sc.array(dims=['wavelength'], values=lam, unit='angstrom')
    mon.meta = {'family': 'limits', 'tilt': cfg['tilt'], 'gmag': cfg['gmag'], 'mode': mode}
    mon.path = None
    fg = float(si.lookup(sc.Unit(ug))[0])
    res = K.scattering_angles_with_gravity(incident_beam=b1, scattered_beam=b2, wavelength=lam,
                                           gravity=sc.vector(cfg['ghat'] * (cfg['gmag'] / fg), unit=ug))
    free = K.two_theta(incident_beam=b1, scattered_beam=b2)
    with np.errstate(invalid='ignore'):
        d = np.abs(res['two_theta'].transpose(['pixel', 'wavelength']).values - free.values[:, None])
    d = float(np.max(np.where(np.isfinite(d), d, np.inf)))
    off = abs(float(np.dot(cfg['b1'], cfg['ghat'])))
    allow = 2 * off / float(np.linalg.norm(cfg['b1'])) if off <= 1.001e-10 else 0.0
    ctx.event('limit')
    ctx.hit('limit: ' + mode)
    ctx.dev('limit: |two_theta - gravity-free|', d - allow)
    if d > 1e-11 + allow:
        ctx.violation('limit', f'two_theta differs from the gravity-free angle by {d:.3g} rad although ' + mode
                      + (f' (|g| = {cfg["gmag"] / fg:.3g} {ug})' if not lam0 else ''),
                      dict(mon.meta, g_unit=ug, g_value=cfg['gmag'] / fg), lambda_zero=lam0)
    return ('limits', mode, f'tilt{cfg["tilt"]:g}', ug)


# every broadcast relation scipp allows between the dims of wavelength and of scattered_beam
LAYOUT_RELATIONS = [
    # name, scattered_beam dims, wavelength dims
    ('both 0-d', [], []),
    ('equal 1-d', ['det'], ['det']),
    ('equal 2-d', ['det', 'voxel'], ['det', 'voxel']),
    ('equal 2-d transposed', ['voxel', 'det'], ['det', 'voxel']),
    ('wavelength 0-d, beam 1-d', ['det'], []),
    ('wavelength 0-d, beam 2-d', ['det', 'voxel'], []),
    ('wavelength = leading dim of beam', ['det', 'voxel'], ['det']),
    ('wavelength = trailing dim of beam', ['voxel', 'det'], ['det']),
    ('beam 0-d, wavelength 1-d', [], ['det']),
    ('beam = leading dim of wavelength', ['det'], ['det', 'tof']),
    ('beam = trailing dim of wavelength', ['det'], ['tof', 'det']),
    ('overlapping', ['det', 'voxel'], ['det', 'tof']),
    ('disjoint', ['voxel'], ['tof']),
]
LAYOUT_KINDS = ('dense', 'binned')
LAYOUT_PATHS = ('horizontal beam', 'tilted beam')


def layout_classes():
    return [f'layout: {kind} wavelength, {rel[0]}, {path}'
            for rel in LAYOUT_RELATIONS for kind in LAYOUT_KINDS for path in LAYOUT_PATHS]


# dims of the caller named like names that occur inside scipp / the package (binned data keep their events along
# 'event'; the parameters and outputs of the kernels; common internal dim names)
DIM_NAME_SETS = [('x', 'y', 'z'), ('event', 'row', 'range'), ('wavelength', 'scattered_beam', 'incident_beam'),
                 ('two_theta', 'phi', 'gravity'), ('rotation', 'slit', 'vertex')]
# dim labels that are not in NFC / NFKC form: labels that differ only by normalisation are DIFFERENT dims (the result
# spans all of them, each under exactly the code points the caller used)
UNICODE_DIM_SETS = [
    ('e\u0301', '\u00e9', '\u212b'),       # decomposed / composed accent, ANGSTROM SIGN
    ('\u212a', 'K', '\uff2b'),              # KELVIN SIGN, K, fullwidth K
    ('\u00b5', '\u03bc', '\u2126'),         # MICRO SIGN, GREEK SMALL MU, OHM SIGN
    ('\ufb01', 'fi', '\u00c5'),              # ligature fi, 'fi', A WITH RING
    ('\u1100\u1161', '\uac00', '\u037e'),   # conjoining jamo, the precomposed syllable, GREEK QUESTION MARK
    ('\u037e', ';', 'A\u030a'),             # GREEK QUESTION MARK, semicolon, A + COMBINING RING
]
# (p) dims whose length coincides with the lengths the implementation handles internally (the 3 components of a
# vector, the 2 ends of a range), one below, one above; relations with two 2-d operands
SIZE_CLASSES = (1, 2, 3, 4)
SIZE_RELATIONS = ('overlapping', 'equal 2-d transposed')


def dim_label(names):
    return '/'.join(n if n.isascii() else n.encode('unicode_escape').decode() for n in names)


def size_classes():
    return [f'sizes: all dims of length {n}, {rel}, {kind} wavelength, {path}' for n in SIZE_CLASSES
            for rel in SIZE_RELATIONS for kind in LAYOUT_KINDS for path in LAYOUT_PATHS]


def layout_case(rng, ctx, K, mon, rel, kind, path, variant, rename=None, length=None):
    """One call per (relation of the dims of wavelength and scattered_beam) x (dense / binned wavelength) x
    (code path); the reflectometry variant on the horizontal beams. Every (event, pixel) pair of the result is
    judged against the construction by the ordinary monitors. ``rename``: names for the dims (det, voxel, tof)."""
    name, bdims, wdims = rel
    sizes = {'det': int(rng.integers(2, 5)), 'voxel': int(rng.integers(2, 4)), 'tof': int(rng.integers(2, 4))}
    if length is not None:
        sizes = dict.fromkeys(sizes, int(length))
    tilt = 0.0 if path == 'horizontal beam' else [1e-7, 1e-3, 1e-1, 1.0][int(rng.integers(0, 4))]
    cfg = make_config(rng, ctx, tilt=tilt, gmag=[1.0, 9.80665, 100.0][int(rng.integers(0, 3))])
    ub, uw, ug = LEN_UNITS[rng.integers(0, 3)], WAV_UNITS[rng.integers(0, 3)], G_UNITS[rng.integers(0, len(G_UNITS))]
    fb, fw, fg = (float(si.lookup(sc.Unit(u))[0]) for u in (ub, uw, ug))
    f32 = rng.random() < 0.3
    dt = 'float32' if f32 else 'float64'
    bshape = [sizes[d] for d in bdims]
    det = detectors(rng, int(np.prod(bshape, dtype=int))).reshape([*bshape, 3]) / fb
    b2 = sc.vectors(dims=bdims, values=det, unit=ub) if bdims else sc.vector(det, unit=ub)
    wshape = tuple(sizes[d] for d in wdims)
    nbin = int(np.prod(wshape, dtype=int))

    def lam(n):
        return (rng.uniform(1e-3 if f32 else 0.0, 100.0, size=n) * 1e-10 / fw).astype(dt)

    contiguous = True
    if kind == 'dense':
        w = sc.array(dims=wdims, values=lam(nbin).reshape(wshape), unit=uw, dtype=dt) if wdims else \
            sc.scalar(lam(1)[0].item(), unit=uw, dtype=dt)
    else:
        bs = rng.integers(0, 6, size=nbin)
        bs[int(rng.integers(0, nbin))] = int(rng.integers(1, 6))  # at least one event
        contiguous = variant % 2 == 0
        if contiguous:
            w = ops.make_binned(lam(int(bs.sum())), bs, wdims, wshape, uw, dtype=dt)
        else:
            # the bins lie in the event buffer in another order, separated by events that belong to no bin
            order = rng.permutation(nbin)
            gaps = rng.integers(0, 3, size=nbin + 1)
            begin = np.zeros(nbin, dtype=np.int64)
            pos = int(gaps[0])
            for q in order:
                begin[q] = pos
                pos += int(bs[q]) + int(gaps[q + 1])
            data = sc.array(dims=['event'], values=lam(pos), unit=uw, dtype=dt)
            w = sc.bins(begin=sc.array(dims=wdims, values=begin.reshape(wshape), unit=None, dtype='int64'),
                        end=sc.array(dims=wdims, values=(begin + bs).reshape(wshape), unit=None, dtype='int64'),
                        dim='event', data=data)
    # incident beam: one for all, or one per element of a dim the other operands carry (same tilt class)
    span = list(dict.fromkeys([*bdims, *wdims]))
    per = span[variant // 2 % len(span)] if span and variant // 2 % 3 == 2 else None
    up = -geom.v3(cfg['ghat'])
    if per is None:
        b1 = sc.vector(cfg['b1'] / fb, unit=ub)
    else:
        n1 = sizes[per]
        tl = np.where(rng.random(n1) < 0.5, 0.0, tilt)
        tl[int(rng.integers(0, n1))] = tilt
        L1 = 10.0 ** rng.uniform(-1, 2, size=n1)
        b1s = np.array([(L * (np.cos(si.LD(t)) * geom.v3(cfg['h']) + np.sin(si.LD(t)) * up)).astype(np.float64)
                        for L, t in zip(L1, tl, strict=True)])
        b1 = sc.vectors(dims=[per], values=b1s / fb, unit=ub)
        ctx.hit('layout: one incident beam per element of a dim of the other operands')
    args = {'incident_beam': b1, 'scattered_beam': b2, 'wavelength': w,
            'gravity': sc.vector(cfg['ghat'] * (cfg['gmag'] / fg), unit=ug)}
    mon.meta = {'family': 'layout', 'tilt': float(tilt), 'gmag': cfg['gmag'], 'relation': name,
                'wavelength_kind': kind, 'contiguous_bins': bool(contiguous),
                'per_element_incident': per is not None}
    if rename is not None:
        to = dict(zip(('det', 'voxel', 'tof'), rename, strict=True))
        args = {k: v.rename_dims({d: to[d] for d in v.dims}) for k, v in args.items()}
        cls = 'dims named ' + dim_label(rename)
        mon.meta = dict(mon.meta, family='dim names', **{'class': f'{cls}, {kind} wavelength, {path}'})
        ctx.hit('dim names: ' + cls)
    if length is not None:
        cls = f'all dims of length {length}, {name}, {kind} wavelength, {path}'
        mon.meta = dict(mon.meta, family='sizes', **{'class': cls})
    mon.path = None
    positional = convention_of(variant)
    try:
        call(K.scattering_angles_with_gravity, args, mon, positional)
    except Exception:  # noqa: BLE001 judged through PY_UNWIND
        pass
    if tilt == 0:
        try:
            call(K.scattering_angle_in_yz_plane, args, mon, positional)
        except Exception:  # noqa: BLE001
            pass
    mon.meta = {}
    if rename is not None:
        return ('dim names', dim_label(rename), kind, path, 'f32' if f32 else 'f64')
    if length is not None:
        ctx.hit('sizes: ' + cls)
        return ('sizes', length, name, kind, path, 'f32' if f32 else 'f64')
    ctx.hit(f'layout: {kind} wavelength, {name}, {path}')
    if kind == 'binned':
        ctx.hit('layout: binned wavelength, ' + ('contiguous event buffer' if contiguous else
                                                  'bins out of order in the event buffer, with foreign events'))
    return ('layout', name, kind, path, 'f32' if f32 else 'f64', per is not None, contiguous)


def small_args(rng, ctx, tilt, kind, f32=False, variances=False, npix=None, ntof=None):
    """wavelength[det, tof] dense or binned over det, scattered_beam[det], one incident beam at the given tilt."""
    cfg = make_config(rng, ctx, tilt=tilt, gmag=[1.0, 9.80665, 100.0][int(rng.integers(0, 3))])
    npix = int(rng.integers(2, 7)) if npix is None else npix
    ntof = int(rng.integers(2, 6)) if ntof is None else ntof
    dt = 'float32' if f32 else 'float64'
    det = detectors(rng, npix)
    if kind == 'dense':
        v = rng.uniform(0.5, 50.0, size=(npix, ntof)).astype(dt)
        w = sc.array(dims=['det', 'tof'], values=v, unit='angstrom', dtype=dt,
                     variances=(v * rng.uniform(0.01, 0.1, size=v.shape)).astype(dt) ** 2 if variances else None)
    else:
        sizes = rng.integers(0, 6, size=npix)
        sizes[int(rng.integers(0, npix))] = int(rng.integers(1, 6))
        v = rng.uniform(0.5, 50.0, size=int(sizes.sum())).astype(dt)
        w = ops.make_binned(v, sizes, ['det'], (npix,), 'angstrom', dtype=dt)
        if variances:
            c = w.bins.constituents
            data = sc.array(dims=['event'], values=v, variances=(0.05 * v) ** 2, unit='angstrom', dtype=dt)
            w = sc.bins(begin=c['begin'], end=c['end'], dim='event', data=data)
    return cfg, {'incident_beam': sc.vector(cfg['b1'], unit='m'),
                 'scattered_beam': sc.vectors(dims=['det'], values=det, unit='m'),
                 'wavelength': w, 'gravity': sc.vector(cfg['ghat'] * cfg['gmag'], unit='m/s^2')}


def variances_case(rng, ctx, K, mon, v):
    """A wavelength that carries variances (dense, and on the events of a binned wavelength), both code paths and
    the reflectometry variant. The unchanged tree refuses (scipp's VariancesError from atan2): counted. A result,
    if one is returned, has its values judged by the ordinary monitors."""
    kind = LAYOUT_KINDS[v % 2]
    path = LAYOUT_PATHS[v // 2 % 2]
    tilt = 0.0 if path == 'horizontal beam' else [1e-7, 1e-3, 1e-1][int(rng.integers(0, 3))]
    cfg, args = small_args(rng, ctx, tilt, kind, f32=bool(v // 4 % 2), variances=True)
    mon.meta = {'family': 'variances', 'tilt': float(tilt), 'gmag': cfg['gmag'], 'wavelength_kind': kind}
    mon.path = None
    for fn in (K.scattering_angles_with_gravity, K.scattering_angle_in_yz_plane):
        try:
            call(fn, args, mon, convention_of(v))
        except Exception:  # noqa: BLE001  judged by the monitors
            pass
    mon.meta = {}
    ctx.hit(f'variances: {kind} wavelength with variances, {path}')
    return ('variances', kind, path)


def _fp_args(args):
    from rv.snap import fp
    return {k: fp(v) for k, v in args.items()}


def _fp_result(r):
    from rv.snap import fp
    return fp({k: r[k] for k in sorted(r)}) if isinstance(r, dict) else fp(r)


REUSE_MODES = ('the same objects passed a second time', 'deep copies of the objects after repr / str / == / copy',
               'the same objects after a refused call')


def reuse_case(rng, ctx, K, mon, v):
    """Second use. The kernels are functions of their arguments: (i) the same four objects passed again, (ii) their
    deep copies -- after repr(), str(), ==, copy.copy() of arguments and result -- (iii) the same objects after a
    call that was refused (reflectometry variant with a tilted beam / frame with a beam parallel to gravity, then
    the valid beam) give the bit-identical result, every call judged by the ordinary monitors; no call may change
    an argument (the monitors read the arguments when the call returns)."""
    import copy

    mode = REUSE_MODES[v % 3]
    kind = LAYOUT_KINDS[v // 3 % 2]
    path = LAYOUT_PATHS[v // 6 % 2]
    tilt = 0.0 if path == 'horizontal beam' else [1e-7, 1e-3, 1e-1][int(rng.integers(0, 3))]
    cfg, args = small_args(rng, ctx, tilt, kind, f32=bool(v // 12 % 2))
    cls = f'{mode}, {kind} wavelength, {path}'
    fns = [('scattering_angles_with_gravity', K.scattering_angles_with_gravity)]
    if tilt == 0:
        fns.append(('scattering_angle_in_yz_plane', K.scattering_angle_in_yz_plane))
    for fname, fn in fns:
        mon.meta = {'family': 'reuse', 'tilt': float(tilt), 'gmag': cfg['gmag'], 'class': cls}
        mon.path = None
        case = {'function': fname, **mon.meta, 'args': {k: describe(a) for k, a in args.items()}}
        before = _fp_args(args)
        try:
            first = fn(**args)
            ref = _fp_result(first)
        except Exception:  # noqa: BLE001  the monitor has reported it
            continue
        second_args = args
        if mode == REUSE_MODES[1]:
            for o in (*args.values(), *(first.values() if isinstance(first, dict) else [first])):
                for look in (repr, str, copy.copy, lambda o: o == o, lambda o: f'{o}', sc.Variable._repr_html_):
                    try:
                        look(o)
                    except Exception:  # noqa: BLE001  (scipp's own display / comparison: not judged)
                        pass
            second_args = copy.deepcopy(args)
        elif mode == REUSE_MODES[2]:
            up = -np.asarray(cfg['ghat'], dtype=np.float64)
            bad = dict(args, incident_beam=sc.vector(np.asarray(cfg['b1']) + 0.3 * cfg['L1'] * up, unit='m'))
            par = dict(args, incident_beam=sc.vector(cfg['L1'] * up, unit='m'))
            keep, keep_path = mon.meta, mon.path
            # (a beam parallel to gravity is outside the quantifier of the two kernels: only the frame gets it)
            for f2, a2, m2 in ((K.scattering_angle_in_yz_plane, bad, {'tilt': 0.29}),
                               (K.beam_aligned_unit_vectors,
                                {k: par[k] for k in ('incident_beam', 'gravity')}, {'parallel_to_gravity': True})):
                mon.meta = dict(keep, **m2)
                try:
                    f2(**a2)
                except Exception:  # noqa: BLE001  judged by the monitors (refusals expected)
                    pass
            mon.meta, mon.path = keep, keep_path
        mon.path = None
        try:
            second = call(fn, second_args, mon, convention_of(3 * v + 1))
            again = _fp_result(second)
        except Exception:  # noqa: BLE001
            continue
        ctx.event('reuse.' + fname)
        if again != ref:
            ctx.violation('second_use', f'{fname}: {mode}: the second result differs from the first', case,
                          function=fname, mode=mode)
        changed = [k for k, h in _fp_args(args).items() if h != before[k]]
        if changed:
            ctx.violation('input_modified', f'{fname} changed its argument(s) {changed}', case, function=fname)
    mon.meta = {}
    ctx.hit('reuse: ' + cls)
    return ('reuse', mode, kind, path)


# --------------------------------------------------- kernels as graph nodes ---
GRAPH_FORMS = ('kernel as the only node', 'documented graph: beamline(scatter=True) + elastic_Q("tof") with the '
               'two_theta node replaced')
GRAPH_FUNCS = ('scattering_angles_with_gravity', 'scattering_angle_in_yz_plane')
GRAPH_MASKS = ('no masks', 'per-pixel mask', 'mask over both dims / on the bins', 'mask on the events')


def graph_classes():
    return [f'{form}, {fn}, {kind} data, {path}' for form in GRAPH_FORMS for fn in GRAPH_FUNCS
            for kind in ('dense', 'binned') for path in LAYOUT_PATHS]


def _same_coord(have, ref):
    """Same unit, dtype, shape, values (bins), in the same order of dims -- transform_coords may have renamed
    the dims (its documented handling of dimension-coordinates)."""
    if have.ndim != ref.ndim or have.shape != ref.shape:
        return False
    if have.dims != ref.dims:
        tmp = {d: f'_rv_{i}' for i, d in enumerate(have.dims)}
        have = have.rename_dims(tmp).rename_dims({tmp[d]: r for d, r in zip(have.dims, ref.dims, strict=True)})
    return sc.identical(have, ref, equal_nan=True)


def graph_case(rng, ctx, K, mon, form, fname, kind, path, v):
    """The kernels used as nodes of a coordinate-transformation graph (user guide, 'Gravity correction'):
    ``da.transform_coords(...)`` looks every parameter of a node up as a coordinate of ``da`` (an event coordinate for
    binned data). The kernel call made by scipp is judged by the ordinary monitors; here: transform_coords
    must call the kernel and must not fail for a reason other than the kernel's own documented refusal; the
    requested coordinates of the output are the values the kernel returned; masks of the input are kept."""
    from scippneutron.conversion import graph as G

    tilt = 0.0 if path == 'horizontal beam' else [1e-3, 1e-2, 1e-1, 1.0][int(rng.integers(0, 4))]
    cfg = make_config(rng, ctx, tilt=tilt, gmag=[1.0, 9.80665, 100.0][int(rng.integers(0, 3))])
    npix, ntof = int(rng.integers(2, 7)), int(rng.integers(2, 6))
    det = detectors(rng, npix)
    g = sc.vector(cfg['ghat'] * cfg['gmag'], unit='m/s^2')
    masks = GRAPH_MASKS[v % len(GRAPH_MASKS)]
    if masks == 'mask on the events' and kind == 'dense':
        masks = 'per-pixel mask'
    documented = form != GRAPH_FORMS[0]
    coords = {'gravity': g}
    if documented:
        sample = rng.normal(size=3)
        coords.update(source_position=sc.vector(sample - cfg['b1'], unit='m'),
                      sample_position=sc.vector(sample, unit='m'),
                      position=sc.vectors(dims=['det'], values=sample[None, :] + det, unit='m'))
        wname, wunit = 'tof', 'us'
        ltot = float(np.linalg.norm(cfg['b1'])) + np.linalg.norm(det, axis=1)  # per pixel, m

        def wvals(n, pix):  # time of flight [us] of wavelengths 0.5..50 angstrom over the straight flight path
            return rng.uniform(0.5, 50.0, size=n) * ltot[pix] * (1e6 / 3956.034)
    else:
        coords.update(incident_beam=sc.vector(cfg['b1'], unit='m'),
                      scattered_beam=sc.vectors(dims=['det'], values=det, unit='m'))
        wname, wunit = 'wavelength', 'angstrom'

        def wvals(n, pix):
            return rng.uniform(0.5, 50.0, size=n)
    pixmask = sc.array(dims=['det'], values=rng.random(npix) < 0.4)
    if kind == 'dense':
        coords[wname] = sc.array(dims=['det', 'tof'], values=wvals(npix * ntof, np.repeat(np.arange(npix), ntof)).reshape(npix, ntof),
                                 unit=wunit)
        da = sc.DataArray(sc.array(dims=['det', 'tof'], values=rng.uniform(0, 9, size=(npix, ntof)), unit='counts'),
                          coords=coords)
        if masks == 'per-pixel mask':
            da.masks['pix'] = pixmask
        elif masks != 'no masks':
            da.masks['both'] = sc.array(dims=['det', 'tof'], values=rng.random((npix, ntof)) < 0.4)
    else:
        sizes = rng.integers(0, 6, size=npix)
        sizes[int(rng.integers(0, npix))] = int(rng.integers(1, 6))
        n = int(sizes.sum())
        ev = sc.DataArray(sc.array(dims=['event'], values=rng.uniform(0, 2, size=n), unit='counts'),
                          coords={wname: sc.array(dims=['event'], values=wvals(n, np.repeat(np.arange(npix), sizes)), unit=wunit)})
        if masks == 'mask on the events':
            ev.masks['evmask'] = sc.array(dims=['event'], values=rng.random(n) < 0.4)
        end = np.cumsum(sizes)
        da = sc.DataArray(sc.bins(begin=sc.array(dims=['det'], values=end - sizes, unit=None, dtype='int64'),
                                  end=sc.array(dims=['det'], values=end, unit=None, dtype='int64'),
                                  dim='event', data=ev), coords=coords)
        if masks not in ('no masks', 'mask on the events'):
            da.masks['pix'] = pixmask
    fn = getattr(K, fname)
    if fname == GRAPH_FUNCS[0]:
        outs, key = ['two_theta', 'phi'], ('two_theta', 'phi')
    else:
        outs, key = ['theta'], 'theta'
    if documented:
        graph = {**G.beamline.beamline(scatter=True), **G.tof.elastic_Q('tof')}
        del graph['two_theta']
        graph[key] = fn
    else:
        graph = {key: fn}
    options = [{}, {'rename_dims': False}, {'keep_inputs': False}, {'keep_intermediate': False, 'keep_aliases': False}]
    opt = options[(v // len(GRAPH_MASKS)) % len(options)]
    cls = f'{form}, {fname}, {kind} data, {path}'
    mon.meta = {'family': 'graph', 'tilt': float(tilt), 'gmag': cfg['gmag'], 'class': cls, 'masks': masks,
                'options': str(opt)}
    mon.path = None
    case = {**mon.meta, 'input': describe(da)}
    keep_masks = {k: m.copy() for k, m in da.masks.items()}
    keep_evmasks = {k: m.copy() for k, m in da.bins.masks.items()} if kind == 'binned' else {}
    if not documented:
        mon.intended = {k: (da.coords[k] if k in da.coords else da.bins.coords[k]).copy() for k in DOCUMENTED_ORDER}
        mon.same = 'identical'
        mon.meta = dict(mon.meta, convention='the coordinates of the data looked up by transform_coords')
    mon.seen = []
    out = exc = None
    try:
        out = da.transform_coords(outs, graph=graph, **opt)
    except Exception as e:  # noqa: BLE001
        exc = e
    seen, mon.seen, mon.same, mon.intended = [(n, ev) for n, ev in mon.seen if n == fname], None, 'is', None
    mon.meta = {}
    ctx.event('graph.' + fname)
    ctx.hit('graph: ' + cls)
    ctx.hit('graph: ' + masks)
    sig = ('graph', form, fname, kind, path, masks, str(opt))
    called = len(seen) > 0
    refusal = fname == GRAPH_FUNCS[1] and tilt > 0
    if exc is not None:
        own = called and seen[-1][1].exc is exc
        if own and refusal and isinstance(exc, ValueError):
            ctx.event('graph.refusal of the kernel passed on')
            return sig
        if not own:  # (an exception of the kernel itself has been judged by its monitor)
            ctx.violation('graph_raised', f'transform_coords with {fname} as a graph node fails with '
                          f'{type(exc).__name__}: {str(exc)[:300]}' + ('' if called else ' (the kernel was never called)'),
                          case, function=fname, kernel_called=called, exc=type(exc).__name__)
        return sig
    if not called:
        ctx.violation('graph_output', f'transform_coords returned without calling {fname}', case, function=fname,
                      problem='kernel not called')
        return sig
    if refusal:
        return sig  # the monitor has reported yz_not_refused
    res = seen[-1][1].result
    res = res if isinstance(res, dict) else {'theta': res}
    for k in outs:
        have = out.coords[k] if k in out.coords else (out.bins.coords[k] if kind == 'binned' and k in out.bins.coords
                                                      else None)
        if have is None or not isinstance(res.get(k), sc.Variable):
            ctx.violation('graph_output', f'coordinate {k!r} is missing from the output of transform_coords', case,
                          function=fname, problem='missing coordinate')
        elif not _same_coord(have, res[k]):
            ctx.violation('graph_output', f'coordinate {k!r} of the output of transform_coords is not what {fname} '
                          'returned', case, function=fname, problem='different coordinate')
    lost = [k for k, m in keep_masks.items() if k not in out.masks or not _same_coord(out.masks[k], m)]
    if kind == 'binned':
        lost += [k for k, m in keep_evmasks.items()
                 if k not in out.bins.masks or not sc.identical(out.bins.masks[k], m)]
    if lost:
        ctx.violation('graph_output', f'masks {lost} of the input are lost or changed', case, function=fname,
                      problem='masks')
    return sig


# ------------------------------------- in-place modification / aliasing ---
INPLACE_MODES = ('wavelength values overwritten', 'unit of the wavelength changed (angstrom -> pm)',
                 'a slice of scattered_beam overwritten', 'unit of scattered_beam changed (m -> cm)',
                 'incident_beam overwritten: horizontal <-> tilted', 'gravity overwritten: reversed and rescaled')


def inplace_classes():
    return [f'{mode}, {kind} wavelength, {path}' for mode in INPLACE_MODES for kind in LAYOUT_KINDS
            for path in LAYOUT_PATHS]


def _mutate(mode, a, cfg, tilt, rng):
    """Change one operand of ``a`` in place (the objects stay the same); returns the tilt of the incident beam
    afterwards. Every change moves the angles by far more than the bound and stays inside the quantifier."""
    w = a['wavelength']
    binned = ops.is_binned(w)
    if mode == INPLACE_MODES[0]:
        data = w.bins.constituents['data'] if binned else w
        data.values[...] = 100.0 - data.values  # 0.5..50 -> 50..99.5 angstrom
    elif mode == INPLACE_MODES[1]:
        if binned:
            w.bins.unit = 'pm'
        else:
            w.unit = 'pm'
    elif mode == INPLACE_MODES[2]:
        b2 = a['scattered_beam']
        k = max(1, b2.shape[0] // 2)
        b2.values[:k] = detectors(rng, k)
    elif mode == INPLACE_MODES[3]:
        a['scattered_beam'].unit = 'cm'
    elif mode == INPLACE_MODES[4]:
        tilt = [1e-3, 1e-2, 1e-1][int(rng.integers(0, 3))] if tilt == 0 else 0.0
        up = -geom.v3(cfg['ghat'])
        a['incident_beam'].values[:] = (cfg['L1'] * (np.cos(si.LD(tilt)) * geom.v3(cfg['h'])
                                                     + np.sin(si.LD(tilt)) * up)).astype(np.float64)
    else:
        a['gravity'].values[:] = -0.37 * a['gravity'].values
    return tilt


def _overwrite(o):
    """Write into a result in place; False if scipp does not let the caller write."""
    try:
        data = o.bins.constituents['data'] if ops.is_binned(o) else o
        data.values[...] = -1.25
        return True
    except Exception:  # noqa: BLE001
        return False


def inplace_case(rng, ctx, K, mon, mode, kind, path, v):
    """(k) the same operand objects with one of them modified in place between two calls: the second call is judged
    (by the ordinary monitors, which read the arguments when the call returns) against the construction for the NEW
    contents. (l) the result obtained before the modification must not change with it; writing into a result must
    not change an argument nor another output, and the call repeated on the same arguments gives the earlier
    result again, bit for bit."""
    from rv.snap import fp

    tilt0 = 0.0 if path == 'horizontal beam' else [1e-7, 1e-3, 1e-1][int(rng.integers(0, 3))]
    cfg, args = small_args(rng, ctx, tilt0, kind, f32=(v % 3 == 2))
    cls = f'{mode}, {kind} wavelength, {path}'
    fns = [('scattering_angles_with_gravity', K.scattering_angles_with_gravity)]
    if tilt0 == 0 or mode == INPLACE_MODES[4]:
        fns.append(('scattering_angle_in_yz_plane', K.scattering_angle_in_yz_plane))
    for fname, fn in fns:
        a = {k: x.copy() for k, x in args.items()}
        state = {'tilt': tilt0}

        def go(conv='keywords'):
            mon.meta = {'family': 'inplace', 'tilt': float(state['tilt']), 'gmag': cfg['gmag'], 'class': cls}  # noqa: B023
            mon.path = None
            try:
                return call(fn, a, mon, conv)  # noqa: B023
            except Exception:  # noqa: BLE001  judged by the monitors (refusal of a tilted beam by the yz variant)
                return None

        def outs_of(r):
            return [r[k] for k in sorted(r)] if isinstance(r, dict) else [r]

        case = {'function': fname, 'family': 'inplace', 'class': cls, 'tilt': float(tilt0), 'gmag': cfg['gmag'],
                'args': {k: describe(x) for k, x in a.items()}}
        r1 = go()
        ref1 = None if r1 is None else _fp_result(r1)
        state['tilt'] = _mutate(mode, a, cfg, tilt0, rng)
        if r1 is not None:
            ctx.event('inplace.earlier result after an argument was modified: ' + fname)
            if _fp_result(r1) != ref1:
                ctx.violation('result_aliases_argument', f'{fname}: the result obtained earlier changed when the '
                              f'caller modified an argument in place ({mode})', case, function=fname)
        r2 = go(convention_of(3 * v + 1))
        ctx.event('inplace.second call with the modified objects: ' + fname)
        if r1 is not None and _fp_result(r1) != ref1:
            ctx.violation('earlier_result_changed', f'{fname}: the result of the first call changed during the second '
                          'call (same objects, one modified in place in between)', case, function=fname)
        if r2 is None:
            continue
        ref2 = _fp_result(r2)
        before = _fp_args(a)
        outs = outs_of(r2)
        rest = [fp(o) for o in outs[1:]]
        if not _overwrite(outs[0]):
            ctx.count('inplace: result not writable')
            continue
        if [fp(o) for o in outs[1:]] != rest:
            ctx.violation('result_aliases_result', f'{fname}: writing into one output changes the other', case,
                          function=fname)
        for o in outs[1:]:
            _overwrite(o)
        ctx.event('inplace.arguments after the result was overwritten: ' + fname)
        changed = [k for k, h in _fp_args(a).items() if h != before[k]]
        if changed:
            ctx.violation('argument_aliases_result', f'{fname}: writing into the result changes the argument(s) '
                          f'{changed}', case, function=fname)
            continue
        r3 = go()
        if r1 is not None and _fp_result(r1) != ref1:
            ctx.violation('earlier_result_changed', f'{fname}: the result of the first call changed during the third '
                          'call', case, function=fname)
        if r3 is None or _fp_result(r3) != ref2:
            ctx.violation('second_use', f'{fname}: after the caller overwrote the result in place, the same call '
                          'does not give the earlier result again', case, function=fname,
                          mode='after the result was overwritten in place')
    mon.meta = {}
    ctx.hit('inplace: ' + cls)
    return ('inplace', mode, kind, path)


# ------------------------------------- first call in a fresh interpreter ---
# Source shared by the worker and the fresh interpreter: operands are rebuilt from a JSON document (hexadecimal
# floats) by the same code in both processes; results come back the same way. Uses numpy and scipp only.
FRESH_SHARED = r'''
def build(s):
    if s['k'] == 'binned':
        def ix(x):
            return sc.array(dims=s['dims'], values=np.array(x, dtype='int64').reshape(s['shape']), unit=None,
                            dtype='int64')
        return sc.bins(begin=ix(s['begin']), end=ix(s['end']), dim=s['dim'], data=build(s['data']))
    vals = np.array([float.fromhex(x) for x in s['values']], dtype='float64')
    if s['k'] == 'vector3':
        vals = vals.reshape([*s['shape'], 3])
        return sc.vectors(dims=s['dims'], values=vals, unit=s['unit']) if s['dims'] else sc.vector(vals, unit=s['unit'])
    vals = vals.astype(s['dtype']).reshape(s['shape'])
    return sc.array(dims=s['dims'], values=vals, unit=s['unit'], dtype=s['dtype'])


def dump(v):
    if v.bins is not None:
        c = v.bins.constituents
        return {'k': 'binned', 'dims': list(v.dims), 'shape': list(v.shape), 'dim': c['dim'],
                'begin': [int(x) for x in np.ravel(c['begin'].values)],
                'end': [int(x) for x in np.ravel(c['end'].values)], 'data': dump(c['data'])}
    return {'k': 'vector3' if v.dtype == sc.DType.vector3 else 'array', 'dims': list(v.dims), 'shape': list(v.shape),
            'unit': str(v.unit), 'dtype': str(v.dtype), 'values': [float(x).hex() for x in np.ravel(v.values)]}


def invoke(K, c, args):
    fn = getattr(K, c['fn'])
    if c['how'] == 'positional':
        return fn(*[args[k] for k in c['order']])
    if c['how'] == 'graph node':
        da = sc.DataArray(sc.zeros(sizes=args['wavelength'].sizes), coords=args)
        outs = c['outs']
        out = da.transform_coords(outs, graph={(tuple(outs) if len(outs) > 1 else outs[0]): fn}, rename_dims=False)
        return {k: out.coords[k] for k in outs} if len(outs) > 1 else out.coords[outs[0]]
    return fn(**args)
'''
FRESH_MAIN = r'''
import json, sys
import numpy as np
import scipp as sc
out = {'argv_flags': sys.flags.optimize}
try:
%(imports)s
except BaseException as e:
    out['import_exc'] = [type(e).__name__, str(e)[:300]]
    json.dump(out, sys.stdout)
    sys.exit(0)
out['file'] = sys.modules['scippneutron'].__file__
out['modules'] = sorted(m for m in sys.modules if m.startswith('scippneutron'))
job = json.load(sys.stdin)
res = []
for c in job['calls']:
    try:
        args = {k: build(s) for k, s in c['args'].items()}
    except BaseException as e:
        res.append({'harness': repr(e)[:300]})
        continue
    try:
        r = invoke(K, c, args)
    except Exception as e:
        res.append({'exc': type(e).__name__, 'value_error': isinstance(e, ValueError), 'msg': str(e)[:300]})
        continue
    try:
        res.append({'ok': {k: dump(v) for k, v in r.items()} if isinstance(r, dict) else dump(r),
                    'dict': isinstance(r, dict)})
    except BaseException as e:
        res.append({'undumpable': repr(e)[:300], 'type': type(r).__name__})
out['results'] = res
json.dump(out, sys.stdout)
'''
_FRESH_FUNCS = ('scattering_angles_with_gravity', 'scattering_angle_in_yz_plane', 'beam_aligned_unit_vectors')
# the ways a program gets hold of the entry points, importing nothing else of the package
FRESH_IMPORTS = (
    ('from scippneutron.conversion import beamline', 'from scippneutron.conversion import beamline as K'),
    ('import scippneutron.conversion.beamline', 'import scippneutron.conversion.beamline as K'),
    ('from scippneutron.conversion.beamline import <the functions>',
     'from scippneutron.conversion.beamline import ' + ', '.join(_FRESH_FUNCS) + '\nimport types\n'
     'K = types.SimpleNamespace(' + ', '.join(f'{f}={f}' for f in _FRESH_FUNCS) + ')'),
    ('import scippneutron; scippneutron.conversion.beamline (lazy attributes)',
     'import scippneutron\nK = scippneutron.conversion.beamline'),
)
# what the fresh interpreter does FIRST: function, incident beam, wavelength, how it is called
FRESH_FIRST = [
    ('scattering_angles_with_gravity', 'horizontal beam', 'dense', 'keywords'),
    ('scattering_angles_with_gravity', 'tilted beam', 'dense', 'keywords'),
    ('scattering_angles_with_gravity', 'horizontal beam', 'binned', 'keywords'),
    ('scattering_angles_with_gravity', 'tilted beam', 'binned', 'positional'),
    ('scattering_angles_with_gravity', 'horizontal beam', 'dense float32', 'positional'),
    ('scattering_angles_with_gravity', 'horizontal beam', 'dense', 'graph node'),
    ('scattering_angles_with_gravity', 'tilted beam', 'dense', 'graph node'),
    ('scattering_angle_in_yz_plane', 'horizontal beam', 'dense', 'keywords'),
    ('scattering_angle_in_yz_plane', 'horizontal beam', 'binned', 'positional'),
    ('scattering_angle_in_yz_plane', 'horizontal beam', 'dense', 'graph node'),
    ('scattering_angle_in_yz_plane', 'tilted beam (refused)', 'dense', 'keywords'),
    ('beam_aligned_unit_vectors', 'tilted beam', 'none', 'keywords'),
    ('beam_aligned_unit_vectors', 'beam parallel to gravity (refused)', 'none', 'keywords'),
]
# ... and afterwards, in the same interpreter: both gravity entry points on a horizontal and on a tilted beam
FRESH_TAIL = [
    ('scattering_angles_with_gravity', 'horizontal beam', 'dense', 'keywords'),
    ('scattering_angles_with_gravity', 'tilted beam', 'binned', 'keywords'),
    ('scattering_angle_in_yz_plane', 'horizontal beam', 'binned', 'keywords'),
    ('scattering_angle_in_yz_plane', 'tilted beam (refused)', 'dense', 'positional'),
    ('scattering_angles_with_gravity', 'tilted beam', 'dense float32', 'positional'),
    ('beam_aligned_unit_vectors', 'tilted beam', 'none', 'keywords'),
]
_FRESH_NS = None


def fresh_label(c):
    return f'{c[0]}, {c[1]}, {c[2]} wavelength, {c[3]}' if c[2] != 'none' else f'{c[0]}, {c[1]}'


def fresh_ns():
    global _FRESH_NS
    if _FRESH_NS is None:
        ns = {'np': np, 'sc': sc}
        exec(compile(FRESH_SHARED, '<C04 fresh-interpreter helpers>', 'exec'), ns)  # noqa: S102  (own source)
        _FRESH_NS = ns
    return _FRESH_NS


class _Observed:
    """A return observed in another process, presented to the monitors like a traced return."""
    depth, pre = 0, None

    def __init__(self, args, result, exc):
        self.args, self.result, self.exc = args, result, exc


def _exc_like(d):
    import builtins

    t = getattr(builtins, d['exc'], None) or getattr(sc, d['exc'], None)
    if not (isinstance(t, type) and issubclass(t, Exception)):
        t = type(d['exc'], (ValueError if d.get('value_error') else Exception,), {})
    try:
        return t(d['msg'])
    except Exception:  # noqa: BLE001
        return type(d['exc'], (Exception,), {})(d['msg'])


def _fresh_call(rng, ctx, c):
    """(job entry, meta) of one call of the fresh-interpreter job."""
    fname, beam, wkind, how = c
    ns = fresh_ns()
    f32 = wkind.endswith('float32')
    kind = wkind.split()[0]
    parallel = 'parallel' in beam
    tilt = 0.0 if beam == 'horizontal beam' else [1e-3, 1e-2, 1e-1, 1.0][int(rng.integers(0, 4))]
    cfg, args = small_args(rng, ctx, tilt, 'dense' if kind == 'none' else kind, f32=f32)
    meta = {'family': 'fresh', 'tilt': float(tilt), 'gmag': cfg['gmag'], 'class': fresh_label(c)}
    outs = None
    if fname == 'beam_aligned_unit_vectors':
        args = {k: args[k] for k in ('incident_beam', 'gravity')}
        meta['parallel_to_gravity'] = parallel
        if parallel:
            sgn = 1.0 if rng.random() < 0.5 else -1.0
            args['incident_beam'] = sc.vector(sgn * cfg['L1'] * np.asarray(cfg['ghat'], dtype=np.float64), unit='m')
        order = ['incident_beam', 'gravity']
    else:
        order = list(DOCUMENTED_ORDER)
        outs = ['two_theta', 'phi'] if fname == _FRESH_FUNCS[0] else ['theta']
    job = {'fn': fname, 'how': how, 'order': order, 'outs': outs, 'args': {k: ns['dump'](v) for k, v in args.items()}}
    return job, meta, args


def _rebuild_result(d):
    ns = fresh_ns()
    return {k: ns['build'](s) for k, s in d['ok'].items()} if d['dict'] else ns['build'](d['ok'])


def fresh_case(rng, ctx, K, mon, first, form):
    """(o) The first call in a fresh interpreter that imports numpy, scipp and ONLY the module of the entry points
    (in one of the ways a program can import it), not scipp.constants, no other module of the package, not this
    harness: what it returns / raises is judged by the ordinary monitors against the construction, exactly like a
    return observed in the worker, and must be the same (bit for bit; the same exception type) as what the worker
    gets for the same operands. After the first call the same interpreter evaluates both gravity entry points on a
    horizontal and on a tilted beam."""
    import json
    import os
    import subprocess
    import sys

    ns = fresh_ns()
    calls = [first, *FRESH_TAIL]
    jobs = [_fresh_call(rng, ctx, c) for c in calls]
    label, imports = FRESH_IMPORTS[form]
    script = FRESH_SHARED + FRESH_MAIN % {'imports': '\n'.join('    ' + ln for ln in imports.splitlines())}
    src = os.environ.get('RV_REPO_SRC', '/repo/src')
    env = dict(os.environ, PYTHONPATH=src, PYTHONDONTWRITEBYTECODE='1')
    cmd = [sys.executable, '-P', *(['-OO'] if sys.flags.optimize >= 2 else []), '-c', script]
    sig = ('fresh', fresh_label(first), label)
    try:
        proc = subprocess.Popen(cmd, stdin=subprocess.PIPE, stdout=subprocess.PIPE, stderr=subprocess.PIPE,
                                env=env, cwd=src, text=True)
    except OSError:
        ctx.oracle_error('fresh interpreter: start')
        return sig
    # the worker evaluates the same operands (rebuilt from the same document) while the other interpreter runs
    here = []
    for job, meta, args in jobs:
        try:
            a = {k: ns['build'](s) for k, s in job['args'].items()}
            if not all(sc.identical(a[k], args[k], equal_nan=True) for k in args):
                raise ValueError('operands do not survive the document')
        except Exception:  # noqa: BLE001
            ctx.oracle_error('fresh interpreter: operands')
            here.append(None)
            continue
        mon.meta = dict(meta, process='worker', **{'class': meta['class'] + ' [worker]'})
        mon.path = None
        try:
            here.append((a, ns['invoke'](K, job, a), None))
        except Exception as e:  # noqa: BLE001  judged by the monitors
            here.append((a, None, e))
    mon.meta = {}
    try:
        stdout, stderr = proc.communicate(json.dumps({'calls': [j for j, _, _ in jobs]}), timeout=300)
    except subprocess.TimeoutExpired:
        proc.kill()
        proc.communicate()
        ctx.inconclusive_because('the fresh interpreter did not finish within the watchdog')
        return sig
    try:
        out = json.loads(stdout)
    except ValueError:
        out = None
    case0 = {'family': 'fresh', 'import': label, 'first call': fresh_label(first)}
    if out is None:
        # the interpreter died without a report: nothing was observed
        ctx.inconclusive_because('the fresh interpreter gave no report (exit status '
                                 f'{proc.returncode}): {stderr[-300:]!r}')
        return sig
    ctx.event('fresh.interpreter reported')
    if 'import_exc' in out:
        ctx.violation('fresh_process', f'in a fresh interpreter `{label}` fails with {out["import_exc"][0]}: '
                      f'{out["import_exc"][1]}', case0, function='import', problem='import failed')
        return sig
    if os.path.realpath(os.path.dirname(os.path.dirname(out['file']))) != os.path.realpath(src):
        ctx.inconclusive_because('the fresh interpreter imported scippneutron from ' + out['file'])
        return sig
    handlers = dict(zip(_FRESH_FUNCS, (mon.angles, mon.yz, mon.frame), strict=True))
    for i, ((job, meta, _), mine, d) in enumerate(zip(jobs, here, out.get('results', []), strict=False)):
        fname = job['fn']
        if mine is None or 'harness' in d or 'undumpable' in d:
            ctx.oracle_error('fresh interpreter: transport')
            continue
        a, r_here, e_here = mine
        try:
            r_there = _rebuild_result(d) if 'ok' in d else None
            e_there = _exc_like(d) if 'exc' in d else None
        except Exception:  # noqa: BLE001
            ctx.oracle_error('fresh interpreter: result')
            continue
        which = 'first call' if i == 0 else 'later call'
        mon.meta = dict(meta, process='fresh interpreter', imported=label,
                        **{'class': meta['class'] + f' [fresh interpreter, {which}]'})
        mon.path = 'fresh interpreter'
        before = ctx.n_violations
        handlers[fname](_Observed(a, r_there, e_there))
        mon.meta, mon.path = {}, None
        ctx.event('fresh.' + which + ' judged')
        case = dict(case0, function=fname, call=fresh_label(calls[i]), position=which,
                    args={k: describe(v) for k, v in a.items()})
        if (e_here is None) != (e_there is None):
            if ctx.n_violations == before or e_there is None:
                who, exc = ('fresh interpreter', d) if e_there is not None else \
                    ('worker', {'exc': type(e_here).__name__, 'msg': str(e_here)[:300]})
                ctx.violation('fresh_process', f'{fname} ({which}, `{label}`) raises {exc["exc"]}: {exc["msg"]} in the '
                              f'{who} only', case, function=fname, problem='raised in one process only')
        elif e_here is not None:
            if type(e_here).__name__ != d['exc']:
                ctx.violation('fresh_process', f'{fname} ({which}): {d["exc"]} in the fresh interpreter, '
                              f'{type(e_here).__name__} in the worker', case, function=fname,
                              problem='different exception')
        else:
            pairs = [(r_here[k], r_there.get(k)) for k in r_here] if isinstance(r_here, dict) and \
                isinstance(r_there, dict) else [(r_here, r_there)]
            same = all(isinstance(y, sc.Variable) and isinstance(x, sc.Variable) and sc.identical(x, y, equal_nan=True)
                       for x, y in pairs)
            if not same:
                ctx.violation('fresh_process', f'{fname} ({which}, `{label}`): the result in the fresh interpreter '
                              'is not the result the worker gets for the same operands', case, function=fname,
                              problem='different result')
    if len(out.get('results', [])) != len(jobs):
        ctx.oracle_error('fresh interpreter: number of results')
    ctx.hit('fresh: first call = ' + fresh_label(first))
    ctx.hit('fresh: ' + label)
    return sig


# ----------------------------------------------------------- heavy sizes ---
# name, scattered_beam dims, wavelength dims, sizes, wavelength kind, incident beam per element of
HEAVY_CASES = [
    ('wavelength[det, tof] 2100 x 2048 (> 2^22), scattered_beam[det]: leading dim shared',
     ['det'], ['det', 'tof'], {'det': 2100, 'tof': 2048}, 'dense', None),
    ('wavelength[tof, det] 2048 x 2100 (> 2^22), scattered_beam[det]: leading dim not shared',
     ['det'], ['tof', 'det'], {'det': 2100, 'tof': 2048}, 'dense', None),
    ('wavelength[wavelength] 2048 x scattered_beam[det] 2100 (> 2^22): disjoint dims',
     ['det'], ['wavelength'], {'det': 2100, 'wavelength': 2048}, 'dense', None),
    ('wavelength[det, tof] 2100 x 2048, scattered_beam[det], incident_beam[det]: leading dim shared with both beams',
     ['det'], ['det', 'tof'], {'det': 2100, 'tof': 2048}, 'dense', 'det'),
    ('wavelength[det] and scattered_beam[det], 2^20 + 7 pixels', ['det'], ['det'], {'det': (1 << 20) + 7}, 'dense', None),
    ('wavelength[tof, det] 3 x 400001, scattered_beam[det]', ['det'], ['tof', 'det'], {'det': 400001, 'tof': 3},
     'dense', None),
    ('wavelength[det, tof] 400001 x 3, scattered_beam[det]', ['det'], ['det', 'tof'], {'det': 400001, 'tof': 3},
     'dense', None),
    ('binned wavelength[det] 2100 pixels with > 2^22 events, scattered_beam[det]',
     ['det'], ['det'], {'det': 2100}, 'binned', None),
    ('float32 wavelength[det, tof] 2100 x 2048, scattered_beam[det]',
     ['det'], ['det', 'tof'], {'det': 2100, 'tof': 2048}, 'dense f32', None),
]
# thorough only: sizes at and next to powers of two, several times 2^22, a leading dim that no number of pieces divides
HEAVY_CASES_THOROUGH = [
    (f'wavelength[det, tof] {a} x {b}, scattered_beam[det]', ['det'], ['det', 'tof'], {'det': a, 'tof': b}, 'dense', None)
    for a, b in ((1024, 1024), (1025, 1024), (2048, 2048), (2049, 2048), (2047, 2049), (4099, 2048), (8192, 1024),
                 (6151, 2048), (3, 1 << 21), (2, (1 << 22) + 1))
] + [
    (f'wavelength[tof, det] {b} x {a}, scattered_beam[det], incident_beam[det]', ['det'], ['tof', 'det'],
     {'det': a, 'tof': b}, 'dense', 'det') for a, b in ((2100, 2048), (4099, 1031))
] + [
    ('binned wavelength[det, tof] 300 x 7 bins with > 2^22 events, scattered_beam[det]',
     ['det'], ['det', 'tof'], {'det': 300, 'tof': 7}, 'binned', None),
]
HEAVY_SHARDS = 3


def heavy_case(rng, ctx, K, mon, hc, path):
    name, bdims, wdims, sizes, kind, per = hc
    tilt = 0.0 if path == 'horizontal beam' else [1e-7, 1e-3, 1e-2, 1e-1][int(rng.integers(0, 4))]
    cfg = make_config(rng, ctx, tilt=tilt, gmag=[1.0, 9.80665, 100.0][int(rng.integers(0, 3))])
    dt = 'float32' if kind.endswith('f32') else 'float64'
    kind = kind.split()[0]
    bshape = [sizes[d] for d in bdims]
    nb = int(np.prod(bshape, dtype=int))
    det = geom.random_unit(rng, nb) * rng.uniform(0.5, 30.0, size=(nb, 1))
    b2 = sc.vectors(dims=bdims, values=det.reshape([*bshape, 3]), unit='m')
    wshape = tuple(sizes[d] for d in wdims)
    if kind == 'dense':
        w = sc.array(dims=wdims, values=rng.uniform(1e-3, 100.0, size=wshape).astype(dt), unit='angstrom', dtype=dt)
    else:
        nbin = int(np.prod(wshape, dtype=int))
        mean = ((1 << 22) + (1 << 17)) // nbin
        bs = rng.integers(mean - mean // 10, mean + mean // 10, size=nbin)
        bs[rng.integers(0, nbin, size=3)] = 0
        bs[-1] += max(0, (1 << 22) + 1 - int(bs.sum()))
        w = ops.make_binned(rng.uniform(0.0, 100.0, size=int(bs.sum())), bs, wdims, wshape, 'angstrom')
    if per is None:
        b1 = sc.vector(cfg['b1'], unit='m')
    else:
        n1 = sizes[per]
        tl = np.where(rng.random(n1) < 0.5, 0.0, tilt).astype(si.LD)
        L1 = rng.uniform(1.0, 50.0, size=n1).astype(si.LD)
        b1s = L1[:, None] * (np.cos(tl)[:, None] * geom.v3(cfg['h'])[None, :]
                             + np.sin(tl)[:, None] * (-geom.v3(cfg['ghat']))[None, :])
        b1 = sc.vectors(dims=[per], values=b1s.astype(np.float64), unit='m')
    args = {'incident_beam': b1, 'scattered_beam': b2, 'wavelength': w,
            'gravity': sc.vector(cfg['ghat'] * cfg['gmag'], unit='m/s^2')}
    cls = f'{name}, {path}'
    mon.meta = {'family': 'heavy', 'tilt': float(tilt), 'gmag': cfg['gmag'], 'class': cls}
    mon.path = None
    try:
        call(K.scattering_angles_with_gravity, args, mon, 'keywords')
    except Exception:  # noqa: BLE001 judged through PY_UNWIND
        pass
    if tilt == 0:
        try:
            call(K.scattering_angle_in_yz_plane, args, mon, 'keywords')
        except Exception:  # noqa: BLE001
            pass
    mon.meta = {}
    ctx.hit('heavy: ' + cls)
    return ('heavy', name, path)


# ---------------------------------------------------------------- driver ---
N_ORDINARY = 13  # + HEAVY_SHARDS heavy shards = 16 planned shards (the runner adds two environment variants of shard 0)


def heavy_pairs(tier, seed, slot):
    """(heavy case, path) pairs of one heavy shard: every heavy case on both code paths in every run (thorough: also
    the sizes next to powers of two), dealt out over the heavy shards."""
    cases = HEAVY_CASES if tier == 'quick' else HEAVY_CASES + HEAVY_CASES_THOROUGH
    pairs = [(hc, p) for hc in cases for p in LAYOUT_PATHS[::-1]]
    return pairs[slot::HEAVY_SHARDS]


def plan(tier, seed):
    quick = tier == 'quick'
    ordinary = [{'kind': 'ordinary', 'cases': 360 if quick else 24000, 'sweeps': 18 if quick else 960,
                 'layout_reps': 1 if quick else 48, 'fresh': 1 if quick else 6} for _ in range(N_ORDINARY)]
    return ordinary + [{'kind': 'heavy', 'slot': k} for k in range(HEAVY_SHARDS)]


def requirements(tier):
    gclasses = [f'{g:g}' for g in GMAGS] + ['band ' + b[0] for b in GBANDS]
    fns = ('scattering_angles_with_gravity', 'scattering_angle_in_yz_plane', 'beam_aligned_unit_vectors')
    n = N_ORDINARY
    events = {'scattering_angles_with_gravity': 200, 'path.generic': 50, 'path.orthogonal': 30,
              'scattering_angle_in_yz_plane': 10, 'yz.refused': 10,
              'beam_aligned_unit_vectors': 100, 'frame.refused': 5, 'binding.scattering_angles_with_gravity': 20,
              'binding.scattering_angle_in_yz_plane': 10, 'continuity': 50, 'limit': 10,
              'screen.scattering_angles_with_gravity': 4 * len(HEAVY_CASES),
              'screen.scattering_angle_in_yz_plane': len(HEAVY_CASES),
              'graph.refusal of the kernel passed on': n, 'reuse.scattering_angles_with_gravity': n,
              'reuse.scattering_angle_in_yz_plane': n}
    for fn in fns:
        events['judged.|g| below 1e-12 in its unit: ' + fn] = n
        events['judged.|g| below 1e-12 in its unit, horizontal beam: ' + fn] = n
    for fn in fns[:2]:
        events['variances.refused: ' + fn] = n
        events['graph.' + fn] = n
        events['inplace.second call with the modified objects: ' + fn] = n
        events['inplace.earlier result after an argument was modified: ' + fn] = n
        events['inplace.arguments after the result was overwritten: ' + fn] = n
    events.update({'fresh.interpreter reported': n, 'fresh.first call judged': n,
                   'fresh.later call judged': n * len(FRESH_TAIL)})
    for cls in inplace_classes():
        events[f'judged.inplace: {cls}, scattering_angles_with_gravity'] = n
    for cls in size_classes():
        events['judged.' + cls + ', scattering_angles_with_gravity'] = n
    for rel in LAYOUT_RELATIONS:
        for kind in LAYOUT_KINDS:
            events[f'judged.layout: {kind} wavelength, {rel[0]}, scattering_angles_with_gravity'] = n
            events[f'judged.layout: {kind} wavelength, {rel[0]}, scattering_angle_in_yz_plane'] = n // 2
    for cls in graph_classes():
        fn = next(f for f in GRAPH_FUNCS if f', {f}, ' in cls)
        if fn == GRAPH_FUNCS[0] or cls.endswith('horizontal beam'):
            events[f'judged.graph: {cls}, {fn}'] = n
    for hc in (HEAVY_CASES if tier == 'quick' else HEAVY_CASES + HEAVY_CASES_THOROUGH):
        for p in LAYOUT_PATHS:
            events[f'judged.heavy: {hc[0]}, {p}, scattering_angles_with_gravity'] = 1
        events[f'judged.heavy: {hc[0]}, horizontal beam, scattering_angle_in_yz_plane'] = 1
    return {
        'events': events,
        'forced': [f'tilt:{t:g}' for t in TILTS] + ['|g|:' + g for g in gclasses]
        + ['|g|:band ' + b[0] + p for b in GBANDS for p in (', horizontal beam', ', tilted beam')]
        + ['|g|:band ' + DEEP_BAND[0]] + ['|g| unit: ' + u for u in G_UNITS]
        + ['frame: |g| band ' + b[0] for b in [*GBANDS, DEEP_BAND]] + ['frame: |g| fixed magnitudes']
        + ['limit: ' + m for m in LIMIT_MODES]
        + ['detector above beam', 'per-pixel incident beams tilted up', 'per-pixel incident beams tilted down']
        + ['axis-aligned: ' + k for k in AXIS_KINDS]
        + layout_classes()
        + ['layout: binned wavelength, contiguous event buffer',
           'layout: binned wavelength, bins out of order in the event buffer, with foreign events',
           'layout: one incident beam per element of a dim of the other operands']
        + ['call: ' + c for c in CONVENTIONS]
        + ['graph: ' + c for c in graph_classes()] + ['graph: ' + m for m in GRAPH_MASKS]
        + ['dim names: dims named ' + dim_label(names) for names in [*DIM_NAME_SETS, *UNICODE_DIM_SETS]]
        + size_classes() + ['inplace: ' + c for c in inplace_classes()]
        + ['fresh: first call = ' + fresh_label(c) for c in FRESH_FIRST] + ['fresh: ' + f[0] for f in FRESH_IMPORTS]
        + [f'variances: {kind} wavelength with variances, {path}' for kind in LAYOUT_KINDS for path in LAYOUT_PATHS]
        + [f'reuse: {mode}, {kind} wavelength, {path}' for mode in REUSE_MODES for kind in LAYOUT_KINDS
           for path in LAYOUT_PATHS]
        + [f'heavy: {hc[0]}, {p}' for hc in (HEAVY_CASES if tier == 'quick' else HEAVY_CASES + HEAVY_CASES_THOROUGH)
           for p in LAYOUT_PATHS],
        'counters': {'out of judged domain: |g|^2 underflows float64': n,
                     'refused: wavelength with variances (VariancesError)': n,
                     'refused: wavelength with variances (DTypeError)': n,
                     'elements judged against the float64 construction (results beyond 2^19 elements)': 1 << 24},
    }


def run(shard, ctx):
    from scippneutron.conversion import beamline as K

    rng = np.random.Generator(np.random.PCG64([shard['seed'], shard['index'], 4]))
    mon = Monitors(ctx)
    tr = Tracer()
    tr.watch(K._scattering_angles_with_gravity_generic, 'generic', on_return=mon.mark('generic'))
    tr.watch(K._scattering_angles_with_gravity_orthogonal_coords, 'orthogonal', on_return=mon.mark('orthogonal'))
    tr.watch(K.scattering_angles_with_gravity, 'scattering_angles_with_gravity', on_return=mon.angles)
    tr.watch(K.scattering_angle_in_yz_plane, 'scattering_angle_in_yz_plane', on_return=mon.yz)
    tr.watch(K.beam_aligned_unit_vectors, 'beam_aligned_unit_vectors', on_return=mon.frame)
    if shard.get('kind') == 'heavy':
        with tr:
            for hc, path in heavy_pairs(shard['tier'], shard['seed'], shard['slot']):
                before = ctx.n_violations
                ctx.case(heavy_case(rng, ctx, K, mon, hc, path))
                if ctx.n_violations > before and len(ctx.samples) < 6:
                    ctx.sample({'family': 'heavy', 'case': hc[0], 'path': path})
        return
    with tr:
        for i in range(shard['cases']):
            before = ctx.n_violations
            sig, trivial, args = run_case(rng, ctx, K, mon, i, shard['index'])
            ctx.case(sig, trivial=trivial)
            if i < 2 or (ctx.n_violations > before and len(ctx.samples) < 6):
                ctx.sample({'signature': sig, 'args': {k: describe(v) for k, v in args.items()}})
        v = shard['index']
        for _rep in range(shard['layout_reps']):
            for rel in LAYOUT_RELATIONS:
                for kind in LAYOUT_KINDS:
                    for path in LAYOUT_PATHS:
                        before = ctx.n_violations
                        ctx.case(layout_case(rng, ctx, K, mon, rel, kind, path, v))
                        v += 1
                        if ctx.n_violations > before and len(ctx.samples) < 8:
                            ctx.sample({'family': 'layout', 'relation': rel[0], 'wavelength': kind, 'path': path})
            # kernels as graph nodes, caller dims named like internal names, variances, second use
            for form in GRAPH_FORMS:
                for fname in GRAPH_FUNCS:
                    for kind in LAYOUT_KINDS:
                        for path in LAYOUT_PATHS:
                            before = ctx.n_violations
                            ctx.case(graph_case(rng, ctx, K, mon, form, fname, kind, path, v))
                            v += 1
                            if ctx.n_violations > before and len(ctx.samples) < 10:
                                ctx.sample({'family': 'graph', 'form': form, 'function': fname, 'data': kind,
                                            'path': path})
            overlapping = next(r for r in LAYOUT_RELATIONS if r[0] == 'overlapping')
            for names in DIM_NAME_SETS:
                for kind in LAYOUT_KINDS:
                    for path in LAYOUT_PATHS:
                        ctx.case(layout_case(rng, ctx, K, mon, overlapping, kind, path, v, rename=names))
                        v += 1
            for q in range(8):
                ctx.case(variances_case(rng, ctx, K, mon, q + 8 * (v % 2)))
            for q in range(12):
                ctx.case(reuse_case(rng, ctx, K, mon, q + 12 * (v % 2)))
                v += 1
        for j in range(shard['sweeps'] * 4):
            ctx.case(frame_case(rng, ctx, K, mon, j))
        for _ in range(shard['sweeps']):  # noqa: B007
            ctx.case(tilt_sweep(rng, ctx, K, mon))
            ctx.case(limits_case(rng, ctx, K, mon, _))
        # (after everything else, so that the cases above are the same as before these classes existed)
        # first call in a fresh interpreter: over the ordinary shards of a run every first call and every import form
        for r in range(shard.get('fresh', 1)):
            before = ctx.n_violations
            first = FRESH_FIRST[(shard['index'] + shard['seed'] + 5 * r) % len(FRESH_FIRST)]
            form = (shard['index'] + 2 * shard['seed'] + r) % len(FRESH_IMPORTS)
            ctx.case(fresh_case(rng, ctx, K, mon, first, form))
            if ctx.n_violations > before and len(ctx.samples) < 12:
                ctx.sample({'family': 'fresh', 'first call': fresh_label(first), 'import': FRESH_IMPORTS[form][0]})
        for _rep in range(shard['layout_reps']):
            # dim labels not in NFC / NFKC form, dims of the lengths the implementation uses internally,
            # operands modified in place between two calls / results and arguments written to
            overlapping = next(r for r in LAYOUT_RELATIONS if r[0] == 'overlapping')
            for names in UNICODE_DIM_SETS:
                for kind in LAYOUT_KINDS:
                    for path in LAYOUT_PATHS:
                        ctx.case(layout_case(rng, ctx, K, mon, overlapping, kind, path, v, rename=names))
                        v += 1
            for length in SIZE_CLASSES:
                for relname in SIZE_RELATIONS:
                    rel = next(r for r in LAYOUT_RELATIONS if r[0] == relname)
                    for kind in LAYOUT_KINDS:
                        for path in LAYOUT_PATHS:
                            ctx.case(layout_case(rng, ctx, K, mon, rel, kind, path, v, length=length))
                            v += 1
            for mode in INPLACE_MODES:
                for kind in LAYOUT_KINDS:
                    for path in LAYOUT_PATHS:
                        before = ctx.n_violations
                        ctx.case(inplace_case(rng, ctx, K, mon, mode, kind, path, v))
                        v += 1
                        if ctx.n_violations > before and len(ctx.samples) < 12:
                            ctx.sample({'family': 'inplace', 'mode': mode, 'wavelength': kind, 'path': path})


FINDING_PREDICATES = {}

TECHNIQUE = ('runtime monitors (sys.monitoring) on both gravity code paths and the reflectometry variant; '
             'long-double re-evaluation of the documented construction for every (event, pixel) pair of the result; '
             'tilt-sweep continuity and limit monitors; kernels driven directly (every calling convention) and as '
             'transform_coords graph nodes; float64 screen of every element + long-double selection for results beyond '
             '2^19 elements')
LEVEL_TEXT = ('exploration: every observed return of scattering_angles_with_gravity / scattering_angle_in_yz_plane '
              'is compared with the documented construction (beam raised by delta along -g/|g|) at 1e-12 rad '
              '(1e-5 single precision) with the conditioning of atan2 accounted for; which private implementation '
              'ran is observed so both paths are known to be covered; continuity over a forced tilt sweep across '
              'the dispatch threshold, the lambda->0 / g->0 limits (lambda and |g| exactly at and log-uniformly towards '
              '0, |g| down to 1e-149 in every unit) and the refusal of the reflectometry variant are checked on '
              'observed values. Every run contains every broadcast relation between the dims of wavelength (dense and '
              'binned, contiguous or not) and scattered_beam on both paths and every |g| band with a horizontal and a '
              'tilted beam; the result must span the union of the operand dims with the bins of the wavelength. '
              'Every run also drives the kernels the way the user guide documents them, as nodes of a transform_coords '
              'graph (must be called, must not fail except by the kernel\'s own refusal, output coordinates are what the '
              'kernel returned, masks kept), with every calling convention, with results beyond 2^22 elements in the '
              'ordinary time-of-flight layouts on both paths (every element screened in float64, a selection in long '
              'double), and a second time with the same / copied objects (bit-identical result, arguments unchanged), '
              'with operands modified in place between calls and results overwritten by the caller (no memoisation by '
              'identity, no memory shared between results, arguments and later calls), with dim labels not in NFC / NFKC '
              'form and dims of length 1..4, and as the first call of a fresh interpreter that imported only the module '
              'of the entry points (13 first-call classes x 4 import forms per run; same monitors, and bit-identical '
              'with the worker). '
              'Sampled inputs, not a proof.')
LEVEL_NOTE = ('trusted: numpy long double, scipp containers, h and m_n from scipp.constants, the docstring '
              'construction as specification')
DESIGN_REF = 'DESIGN.md section 4, C04'
