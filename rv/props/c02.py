"""C02 convert() succeeds iff the target is derivable, and matches the formulas."""

from __future__ import annotations

import copy
import enum
import itertools
import pickle

import numpy as np
import scipp as sc

from rv import operands as ops
from rv.oracle import convgraph as G
from rv.oracle import geom, si
from rv.trace import Tracer

ID = 'C02'
LEVEL = 'exploration'
RULE = (
    'configuration = (origin in {tof, wavelength, energy, Q}) x (16 targets) x scatter x subset of the 11 '
    'geometry/energy coordinates; thorough enumerates all 262144 configurations (exhaustive), quick takes all '
    'subsets of size <= 2 and >= 9 plus a stratified sample; each configuration gets fresh random, mutually '
    'inconsistent coordinate values (so precedence of supplied coordinates is visible), alternating DataArray / '
    'Dataset and dense / binned; both tiers add ~4300 cases with degenerate contents of the supplied coordinates '
    '(for every origin x target x scatter: subsets along the derivation depth, the shallowest sufficient subset '
    'and two random ones; empty pixel selection, length-1 and 0-d single pixel, binned data without events; every '
    'coordinate the model reads made NaN everywhere / NaN for one pixel / infinite / zero): presence decides, '
    'contents do not; both tiers add ~4600 cases of further input classes on, for every origin x target x scatter, '
    'everything supplied / positions only / the shallowest sufficient subset / one refused subset / a second or '
    'bystander energy coordinate: a coordinate the derivation reads (or a bystander, or the data) carrying variances '
    '(dense, events, single pixel; uncertainty of the target = first-order propagation where the coordinate occurs '
    'once in the documented formula and scipp defines the operations), masks at pixel / bin / event level named '
    'like target and origin, pixel and event dimensions named like origin / target / graph nodes / generic names, '
    'Datasets with 0 (sc.Dataset(coords=...)), a deleted and 2 items, names as numpy.str_ / (str, Enum) / StrEnum, '
    'all three calling conventions of convert / deduce_conversion_graph / conversion_graph, call sequences (same '
    'call again, refused call then the coordinate added, graphs handed out earlier mutated, deepcopy as input; '
    'repr / copy / == / pickle between two calls), caller subclasses of the containers, bins of different sizes, '
    'the reported graph applied by the caller with transform_coords; ~1900 cases of state / aliasing / naming classes '
    'on the same subsets: supplied coordinates modified in place (whole, one pixel, unit of the origin) between two '
    'calls on the same object (second answer = answer for the new contents, first answer untouched), neutral '
    'elements of the formulas as forced geometry (sample / source exactly at the origin, L1 = 0 with Ltotal derived, '
    'pulse_time = 0), 2 / 4 / 8 / 9 / 10 pixels, names that merely NFKC-normalise to a target / coordinate name '
    '(not that name: refused / not counted as supplied; origin look-alikes counted only); every case of the input-'
    'class and state families ends with the aliasing checks (write in place into the computed coordinates of the '
    'result: input unchanged, same call gives the original result; write into the arguments: result unchanged); '
    '~750 cases without the origin coordinate / with quantities of the derivation supplied (for every origin x target x '
    'scatter and every quantity on the way to the target per the model: that quantity or the target itself supplied '
    'with and without the origin coordinate, dense or as event coordinate; origin absent and nothing else supplied; '
    'pipelines: convert to an intermediate / the target / an unrelated quantity, drop the origin coordinate, convert '
    'on under the same origin name - derivable from what is present is answered, else RuntimeError); '
    'shards 0-3 each start one new interpreter that imports only the module of convert() and makes three calls '
    '(outcome = model, coordinate bit-identical to the worker\'s); one extra shard per run holds 12 conversions '
    'on 2**20 + 7 pixels / 3 x 400001 events / 2**20 + 7 events in ragged bins; distinct = configurations x '
    'contents class x input class; trivial = none'
)
ASSUMPTIONS = [
    'the derivability rule is the one of the user guide: present coordinates are used, missing ones derived '
    'recursively from the documented inputs, failure if an input is missing',
    'auxiliary inputs ub_matrix, sample_rotation, pulse_time are always present',
    'uncertainties: a coordinate consists of values and, if supplied, variances; where the supplied coordinate with '
    'variances occurs once in the documented formula the variance of the target is (d target / d coordinate)^2 x '
    'variance (analytic derivatives of the documented formulas, chain rule, long double); where it occurs more '
    'than once only the values are judged; where scipp refuses the arithmetic for operands with variances (broadcast, sin, assembling '
    'vectors) its VariancesError - a RuntimeError - is a counted refusal',
]
N = 3
AUX = ['ub_matrix', 'sample_rotation', 'pulse_time']
UNIT = {'tof': 'us', 'wavelength': 'angstrom', 'energy': 'meV', 'Q': '1/angstrom', 'dspacing': 'angstrom',
        'energy_transfer': 'meV', 'time_at_sample': 'us', 'L1': 'm', 'L2': 'm', 'Ltotal': 'm', 'two_theta': 'rad',
        'incident_beam': 'm', 'scattered_beam': 'm', 'Qx': '1/angstrom', 'Q_vec': '1/angstrom',
        'hkl_vec': 'dimensionless', 'h': 'dimensionless', 'Qy': '1/angstrom', 'Qz': '1/angstrom',
        'k': 'dimensionless', 'l': 'dimensionless'}
KERNEL_NODE = {
    'straight_incident_beam': 'incident_beam', 'straight_scattered_beam': 'scattered_beam', 'L1': 'L1', 'L2': 'L2',
    'two_theta': 'two_theta', 'total_beam_length': 'Ltotal', 'total_straight_beam_length_no_scatter': 'Ltotal',
    'wavelength_from_tof': 'wavelength', 'wavelength_from_energy': 'wavelength', 'wavelength_from_Q': 'wavelength',
    'energy_from_tof': 'energy', 'energy_from_wavelength': 'energy', 'dspacing_from_tof': 'dspacing',
    'dspacing_from_wavelength': 'dspacing', 'dspacing_from_energy': 'dspacing', 'Q_from_wavelength': 'Q',
    'Q_elements_from_wavelength': 'Qxyz', 'Q_vec_from_Q_elements': 'Q_vec', 'hkl_vec_from_Q_vec': 'hkl_vec',
    'hkl_elements_from_hkl_vec': 'hkl', 'ub_matrix_from_u_and_b': 'ub_matrix',
    'energy_transfer_direct_from_tof': 'energy_transfer', 'energy_transfer_indirect_from_tof': 'energy_transfer',
    'time_at_sample_from_tof': 'time_at_sample',
}


def expected_kernel(node, inputs, mode):
    if node == 'Ltotal':
        return 'total_beam_length' if inputs == ('L1', 'L2') else 'total_straight_beam_length_no_scatter'
    if node in ('wavelength', 'energy', 'dspacing'):
        return f'{node}_from_{inputs[0]}'
    if node == 'energy_transfer':
        return 'energy_transfer_direct_from_tof' if mode == 'direct_inelastic' else 'energy_transfer_indirect_from_tof'
    for k, n in KERNEL_NODE.items():
        if n == node and k not in ('total_beam_length', 'total_straight_beam_length_no_scatter'):
            return k
    raise KeyError(node)


def graph_key_nodes(graph):
    out = set()
    for k in graph:
        if isinstance(k, tuple):
            out.add({'Qx': 'Qxyz', 'h': 'hkl'}[k[0]])
        else:
            out.add(k)
    return out


# ------------------------------------------------------------ generator ---
def config_of(index):
    sub = index % 2048
    index //= 2048
    scatter = bool(index % 2)
    index //= 2
    target = G.TARGETS[index % 16]
    origin = G.ORIGINS[index // 16]
    present = [n for i, n in enumerate(G.SUBSET) if sub >> i & 1]
    return origin, target, scatter, present


def n_configs():
    return 4 * 16 * 2 * 2048


ORIGIN_RANGE = {'tof': (2e4, 1e5), 'wavelength': (0.5, 10), 'energy': (1, 100), 'Q': (0.5, 10)}


def make_values(rng, origin, N=N):
    """Random, mutually inconsistent values (float64) for every coordinate that may appear."""
    v = {
        'tof': rng.uniform(*ORIGIN_RANGE['tof'], size=N),
        'wavelength': rng.uniform(*ORIGIN_RANGE['wavelength'], size=N),
        'energy': rng.uniform(*ORIGIN_RANGE['energy'], size=N),
        'Q': rng.uniform(*ORIGIN_RANGE['Q'], size=N),
        'position': rng.normal(size=(N, 3)) * 2 + [0, 0.5, 3],
        'source_position': rng.normal(size=3) + [0, 0, -12],
        'sample_position': rng.normal(size=3) * 0.3,
        'incident_beam': rng.normal(size=3) + [0, 0, 9],
        'scattered_beam': rng.normal(size=(N, 3)) * 2 + [0.3, 0, 2],
        'L1': np.float64(rng.uniform(6, 9)),
        'L2': rng.uniform(1, 4, size=N),
        'Ltotal': rng.uniform(15, 25, size=N),
        'two_theta': rng.uniform(0.2, 2.9, size=N),
        'incident_energy': np.float64(rng.uniform(20, 200)),
        'final_energy': rng.uniform(5, 50, size=N),
        'pulse_time': np.float64(rng.uniform(0, 1e5)),
        'ub_matrix': np.triu(rng.uniform(0.5, 2, size=(3, 3))),
        'sample_rotation': geom.random_rotation(rng).astype(np.float64),
    }
    return v


OUTER_NAMES = ('source_position', 'incident_beam', 'L1', 'incident_energy')


class _DataArraySub(sc.DataArray):
    """A caller's own subclass of the documented container class (no overrides)."""


class _DatasetSub(sc.Dataset):
    """A caller's own subclass of the documented container class (no overrides)."""


def _set_variances(v, variances):
    v = v.copy()
    if v.ndim == 0:
        v.variance = float(variances)
    else:
        v.variances = np.asarray(variances, dtype=np.float64)
    return v


def build(rng, origin, present, values, container, binned, outer=None, noevents=False, opts=None):
    """opts (all optional): n pixels; counts = events per pixel (values[origin] then has one entry per event);
    var = (name, variances) the coordinate that carries variances; datavar: the data carry variances;
    masks in {'pixel', 'bin', 'event', 'both'} (named like the target and the origin); evdim: name of the event
    dimension; items = number of data items of a Dataset (0: `sc.Dataset(coords=...)`); subclass."""
    opts = opts or {}
    n = opts.get('n', N)
    counts = opts.get('counts')
    varname, variances = opts.get('var') or (None, None)
    evdim = opts.get('evdim', 'event')
    mask_names = opts.get('mask_names', ('m1', 'm2'))

    def var(name):
        v = var_(name)
        if name == varname:
            v = _set_variances(v, variances)
        return v

    def var_(name):
        x = values[name]
        if outer and name in OUTER_NAMES:
            # several source-side settings along their own dimension (e.g. one per run)
            x = np.asarray(x)
            unit = {'incident_energy': 'meV', 'source_position': 'm'}.get(name) or UNIT[name]
            stack = np.stack([x, x * 1.01])
            if x.ndim == 1:
                return sc.vectors(dims=[outer], values=stack, unit=unit)
            return sc.array(dims=[outer], values=stack, unit=unit)
        if name in ('ub_matrix',):
            return sc.spatial.linear_transform(value=x, unit='1/angstrom')
        if name == 'sample_rotation':
            return sc.spatial.linear_transform(value=x)
        if name == 'pulse_time':
            return sc.scalar(float(x), unit='us')
        unit = {'incident_energy': 'meV', 'final_energy': 'meV', 'position': 'm', 'source_position': 'm',
                'sample_position': 'm'}.get(name) or UNIT[name]
        x = np.asarray(x)
        if x.ndim == 2:
            return sc.vectors(dims=['pixel'], values=x, unit=unit)
        if x.ndim == 1 and x.shape == (3,) and name in ('source_position', 'sample_position', 'incident_beam'):
            return sc.vector(x, unit=unit)
        if x.ndim == 0:
            return sc.scalar(float(x), unit=unit)
        return sc.array(dims=['pixel'], values=x, unit=unit)

    def weights(dim, m):
        w = sc.ones(dims=[dim], shape=[m], unit='counts')
        if opts.get('datavar'):
            w.variances = np.full(m, 1.0)
        return w

    def pixel_mask(k):
        return sc.array(dims=['pixel'], values=(np.arange(n) + k) % 2 == 0)

    # coordinates of the derivation other than the geometry / energy ones (an intermediate quantity, the target
    # itself) supplied by the caller; the origin coordinate itself may be absent
    supply = list(opts.get('supply') or ())
    evname = opts.get('evcoord', origin)   # the coordinate the events carry (None: events without coordinates)
    coords = {nm: var(nm) for nm in [*present, *AUX, *(x for x in supply if not (binned and x == evname))]}
    masks = opts.get('masks')
    if binned:
        # one event per pixel unless `counts` says otherwise: event coordinate = origin
        if noevents:
            # every pixel has an empty event list
            ev = sc.DataArray(sc.ones(dims=[evdim], shape=[0], unit='counts'),
                              coords={origin: sc.array(dims=[evdim], values=values[origin][0:0], unit=UNIT[origin])})
            zero = sc.zeros(dims=['pixel'], shape=[n], dtype='int64', unit=None)
            data = sc.bins(begin=zero, end=zero.copy(), dim=evdim, data=ev)
        else:
            if evname is None:
                ev = sc.DataArray(weights(evdim, n))
                x = np.zeros(n)
            else:
                x = np.asarray(values[evname])
                oc = sc.array(dims=[evdim], values=x, unit=UNIT[evname])
                if varname == evname:
                    oc = _set_variances(oc, variances)
                ev = sc.DataArray(weights(evdim, len(x)), coords={evname: oc})
            if masks in ('event', 'both'):
                ev.masks[mask_names[0]] = sc.array(dims=[evdim], values=np.arange(len(x)) % 3 == 1)
            end = np.cumsum(counts if counts is not None else np.ones(n, dtype=np.int64))
            begin = end - (counts if counts is not None else 1)
            data = sc.bins(begin=sc.array(dims=['pixel'], values=begin, unit=None, dtype='int64'),
                           end=sc.array(dims=['pixel'], values=end, unit=None, dtype='int64'), dim=evdim, data=ev)
        da = sc.DataArray(data, coords=coords)
        if masks in ('bin', 'both'):
            da.masks[mask_names[1]] = pixel_mask(1)
    else:
        if not opts.get('drop_origin'):
            coords[origin] = var(origin)
        if opts.get('items') == 0:
            # a container without data items: the coordinates belong to the Dataset itself
            return sc.Dataset(coords=coords)
        da = sc.DataArray(weights('pixel', n), coords=coords)
        if masks in ('pixel', 'both'):
            da.masks[mask_names[0]] = pixel_mask(0)
            if masks == 'both':
                da.masks[mask_names[1]] = pixel_mask(1)
    if opts.get('subclass'):
        da = _DataArraySub(da.data, coords=dict(da.coords), masks=dict(da.masks))
    if container == 'dataset':
        items = {'a': da}
        if opts.get('items') == 2:
            items['b'] = da * sc.scalar(2.0)
        return _DatasetSub(items) if opts.get('subclass') else sc.Dataset(items)
    return da


def model_values(values):
    out = {}
    for k, x in values.items():
        out[k] = np.asarray(x).astype(si.LD)
    return out


def _events(c, what='values'):
    """Event values of the bins that belong to `c` (a slice of binned data shares the buffer of the whole)."""
    k = c.bins.constituents
    d = k['data']
    vals = getattr(d, what)
    if vals is None:
        return None, d.unit
    vals = np.asarray(vals)
    b = np.asarray(k['begin'].values).reshape(-1)
    e = np.asarray(k['end'].values).reshape(-1)
    if len(b) == 0:
        return vals[0:0], d.unit
    if b[0] == 0 and e[-1] == len(vals) and np.array_equal(b[1:], e[:-1]):
        return vals, d.unit
    return np.concatenate([vals[i:j] for i, j in zip(b, e, strict=True)]), d.unit


def _item(x):
    """The object that carries the coordinates: the item of a Dataset, the Dataset itself if it has no items."""
    if isinstance(x, sc.Dataset):
        return x['a'] if 'a' in x else x
    return x


def get_coord(res, name, binned, what='values'):
    """(values, unit, event_level)"""
    obj = _item(res)
    if binned and not isinstance(obj, sc.Dataset) and name in obj.bins.coords:
        return (*_events(obj.bins.coords[name], what), True)
    if name in obj.coords:
        c = obj.coords[name]
        if c.bins is not None:
            return (*_events(c, what), True)
        v = getattr(c, what)
        return (None if v is None else np.asarray(v)), c.unit, False
    return None, None, False


# ------------------------------------------- degenerate contents of supplied coordinates ---
# "every subset of coordinates present; random coordinate values": whether a coordinate is present decides what
# is derived, never what it contains.  The contents classes below are part of every run.
PER_PIXEL = ('tof', 'wavelength', 'energy', 'Q', 'position', 'scattered_beam', 'L2', 'Ltotal', 'two_theta',
             'final_energy')
VECTORS = ('position', 'source_position', 'sample_position', 'incident_beam', 'scattered_beam')
VECTOR_TARGETS = ('incident_beam', 'scattered_beam', 'Q_vec', 'hkl_vec')
SLICES = {'empty': slice(0, 0), 'one': slice(1, 2), 'scalar': 1}
N_EVENTS = {None: N, 'empty': 0, 'one': 1, 'scalar': 1, 'noevents': 0}
CONTENTS = {
    'empty': 'empty pixel selection (zero-length coordinates)',
    'one': 'single pixel, length-1 slice',
    'scalar': 'single pixel by integer index (0-d coordinates)',
    'noevents': 'binned data without any event',
    'nan_all': 'supplied coordinate NaN everywhere',
    'nan_some': 'supplied coordinate NaN for one pixel',
    'inf_all': 'supplied coordinate infinite',
    'zero_all': 'supplied coordinate zero',
    'one+nan_all': 'single pixel (length-1 slice) whose supplied coordinate is NaN',
    'scalar+nan_all': 'single pixel (0-d) whose supplied coordinate is NaN',
}


def apply_special(values, name, kind):
    x = np.array(values[name], dtype=np.float64)
    if kind == 'nan_some' and name in PER_PIXEL:
        x[1] = np.nan
    else:
        x[...] = {'nan_all': np.nan, 'nan_some': np.nan, 'inf_all': np.inf, 'zero_all': 0.0}[kind]
    values[name] = x if x.ndim else np.float64(x)


def select_values(values, select):
    sl = SLICES[select]
    return {k: (np.asarray(x)[sl] if k in PER_PIXEL else x) for k, x in values.items()}


def check_supplied(ctx, data, res, present, case, vkeys):
    src = _item(data)
    obj = _item(res)
    for nm in present:
        if nm not in obj.coords:
            continue
        a, b = obj.coords[nm], src.coords[nm]
        ctx.event('supplied_kept')
        if (a.variances is None) != (b.variances is None) or (
                a.variances is not None and not np.array_equal(np.asarray(a.variances), np.asarray(b.variances))):
            ctx.violation('supplied_replaced', f'the supplied coordinate {nm} comes back with different variances '
                          f'({a.variances} instead of {b.variances})', case, name=nm, **vkeys)
        if a.unit != b.unit or not np.array_equal(np.asarray(a.values), np.asarray(b.values), equal_nan=True):
            ctx.violation('supplied_replaced', f'the supplied coordinate {nm} comes back with different contents '
                          f'({np.asarray(a.values).tolist()} {a.unit} instead of {np.asarray(b.values).tolist()} {b.unit})',
                          case, name=nm, **vkeys)


_BIT = {n: 1 << i for i, n in enumerate(G.SUBSET)}
_LADDER = ('Ltotal', 'two_theta', 'L1', 'L2', 'incident_beam', 'scattered_beam')


def variant_plan(seed):
    """[(index, variant)]: for every (origin, target, scatter), coordinate subsets along the derivation depth
    (everything supplied ... only positions), the shallowest sufficient subset of the model, and two random
    ones; each with an empty pixel selection and one other selection, and - where the model derives the target -
    each coordinate the derivation reads made NaN everywhere plus one other special content, and a single-pixel
    selection whose per-pixel coordinate is NaN."""
    rng = np.random.Generator(np.random.PCG64([seed, 98]))
    out, j, seen = [], 0, set()
    for base in range(4 * 16 * 2):
        origin, target, scatter, _ = config_of(base * 2048)
        subsets = []
        for step in range(len(_LADDER) + 1):
            sub = [n for n in G.SUBSET[:9] if n not in _LADDER[:step]]
            if target == 'energy_transfer':
                sub.append(('incident_energy', 'final_energy')[(base // 2 + step) % 2])
            elif step % 4 == 3:  # bystander energy coordinate
                sub.append(('incident_energy', 'final_energy')[(base // 2 + step // 4) % 2])
            subsets.append(sub)
        for mode in (('direct_inelastic', 'indirect_inelastic') if target == 'energy_transfer' else ('elastic',)):
            sh = G.shallow_inputs(target, G.rules(origin, target, scatter, mode), given=(origin, *AUX))
            if sh:
                subsets.append(sh)
        for _ in range(2):
            subsets.append([n for n in G.SUBSET if rng.random() < 0.5])
        for sub in subsets:
            index = base * 2048 + sum(_BIT[n] for n in sub)
            if index in seen:
                continue
            seen.add(index)
            present = [n for n in G.SUBSET if n in sub]
            verdict, nodes, mode = G.decide(origin, target, scatter, [*present, *AUX, origin])
            todo = [('empty', None), (('one', 'scalar', 'noevents')[j % 3], None)]
            if verdict == 'ok':
                leaves = G.used_inputs(target, [*present, *AUX, origin], G.table_for(origin, target, scatter, mode))
                pp = [n for n in leaves if n in PER_PIXEL and n != origin] or [n for n in leaves if n in PER_PIXEL]
                if pp and todo[1][0] in ('one', 'scalar'):
                    todo.append((todo[1][0], (pp[j % len(pp)], 'nan_all')))
                for leaf in leaves:
                    if leaf in AUX:
                        continue
                    other = (['nan_some'] if leaf in PER_PIXEL else []) + (
                        ['inf_all', 'zero_all'] if leaf not in VECTORS else [])
                    todo.append((None, (leaf, 'nan_all')))
                    if other:
                        todo.append((None, (leaf, other[(j + len(todo)) % len(other)])))
            for select, special in todo:
                v = {'container': ('dataarray', 'dataset')[j % 2], 'binned': j % 4 >= 2 or select == 'noevents',
                     'copy': j % 8 >= 4}
                if select:
                    v['select'] = select
                if special:
                    v['special'] = special
                out.append((index, v))
                j += 1
    return out


class Watch:
    def __init__(self):
        self.kernels = []
        self.graph = None
        self.k_depth = 0

    def kernel_start(self, ev):
        outer = self.k_depth == 0  # not called from inside another kernel (two_theta calls L1/L2 itself)
        self.k_depth += 1
        return outer

    def kernel(self, name):
        def h(ev):
            self.k_depth -= 1
            if ev.pre:
                self.kernels.append(name)
        return h

    def transform(self, ev):
        g = ev.args.get('graph')
        if self.graph is None:
            self.graph = g


# ------------------------------------------------------------ further input classes ---
# Classes of inputs / call sequences / states that the quantifier covers ("every origin, target, scatter flag and
# every subset of coordinates present; DataArray and Dataset containers") but random coordinate values on one
# fixed layout never produce.  Every class is a deterministic part of every run (see axis_plan()).
AXIS_CLASSES = {
    'var:origin:dense': 'origin coordinate with variances, dense data',
    'var:origin:events': 'event coordinate with variances',
    'var:origin:single': 'origin coordinate with variances, single pixel (0-d / length 1)',
    'var:perpixel': 'supplied per-pixel coordinate (length, angle, energy) with variances',
    'var:scalar': 'supplied scalar coordinate (L1, incident_energy) with variances, single-pixel data',
    'var:bystander': 'a coordinate the derivation does not read carries variances',
    'var:data': 'data (weights) with variances',
    'masks:pixel': 'per-pixel mask on dense data, named like the target',
    'masks:bin': 'bin-level mask on binned data',
    'masks:event': 'event-level mask inside the bins',
    'masks:both': 'two masks at both levels, named like target and origin',
    'dims:origin': 'pixel dimension named like the origin coordinate (dimension-coordinate)',
    'dims:target': 'pixel dimension named like the target',
    'dims:node': 'pixel dimension named like an intermediate of the graph (Ltotal, wavelength, two_theta)',
    'dims:generic': "pixel dimension named 'event' / 'x' / 'row'",
    'dims:event': 'event dimension named like the origin / the target / the pixel dimension',
    'items:0': 'Dataset without data items (sc.Dataset(coords=...))',
    'items:deleted': 'Dataset whose only item was deleted between two convert calls',
    'items:2': 'Dataset with two items',
    'names:npstr': 'origin / target / energy_mode as numpy.str_',
    'names:enum': 'origin / target / energy_mode as members of a (str, Enum) class',
    'names:strenum': 'origin / target / energy_mode as StrEnum members',
    'second:again': 'the same call repeated on the same object',
    'second:after_refusal': 'a refused call caught, the missing coordinate added, the call repeated',
    'second:graph_mutated': 'graphs handed out earlier were emptied / extended by the caller',
    'second:deepcopy_input': 'the input is a deepcopy of the data',
    'between:repr': 'repr / str of data, result and graph between two calls',
    'between:copy': 'copy / deepcopy of data, result and graph between two calls',
    'between:eq': '== / identical of data, result and graph between two calls',
    'between:pickle_graph': 'pickle round trip of the reported graph between two calls',
    'subclass': "caller's own subclass of DataArray / Dataset",
    'ragged': 'bins of different sizes including an empty one',
}
HEAVY_CLASSES = {
    'heavy:dense': 'dense data with 2**20 + 7 pixels',
    'heavy:events': '3 pixels x 400001 events',
    'heavy:ragged': '2**20 + 7 events in 5 bins of different sizes',
}
NAME_FORMS = {
    'npstr': np.str_,
    'enum': lambda s, _c={}: _c.setdefault(s, enum.Enum('Name_' + s, {s: s}, type=str))[s],
    'strenum': lambda s, _c={}: _c.setdefault(s, enum.StrEnum('SName_' + s, {s: s}))[s],
}


def leaf_dims(name, origin, binned, select):
    d = set()
    if name == origin:
        d = {'pixel', 'event'} if binned else {'pixel'}
    elif name in PER_PIXEL:
        d = {'pixel'}
    if select == 'scalar':
        d.discard('pixel')
    return d


def variance_class(origin, target, scatter, mode, present, nodes, vn, binned, select):
    """What the property + scipp's arithmetic say about the uncertainty of the target when `vn` carries variances:
    'unused' (target does not depend on it: no variances), 'defined' (occurs once, nothing scipp refuses: first
    order), 'ambiguous' (occurs more than once: values only), 'undefined:*' (scipp's arithmetic refuses the
    operation for operands with variances: VariancesError, a RuntimeError, is an allowed outcome)."""
    have = [*present, *AUX, origin]
    table = G.table_for(origin, target, scatter, mode)
    occ = G.occurrences(target, vn, have, table)
    if occ == 0:
        return 'unused'
    leaves = G.used_inputs(target, have, table)
    result_dims = set().union(*(leaf_dims(x, origin, binned, select) for x in leaves))
    if leaf_dims(vn, origin, binned, select) != result_dims:
        return 'undefined:broadcast'
    if vn == 'two_theta' and target != 'two_theta':
        return 'undefined:sin'
    if 'Q_vec' in nodes:
        return 'undefined:vector'
    return 'ambiguous' if occ > 1 else 'defined'


def _same_result(a, b, target):
    if type(a) is type(b) and (not isinstance(a, sc.Dataset) or set(a.keys()) == set(b.keys())):
        return sc.identical(a, b, equal_nan=True)
    # containers differ (an item was removed in between): the coordinates of the container are what counts
    ca, cb = _item(a).coords, _item(b).coords
    return (target in ca) == (target in cb) and (target not in ca or sc.identical(ca[target], cb[target],
                                                                                  equal_nan=True))


def between_calls(kind, data, res0, graph, ctx):
    """Display / copy / comparison / serialisation of the objects involved; none of it may change a later result."""
    objs = [data, graph] + ([res0] if res0 is not None else [])
    if kind == 'repr':
        for o in objs:
            repr(o)
            str(o)
            if hasattr(o, '_repr_html_'):
                o._repr_html_()
    elif kind == 'copy':
        for o in objs:
            copy.copy(o)
            copy.deepcopy(o)
            if hasattr(o, 'copy'):
                o.copy()
    elif kind == 'eq':
        for o in objs:
            if isinstance(o, dict):
                assert o == dict(o)
            else:
                sc.identical(o, o, equal_nan=True)
                try:
                    o == o  # noqa: B015  (element-wise for DataArray; may be undefined for a container)
                except Exception:  # noqa: BLE001
                    ctx.count('between:eq_not_defined_for_' + type(o).__name__)
    elif kind == 'pickle_graph':
        try:
            g2 = pickle.loads(pickle.dumps(graph))  # noqa: S301
            ctx.count('between:graph_pickled' if all(g2[k] is graph[k] for k in graph) else
                      'between:graph_unpickled_to_other_functions')
        except Exception:  # noqa: BLE001
            ctx.count('between:graph_not_picklable')


# ------------------------------------------------------------ in-place writes, aliasing ---
_SHIFT = np.array([0.125, -0.25, 0.5])
_FACTOR = 1.0625


def _arg_var(data, name, origin, binned):
    """The coordinate object of the input as the caller reaches it (no copy)."""
    if binned and name == origin:
        return _item(data).bins.coords[name]
    return data.coords[name]


def modify_args(how, data, values, names, origin, binned, pixdim, ctx):
    """Write in place into the supplied coordinates `names` of `data` and keep `values` (what the model reads) in
    step.  how = 'values': whole coordinate (vectors += shift, others *= factor); 'slice': pixel 1 only;
    'unit': the unit of the origin coordinate (same numbers, other unit).  Returns the number of coordinates written."""
    written = 0
    for nm in names:
        if how == 'unit' and nm != origin:
            continue
        if how == 'slice' and nm not in PER_PIXEL:
            continue
        c = _arg_var(data, nm, origin, binned)
        try:
            if how == 'unit':
                new, f = _UNIT2[origin]
                if c.bins is not None:
                    c.bins.unit = new
                else:
                    c.unit = new
                values[nm] = np.asarray(values[nm]) * f
                written += 1
                continue
            x = np.array(values[nm], dtype=np.float64)
            if how == 'slice':
                if pixdim not in c.dims or c.sizes[pixdim] < 2:
                    continue
                c = c[pixdim, 1]
            unit = c.bins.unit if c.bins is not None else c.unit
            if nm in VECTORS:
                c += sc.vector(_SHIFT, unit=unit)
                if how == 'slice':
                    x[1] = x[1] + _SHIFT
                else:
                    x = x + _SHIFT
            else:
                c *= sc.scalar(_FACTOR)
                if how == 'slice':
                    x[1] = x[1] * _FACTOR
                else:
                    x = x * _FACTOR
            values[nm] = x if x.ndim else np.float64(x)
            written += 1
        except (sc.VariableError, sc.UnitError) as e:
            # read-only coordinate / unit of a partial view: the caller cannot make this change
            ctx.count(f'inplace:not_possible:{type(e).__name__}')
    return written


def _derived(data, res):
    """[(name, level)] of the coordinates of the result that the input does not have: computed by the call."""
    src, obj = _item(data), _item(res)
    out = [(nm, 'pixel') for nm in obj.coords if nm not in src.coords]
    if isinstance(obj, sc.DataArray) and obj.bins is not None:
        have = set(src.bins.coords) if isinstance(src, sc.DataArray) and src.bins is not None else set()
        out += [(nm, 'event') for nm in obj.bins.coords if nm not in have]
    return out


def _res_var(res, name, level):
    return _item(res).bins.coords[name] if level == 'event' else res.coords[name]


def _derived_snapshot(data, res):
    return {(nm, lv): _res_var(res, nm, lv).copy() for nm, lv in _derived(data, res)}


def _changed(res, snap):
    return [nm for (nm, lv), v in snap.items() if not sc.identical(_res_var(res, nm, lv), v, equal_nan=True)]


def check_result_keeps(ctx, res, snap, case, vkeys, step):
    """(l1) the result obtained earlier is a value of its own: writing into the arguments afterwards leaves it alone."""
    ctx.event('alias:argument_written')
    bad = _changed(res, snap)
    if bad:
        ctx.violation('aliasing', f'{step}: after the caller wrote in place into the supplied coordinates of the '
                      f'input, the coordinates {bad} of the result returned earlier have different contents (they '
                      'were computed from the coordinates present at the time of the call)', case,
                      side='result_follows_argument', **vkeys)


def alias_checks(ctx, data, res, call, values, present, origin, binned, pixdim, case, vkeys):
    """(l2) write in place into the computed coordinates of the result: the arguments are unchanged and the same call
    gives the original result again; then (l1) write into the arguments: the repeated result stays what it was."""
    try:
        data0, res0 = copy.deepcopy(data), copy.deepcopy(res)
        written = 0
        for nm, lv in _derived(data, res):
            c = _res_var(res, nm, lv)
            unit = c.bins.unit if c.bins is not None else c.unit
            dtype = c.bins.dtype if c.bins is not None else c.dtype
            try:
                if dtype == sc.DType.vector3:
                    c += sc.vector(_SHIFT, unit=unit)
                elif dtype in (sc.DType.float64, sc.DType.float32):
                    c += sc.scalar(1.0, unit=unit, dtype=dtype)
                else:
                    continue
                written += 1
            except sc.VariableError:
                ctx.count('alias:result_coordinate_read_only')
        if not written:
            ctx.count('alias:nothing_computed')
            return
        same_input = sc.identical(data, data0, equal_nan=True)
    except Exception:  # noqa: BLE001
        ctx.oracle_error('C02 aliasing (write into result)')
        return
    ctx.event('alias:result_written')
    if not same_input:
        ctx.violation('aliasing', 'after the caller wrote in place into the computed coordinates of the result, the '
                      'input data have different contents', case, side='argument_follows_result', **vkeys)
    try:
        again = call(data)
    except Exception as e:  # noqa: BLE001
        ctx.violation('aliasing', f'the same call on the same input raised {type(e).__name__} after the caller wrote '
                      f'into the earlier result: {e}', case, side='repeat', **vkeys)
        return
    ctx.event('alias:repeat')
    if not sc.identical(again, res0, equal_nan=True):
        ctx.violation('aliasing', 'the same call on the same input gives a different result after the caller wrote in '
                      'place into the computed coordinates of the earlier result', case, side='repeat', **vkeys)
        return
    try:
        snap = _derived_snapshot(data, again)
        n = modify_args('values', data, dict(values), [*present, origin], origin, binned, pixdim, ctx)
    except Exception:  # noqa: BLE001
        ctx.oracle_error('C02 aliasing (write into arguments)')
        return
    if n:
        check_result_keeps(ctx, again, snap, case, vkeys, 'repeated call')


def run_config(rng, ctx, scn, CV, watch, index, tracer, variant=None):
    origin, target, scatter, present = config_of(index)
    ax = (variant or {}).get('axis') or {}
    n = ax.get('n', N)
    values = make_values(rng, origin, n)
    counts = ax.get('counts')
    if counts is not None:
        counts = np.asarray(counts, dtype=np.int64)
        values[origin] = rng.uniform(*ORIGIN_RANGE[origin], size=int(counts.sum()))
    if ax.get('neutral'):
        # a neutral element of the documented formula (x - 0, 0 + x), exactly
        values[ax['neutral']] = np.zeros_like(values[ax['neutral']])
    select = special = None
    vn, vvar = ax.get('var'), None
    # coordinates of the derivation other than the 11 geometry / energy ones that the caller supplies (an intermediate
    # quantity, the target itself); the origin coordinate may be absent altogether
    supply, drop_origin = list(ax.get('supply') or ()), bool(ax.get('drop_origin'))
    if supply or drop_origin:
        values.update(extra_values(rng, n))
    if variant is None:
        container = 'dataset' if index % 3 == 0 else 'dataarray'
        binned = index % 4 == 1
        # one configuration in nine: source-side coordinates vary along a dimension of their own, named so that
        # it sorts before or after 'pixel'
        outer = ['arun', 'run'][index % 2] if index % 9 == 4 and not binned else None
        data = build(rng, origin, present, values, container, binned, outer=outer)
    else:
        # degenerate contents of the supplied coordinates: presence decides, values (and their number) do not
        container, binned, outer = variant['container'], variant['binned'], None
        select, special = variant.get('select'), variant.get('special')
        if special:
            apply_special(values, *special)
        opts = None
        if ax:
            if vn:
                base = np.abs(np.asarray(values[vn], dtype=np.float64))
                vvar = (rng.uniform(0.5, 2, size=base.shape) * 1e-3 * base) ** 2
            opts = {'n': n, 'counts': counts, 'var': (vn, vvar) if vn else None, 'datavar': ax.get('datavar'),
                    'masks': ax.get('masks'), 'mask_names': (target, origin), 'evdim': ax.get('evdim', 'event'),
                    'items': 0 if ax.get('items') == 0 else 2 if ax.get('items') == 2 else None,
                    'subclass': ax.get('subclass'), 'supply': supply, 'drop_origin': drop_origin}
            if drop_origin:
                # events carry one of the four time-of-flight-like quantities if one is supplied, else no coordinate
                opts['evcoord'] = supply[0] if supply and supply[0] in ORIGIN_RANGE else None
        data = build(rng, origin, present, values, container, binned, noevents=select == 'noevents', opts=opts)
        if select in SLICES:
            data = data['pixel', SLICES[select]]
            if variant.get('copy'):
                data = data.copy()
            values = select_values(values, select)
            if vn in PER_PIXEL:
                vvar = vvar[SLICES[select]]
        if ax.get('pixdim') and 'pixel' in data.dims:
            data = data.rename_dims({'pixel': ax['pixdim']})
    # a supplied coordinate counts whatever its alignment flag says (integer slicing and earlier conversions
    # leave coordinates unaligned); one configuration in eleven supplies all of them unaligned
    unaligned = index % 11 == 7 and variant is None
    if unaligned:
        for nm in present:
            try:
                data.coords.set_aligned(nm, False)
            except Exception:  # noqa: BLE001  (event coordinate: lives in the bins)
                pass
        ctx.hit('supplied coordinates unaligned')
    if ax.get('lookalike'):
        # the coordinate is stored under a name that is not the documented one (it merely normalises to it): as far as
        # the derivation is concerned it is not there
        nm, look = ax['lookalike']
        data.coords[look] = data.coords[nm]
        del data.coords[nm]
        present = [x for x in present if x != nm]
    have = [*present, *AUX, *supply, *(() if drop_origin else (origin,))]
    verdict, nodes, mode = G.decide(origin, target, scatter, have)
    if ax.get('target_form'):
        verdict, nodes = 'refuse', 'no coordinate and no rule of that name'
    case = {'origin': origin, 'target': target, 'scatter': scatter, 'present': present, 'container': container,
            'binned': binned, 'model': verdict, 'model_detail': nodes, 'index': index, 'outer_dim': outer,
            'unaligned': unaligned}
    if supply or drop_origin:
        case['also_supplied'] = supply
        case['origin_coordinate_present'] = not drop_origin
    vkeys = {}
    if ax:
        case['variant'] = {k: v for k, v in variant.items() if k not in ('container', 'binned', 'axis')}
        case['class'] = {k: (v if k != 'counts' or len(v) <= 8 else f'{len(v)} bins') for k, v in ax.items()}
        vkeys = {'cls': ax['family']}
    elif variant is not None:
        case['variant'] = {k: v for k, v in variant.items() if k not in ('container', 'binned')}
        vkeys = {'contents': '+'.join(x for x in (select, special and special[1]) if x)}
    vclass = None
    if vn and verdict == 'ok':
        vclass = variance_class(origin, target, scatter, mode, present, nodes, vn, binned, select)
        case['variance_model'] = vclass
    watch.kernels, watch.graph, watch.k_depth = [], None, 0
    # the flag is a truth value: callers also pass numpy booleans (np.any(...)) or 0/1
    flag_form = index % 7
    scatter_arg = scatter
    if flag_form == 1:
        scatter_arg = np.bool_(scatter)
    elif flag_form == 2:
        scatter_arg = int(scatter)
    case['scatter_flag_type'] = type(scatter_arg).__name__
    # the names are strings: callers also pass numpy strings or members of string enumerations
    form = NAME_FORMS.get(ax.get('names'), str)
    o_arg, t_arg = form(ax.get('origin_form', origin)), form(ax.get('target_form', target))
    pixdim = ax.get('pixdim') or 'pixel'
    style = index % 3  # documented parameter names and order: (data, origin, target, scatter)

    def call(d, t=t_arg):
        if style == 0:
            return scn.convert(d, o_arg, t, scatter_arg)
        if style == 1:
            return scn.convert(data=d, origin=o_arg, target=t, scatter=scatter_arg)
        return scn.convert(d, o_arg, t, scatter=scatter_arg)

    def graphs(d, k):
        if k == 0:
            return CV.deduce_conversion_graph(d, o_arg, t_arg, scatter_arg)
        if k == 1:
            return CV.deduce_conversion_graph(data=d, origin=o_arg, target=t_arg, scatter=scatter_arg)
        return CV.deduce_conversion_graph(d, o_arg, target=t_arg, scatter=scatter_arg)

    def first_call(d, want, step, t=None):
        """An earlier call of a sequence; judged against the model like any other.  ('ok', res) / ('refuse', None) /
        None after a violation."""
        try:
            r = call(d) if t is None else call(d, t)
            got = 'ok'
        except RuntimeError as e:
            r, got = None, 'refuse'
            if isinstance(e, sc.VariancesError) and vclass and vclass.startswith('undefined'):
                return got, r
        except Exception as e:  # noqa: BLE001
            ctx.violation('wrong_exception', f'{step}: convert raised {type(e).__name__} (only RuntimeError is '
                          f'documented): {e}', case, exc=type(e).__name__)
            return None
        ctx.event('sequence_step')
        if got != want:
            ctx.violation('refused_derivable' if want == 'ok' else 'answered_underivable',
                          f'{step}: convert {"raised RuntimeError" if got == "refuse" else "returned"} but the model '
                          f'says {want}', case, target=target, origin=origin, **vkeys)
            return None
        return got, r

    if ax.get('origin_form'):
        # not one of the four origins (and no coordinate of that name)
        for c in ax['cls']:
            ctx.hit(STATE_CLASSES[c])
        try:
            r = call(data)
        except Exception as e:  # noqa: BLE001
            ctx.event('unicode:origin')
            ctx.count(f'unicode:origin:refused:{type(e).__name__}')
            return
        ctx.event('unicode:origin')
        # (the property quantifies over the four origins: an answer for another origin name is counted, not judged;
        # the unchanged tree never looks at the origin when the energy mode is inelastic)
        got = target in _item(r).coords or (binned and target in _item(r).bins.coords)
        ctx.count('unicode:origin:answered:' + (mode if got and verdict == 'ok' else 'without_target'))
        return
    # ---- call sequences: what happened to the same objects before this call
    pre, first = ax.get('pre'), None
    try:
        if pre in ('again', 'repr', 'copy', 'eq', 'pickle_graph', 'delete_item'):
            first = first_call(data, verdict, 'first call')
            if first is None:
                return
            if pre == 'delete_item':
                del data['a']
            elif pre != 'again':
                try:
                    g0 = graphs(data, 0)
                except RuntimeError:
                    g0 = CV.conversion_graph(o_arg, t_arg, scatter_arg, 'elastic')
                between_calls(pre, data, first[1], g0, ctx)
        elif pre == 'deepcopy_input':
            data = copy.deepcopy(data)
        elif pre in ('modify_values', 'modify_slice', 'modify_unit'):
            # (k) the very same objects, modified in place between two calls: the second answer is the one for the
            # new contents; (l) the first answer stays what it was
            r1 = first_call(data, verdict, 'first call')
            if r1 is None:
                return
            snap = _derived_snapshot(data, r1[1]) if r1[0] == 'ok' else None
            n_mod = modify_args(pre[7:], data, values, [*present, origin], origin, binned, pixdim, ctx)
            ctx.count(f'inplace:{pre[7:]}:coordinates_written', n_mod)
            if snap and n_mod:
                check_result_keeps(ctx, r1[1], snap, case, vkeys, 'first call')
        elif pre == 'pipeline':
            # a pipeline: first step origin -> an intermediate quantity (or the target), then the caller drops the
            # origin coordinate and converts on, still naming the origin.  What is present then is what the first result
            # carries (read off the data handed to the second call).
            t1 = ax['via']
            v1 = G.decide(origin, t1, scatter, have)[0]
            r1 = first_call(data, v1, f'first step {origin}->{t1}', t=form(t1))
            if r1 is None:
                return
            ctx.count('pipeline:first_step:' + v1)
            if v1 != 'ok':
                return
            data = drop_origin_coord(r1[1], origin, binned)
            found = read_coords(data, binned)
            values = {**values, **found}
            present = [x for x in G.SUBSET if x in found]
            supply, drop_origin = [x for x in found if x not in G.SUBSET], True
            have = [*present, *AUX, *supply]
            verdict, nodes, mode = G.decide(origin, target, scatter, have)
            case.update({'first_step': f'{origin}->{t1}, then {origin} dropped', 'present': present,
                         'also_supplied': supply, 'origin_coordinate_present': False, 'model': verdict,
                         'model_detail': nodes})
        elif pre == 'after_refusal':
            miss = ax['miss']
            saved = data.coords[miss]
            del data.coords[miss]
            v1 = G.decide(origin, target, scatter, [x for x in have if x != miss])[0]
            if first_call(data, v1, f'call without {miss}') is None:
                return
            ctx.count('sequence:first_call:' + v1)
            data.coords[miss] = saved
        elif pre == 'graph_mutated':
            for m in ('elastic', 'direct_inelastic', 'indirect_inelastic'):
                g0 = CV.conversion_graph(o_arg, t_arg, scatter_arg, m)
                g0.clear()
                g0['bogus'] = g0[target] = lambda: None
            try:
                g0 = graphs(data, 0)
                for k in list(g0):
                    g0[k] = lambda: None
                g0['tof'] = lambda wavelength: wavelength
            except RuntimeError:
                pass
    except Exception:  # noqa: BLE001
        ctx.oracle_error(f'C02 sequence {pre}')
        return
    watch.kernels, watch.graph, watch.k_depth = [], None, 0
    try:
        res = call(data)
        outcome = 'ok'
    except RuntimeError as e:
        res, outcome, err = None, 'refuse', e
    except Exception as e:  # noqa: BLE001
        ctx.violation('wrong_exception', f'convert raised {type(e).__name__} (only RuntimeError is documented): {e}',
                      case, exc=type(e).__name__)
        return
    executed = list(watch.kernels)
    used_graph = watch.graph
    ctx.event('convert')
    ctx.count('model:' + verdict)
    if ax:
        for c in ax['cls']:
            ctx.hit((AXIS_CLASSES | HEAVY_CLASSES | STATE_CLASSES | ORIGIN_CLASSES)[c])
            ctx.count(f'class:{c}:{verdict}')
    elif variant is not None:
        ctx.hit(CONTENTS[vkeys['contents']])
        ctx.count(f'contents:{vkeys["contents"]}:{verdict}')
    if outcome == 'refuse' and isinstance(err, sc.VariancesError) and vclass and vclass.startswith('undefined'):
        # scipp's arithmetic does not define this operation for operands with variances (broadcast, sin, vector
        # assembly) and says so with a RuntimeError: counted, nothing to compare
        ctx.count('variances:refused_by_scipp:' + vclass)
        return
    if (outcome == 'refuse' and verdict == 'ok' and isinstance(err, sc.UnitError) and pre == 'modify_unit'
            and target == 'time_at_sample'):
        # pulse_time (us) + time of flight in another time unit: scipp's arithmetic does not convert units in a sum
        # and says so with UnitError, a RuntimeError: counted, nothing to compare
        ctx.count('inplace:unit:sum_of_times_in_two_units_refused_by_scipp')
        return
    if outcome != verdict:
        if verdict == 'ok':
            ctx.violation('refused_derivable', f'convert raised {type(err).__name__} although {target} is derivable '
                          f'from the coordinates present ({err})', case, target=target, origin=origin, **vkeys)
        else:
            ctx.violation('answered_underivable', f'convert returned although {target} is not derivable ({nodes})',
                          case, target=target, origin=origin, **vkeys)
        return
    if first is not None:
        ctx.event('second_use')
        if first[0] != outcome:
            ctx.violation('second_use', f'the same call gave {first[0]} the first time and {outcome} the second time '
                          f'({pre} in between)', case, pre=pre)
        elif outcome == 'ok' and not _same_result(first[1], res, target):
            ctx.violation('second_use', f'the same call gave a different result the second time ({pre} in between)',
                          case, pre=pre)
    # ---- the reported graph is the one that is used
    gstyle = (index // 3) % 3  # positional / keyword / mixed
    try:
        reported = graphs(data, gstyle)
        rep_ok = True
    except RuntimeError:
        reported, rep_ok = None, False
    if verdict == 'refuse':
        # mode errors must be reported by deduce_conversion_graph as well
        return
    if not rep_ok:
        ctx.violation('graph_report', 'deduce_conversion_graph raised although convert succeeded', case)
        return
    if used_graph is not None:
        same = set(map(repr, used_graph.keys())) == set(map(repr, reported.keys())) and all(
            used_graph[k] is reported[k] for k in reported if k in used_graph)
        ctx.event('graph_identity')
        if not same:
            ctx.violation('graph_report', 'the graph handed to transform_coords differs from the one '
                          'deduce_conversion_graph reports', dict(case, used=sorted(map(repr, used_graph)),
                                                                  reported=sorted(map(repr, reported))))
    # the explicit-mode factory must agree with the deduced one
    try:
        m_arg = form(mode)
        explicit = (CV.conversion_graph(o_arg, t_arg, scatter_arg, m_arg) if gstyle == 0 else
                    CV.conversion_graph(origin=o_arg, target=t_arg, scatter=scatter_arg, energy_mode=m_arg)
                    if gstyle == 1 else CV.conversion_graph(o_arg, t_arg, scatter=scatter_arg, energy_mode=m_arg))
        if set(map(repr, explicit)) != set(map(repr, reported)) or any(explicit[k] is not reported[k] for k in reported):
            ctx.violation('graph_report', f'conversion_graph({origin}, {target}, {scatter}, {mode}) differs from the '
                          'graph deduce_conversion_graph reports for data in that mode', case)
        ctx.event('explicit_graph')
    except Exception as e:  # noqa: BLE001
        ctx.violation('graph_report', f'conversion_graph raised {type(e).__name__}: {e}', case)
    table = G.table_for(origin, target, scatter, mode)
    if graph_key_nodes(reported) != set(table):
        ctx.violation('graph_content', f'reported graph nodes {sorted(graph_key_nodes(reported))} differ from the '
                      f'documented rule set {sorted(table)}', case)
    # ---- the reported graph is a transform_coords graph: applied by the caller it gives what convert gave
    if ax or index % 13 == 5:
        try:
            via = data.transform_coords(t_arg, graph=reported)
        except Exception as e:  # noqa: BLE001
            ctx.violation('graph_report', f'transform_coords with the reported graph raised {type(e).__name__} ({e}) '
                          'although convert succeeded', case, via='transform_coords')
        else:
            ctx.event('via_graph')
            a, b = (tuple(get_coord(x, target, binned, w) for w in ('values', 'variances')) for x in (via, res))
            if not all(p[1:] == q[1:] and (p[0] is None) == (q[0] is None) and (
                    p[0] is None or np.array_equal(p[0], q[0], equal_nan=True)) for p, q in zip(a, b, strict=True)):
                ctx.violation('graph_report', f'transform_coords with the reported graph gives a coordinate {target} '
                              'different from the one convert returned', case, via='transform_coords')
    # ---- a supplied coordinate is still the supplied one afterwards (never replaced by a derived one)
    if variant is not None or index % 4 == 2:
        check_supplied(ctx, data, res, [*present, *supply], case, vkeys)
    # ---- kernels that ran = derivation the model predicts (never a quantity of the wrong mode)
    want_k = sorted(expected_kernel(nd, table[nd], mode) for nd in nodes)
    if ax.get('items') == 2:
        # one derivation per item (each item has its own events)
        executed, want_k = sorted(set(executed)), sorted(set(want_k))
    if sorted(executed) != want_k:
        ctx.violation('wrong_kernels', f'kernels executed {sorted(executed)} but the documented derivation needs '
                      f'{want_k}', case, mode=mode, **vkeys)
        return
    # ---- value
    if outer:
        ctx.event('outer_layout')
        return
    try:
        with np.errstate(all='ignore'):
            mv_in = model_values({k: values[k] for k in have})
            if counts is not None and origin in G.used_inputs(target, have, table):
                # several events per pixel: the per-pixel coordinates apply to every event of the pixel
                mv_in = {k: (np.repeat(x, counts, axis=0) if k in PER_PIXEL and k != origin else x)
                         for k, x in mv_in.items()}
            mv = G.evaluate(nodes, mv_in, table, mode)
        want = mv[target]
        got, unit, ev_level = get_coord(res, target, binned)
        if got is None:
            ctx.violation('no_target', f'result has no coordinate {target}', case, **vkeys)
            return
        if target in ('hkl_vec', 'h'):
            f = si.LD(1) if unit == sc.Unit('dimensionless') else None
            if f is None and unit is not None:
                # a pure number written with a scale (1/nm x angstrom): scipp's unit algebra gives the scale
                try:
                    f = si.LD(sc.to_unit(sc.scalar(1.0, unit=unit), 'dimensionless').value)
                except sc.UnitError:
                    f = None
        else:
            f = si.factor(unit) / si.factor(sc.Unit(UNIT[target]))
        if f is None:
            ctx.violation('value', f'{target}: unexpected unit {unit}', case, **vkeys)
            return
        g = got.astype(si.LD) * f
        # the result has one value per selected pixel / event, also when there are none
        if ev_level:
            n_ev = int(counts.sum()) if counts is not None else n if select is None else N_EVENTS[select]
            shape = (n_ev, *np.shape(want)[np.ndim(want) - (target in VECTOR_TARGETS):])
        else:
            shape = np.shape(want)
        if g.shape != shape:
            ctx.violation('value_shape', f'{target} from {origin}: the result coordinate has shape {g.shape}, the '
                          f'coordinates present give {shape}', case, target=target, **vkeys)
            return
        w = np.broadcast_to(want, g.shape) if g.size else g  # no pixel / no event: only the shape is judged
        with np.errstate(all='ignore'):
            if not g.size:
                err = np.zeros(g.shape)
            elif not nodes and (supply or drop_origin):
                # the target itself was supplied: it is the answer, bit for bit
                err = (g != w).astype(np.float64)
            elif target in ('two_theta',):
                err = np.abs(g - w)
            elif target == 'energy_transfer':
                scale = np.maximum(np.abs(w), np.abs(mv.get('incident_energy', mv.get('final_energy'))))
                err = np.abs(g - w) / scale
            elif target == 'time_at_sample':
                err = np.abs(g - w) / (np.abs(mv['pulse_time']) + np.abs(mv['tof']))
            elif g.ndim > 1 or target in VECTOR_TARGETS:
                nrm = geom.norm(w)[..., None] if w.ndim > 1 else geom.norm(w)
                err = np.abs(g - w) / np.where(nrm == 0, 1, nrm)
            else:
                err = si.relerr(g, w)
            # NaN where the formulas give NaN, the same infinity where they give one
            same = (np.isnan(g.astype(np.float64)) & np.isnan(np.asarray(w).astype(np.float64))) | (g == w)
        err = np.where(same, 0, err)
        worst = float(np.max(err)) if err.size else 0.0
        # ---- uncertainty of the target: first-order propagation where that is defined
        vjudged = None
        if vn:
            gv = get_coord(res, target, binned, 'variances')[0]
            if vclass == 'unused':
                vjudged = ('spurious', 0.0) if gv is not None else ('none', 0.0)
            elif vclass == 'defined':
                if gv is None:
                    vjudged = ('lost', 0.0)
                else:
                    wv, decided = G.first_order_variance(target, vn, have, table, mv, mode, vvar)
                    gvl = gv.astype(si.LD) * f * f
                    if gvl.shape != g.shape:
                        vjudged = ('shape', 0.0)
                    else:
                        wv, decided = np.broadcast_to(wv, g.shape), np.broadcast_to(decided, g.shape)
                        with np.errstate(all='ignore'):
                            ve = np.where(decided, np.abs(gvl - wv) / np.abs(wv), 0)
                        ctx.count('undecided:variance', int(np.sum(~decided)))
                        vjudged = ('compared', float(np.max(ve)) if ve.size else 0.0) if np.any(decided) else None
            else:
                ctx.count('variances:not_judged:' + vclass)
    except Exception:  # noqa: BLE001
        ctx.oracle_error(f'C02 value {origin}->{target}')
        return
    # ---- chained conversion: converting the *result* again must still honour the supplied coordinates
    if index % 5 == 0 and variant is None:
        t2 = G.TARGETS[(index // 5) % len(G.TARGETS)]
        v2, nodes2, mode2 = G.decide(origin, t2, scatter, [*present, *AUX, origin])
        case2 = dict(case, chained_after=target, target=t2, model=v2)
        try:
            res2 = scn.convert(res, origin, t2, scatter=scatter_arg)
            out2 = 'ok'
        except RuntimeError as e:
            res2, out2, err2 = None, 'refuse', e
        except Exception as e:  # noqa: BLE001
            ctx.violation('wrong_exception', f'second convert raised {type(e).__name__}: {e}', case2, exc=type(e).__name__)
            out2 = None
        ctx.event('chained')
        if out2 is not None and out2 != v2:
            ctx.violation('chained_outcome', f'converting the result of {origin}->{target} on to {t2}: '
                          f'{"raised RuntimeError" if out2 == "refuse" else "returned"} but on the original data the '
                          f'target is {"derivable" if v2 == "ok" else "not derivable"}', case2, target=t2)
        elif out2 == 'ok' and t2 not in ('hkl_vec', 'h', 'time_at_sample', 'energy_transfer', 'incident_beam',
                                         'scattered_beam', 'Q_vec', 'two_theta'):
            try:
                table2 = G.table_for(origin, t2, scatter, mode2)
                mv2 = G.evaluate(nodes2, model_values({k: values[k] for k in [*present, *AUX, origin]}), table2, mode2)
                g2, u2, _ = get_coord(res2, t2, binned)
                f2 = si.factor(u2) / si.factor(sc.Unit(UNIT[t2]))
                e2 = si.relerr(g2.astype(si.LD) * f2, np.broadcast_to(mv2[t2], g2.shape))
                w2 = float(np.max(e2))
                ctx.dev('chained.' + t2, w2)
                if not (w2 <= 1e-9):
                    ctx.violation('chained_value', f'{t2} obtained by converting the result of {origin}->{target} again '
                                  f'differs by {w2:.3g} from the formulas applied to the coordinates originally '
                                  'supplied (a supplied coordinate takes precedence)', case2, target=t2)
            except Exception:  # noqa: BLE001
                ctx.oracle_error(f'C02 chained {origin}->{target}->{t2}')
    ctx.event('value')
    if ax:
        ctx.event('value:' + ax['family'])
    elif variant is not None:
        ctx.event('value:' + vkeys['contents'])
    ctx.dev(f'value.{target}', worst)
    if not (worst <= 1e-9):
        ctx.violation('value', f'{target} from {origin}: differs from the documented formulas applied to the '
                      f'coordinates present by {worst:.3g} (supplied coordinates take precedence)', case,
                      target=target, origin=origin, **vkeys)
    if vjudged:
        how, x = vjudged
        ctx.event('variance:' + how)
        if how == 'compared':
            ctx.event('variance:' + ('origin' if vn == origin else 'other'))
            ctx.dev(f'variance.{target}', x)
            if not (x <= 1e-9):
                ctx.violation('variance', f'{target} from {origin}: {vn} carries variances; the variance of the '
                              f'result differs by {x:.3g} (relative) from first-order propagation through the '
                              f'documented formula, (d {target} / d {vn})^2 var({vn})', case, target=target,
                              origin=origin, how='value')
        elif how != 'none':
            ctx.violation('variance', f'{target} from {origin}: {vn} carries variances; variances of the result: '
                          + {'lost': 'none although the target depends on it',
                             'spurious': 'present although the target does not depend on it',
                             'shape': 'shape differs from the values'}[how], case, target=target, origin=origin,
                          how=how)
    # ---- (l) the result and the arguments are values of their own
    if ax and ax['family'] not in ('heavy', 'origin'):
        alias_checks(ctx, data, res, call, values, present, origin, binned, pixdim, case, vkeys)


_SCALAR_LEAVES = ('L1', 'incident_energy')
_NODE_DIMS = ('Ltotal', 'wavelength', 'two_theta')
_GENERIC_DIMS = ('event', 'x', 'row')
_POSITIONS = ['position', 'source_position', 'sample_position']
FAMILIES = ('variances', 'masks', 'dims', 'items', 'names', 'second', 'between', 'subclass', 'ragged')


def _subset_index(base, sub):
    return base * 2048 + sum(_BIT[x] for x in set(sub))


def axis_plan(seed):
    """[(index, variant)] for the classes of AXIS_CLASSES.  For every (origin, target, scatter): everything
    supplied, the shallowest sufficient subset(s), positions only, one subset the model refuses (a member of the
    shallowest subset removed) and one with a second / bystander energy coordinate; on each of them one case per
    class family (sub-classes rotate separately for derivable and refused configurations, so each meets both), and
    - where the target is derivable - one or more cases per non-vector coordinate the derivation reads, carrying
    variances."""
    rng = np.random.Generator(np.random.PCG64([seed, 97]))
    out, rot, seen = [], {}, set()

    def nxt(key, options):
        k = rot.get(key, 0)
        rot[key] = k + 1
        return options[k % len(options)]

    def emit(index, axis, container=None, binned=None, select=None):
        j = len(out)
        v = {'container': container or ('dataarray', 'dataset')[j % 2],
             'binned': bool((j // 2) % 2) if binned is None else binned, 'copy': j % 8 >= 4, 'axis': axis}
        if select:
            v['select'] = select
        out.append((index, v))

    for base in range(4 * 16 * 2):
        origin, target, scatter, _ = config_of(base * 2048)
        en = ('incident_energy', 'final_energy')[(base // 2) % 2]
        other = ('incident_energy', 'final_energy')[1 - (base // 2) % 2]
        extra = [en] if target == 'energy_transfer' else []
        subsets = [[*G.SUBSET[:9], *extra], [*_POSITIONS, *extra]]
        shallow = []
        for mode in (('direct_inelastic', 'indirect_inelastic') if target == 'energy_transfer' else ('elastic',)):
            sh = G.shallow_inputs(target, G.rules(origin, target, scatter, mode), given=(origin, *AUX))
            if sh:
                shallow.append(sh)
        subsets += shallow
        if shallow:
            sh = shallow[0]
            drop = sh[int(rng.integers(len(sh)))]
            subsets.append([x for x in sh if x != drop])
        subsets.append([*G.SUBSET[:9], *extra, other if extra else en])
        for sub in subsets:
            index = _subset_index(base, sub)
            if index in seen:
                continue
            seen.add(index)
            present = [x for x in G.SUBSET if x in sub]
            have = [*present, *AUX, origin]
            verdict, nodes, mode = G.decide(origin, target, scatter, have)
            leaves = []
            if verdict == 'ok':
                leaves = G.used_inputs(target, have, G.table_for(origin, target, scatter, mode))
                # ---- (a) variances
                for leaf in leaves:
                    if leaf in VECTORS or leaf in AUX:
                        continue
                    if leaf == origin:
                        layouts = [(False, None, 'var:origin:dense'), (True, None, 'var:origin:events'),
                                   (*nxt('var-single', [(False, 'scalar'), (True, 'scalar'), (False, 'one'),
                                                        (True, 'one')]), 'var:origin:single')]
                    elif leaf in _SCALAR_LEAVES:
                        layouts = [(False, 'scalar', 'var:scalar'),
                                   (*nxt('var-scalar', [(False, None), (True, None), (True, 'scalar'), (False, 'one')]),
                                    'var:scalar')]
                    else:
                        layouts = [(False, None, 'var:perpixel'),
                                   (*nxt('var-pp', [(True, None), (False, 'scalar'), (False, 'one'), (True, 'one'),
                                                    (True, 'scalar')]), 'var:perpixel')]
                    for binned, select, cls in layouts:
                        datavar = nxt('datavar', [False, True, False])
                        emit(index, {'family': 'variances', 'cls': [cls, *(['var:data'] if datavar else [])],
                                     'var': leaf, 'datavar': datavar}, binned=binned, select=select)
            idle = [x for x in present if x not in leaves and x not in VECTORS]
            if idle and verdict == 'ok':
                emit(index, {'family': 'variances', 'cls': ['var:bystander'], 'var': nxt('idle', idle)},
                     select=nxt('idle-select', [None, None, 'scalar']))
            # ---- (b) masks
            m, b = nxt(('masks', verdict), [('pixel', False), ('bin', True), ('event', True), ('both', False),
                                            ('both', True)])
            emit(index, {'family': 'masks', 'cls': ['masks:' + m], 'masks': m}, binned=b)
            # ---- (c) dimension names
            cls, pd, ed, b = nxt(('dims', verdict), [
                ('dims:origin', origin, None, False), ('dims:target', target, None, False),
                ('dims:node', nxt('node', _NODE_DIMS), None, False),
                ('dims:generic', nxt('generic', _GENERIC_DIMS), None, False),
                ('dims:event', None, origin, True), ('dims:event', None, target, True),
                ('dims:event', None, 'pixel', True), ('dims:event', 'event', 'x', True),
                ('dims:origin', origin, 'event', True), ('dims:target', target, origin, True)])
            axis = {'family': 'dims', 'cls': [cls], 'pixdim': pd}
            if ed:
                axis['evdim'] = ed
            emit(index, axis, binned=b)
            # ---- containers: number of items
            it, b = nxt(('items', verdict), [(0, False), ('deleted', False), (2, False), (2, True)])
            axis = {'family': 'items', 'cls': [f'items:{it}'], 'items': it}
            if it == 'deleted':
                axis['pre'] = 'delete_item'
            emit(index, axis, container='dataset', binned=b)
            # ---- (e) names
            form = nxt(('names', verdict), list(NAME_FORMS))
            emit(index, {'family': 'names', 'cls': ['names:' + form], 'names': form})
            # ---- (g) second use
            pre = nxt(('second', verdict), ['again', 'after_refusal', 'graph_mutated', 'deepcopy_input'])
            axis = {'family': 'second', 'cls': ['second:' + pre], 'pre': pre}
            if pre == 'after_refusal':
                cand = [x for x in (leaves or present) if x in present]
                if cand:
                    axis['miss'] = nxt('miss', cand)
                else:
                    axis.update(pre='again', cls=['second:again'])
            emit(index, axis)
            # ---- (j) display / copy / comparison / serialisation between two calls
            pre = nxt(('between', verdict), ['repr', 'copy', 'eq', 'pickle_graph'])
            emit(index, {'family': 'between', 'cls': ['between:' + pre], 'pre': pre})
            # ---- (i) caller's subclass of the container classes
            emit(index, {'family': 'subclass', 'cls': ['subclass'], 'subclass': True})
            # ---- bins of different sizes
            emit(index, {'family': 'ragged', 'cls': ['ragged'],
                         'counts': nxt('ragged', [[2, 0, 3], [0, 1, 4], [3, 2, 0], [1, 0, 0]])}, binned=True)
    return out


def heavy_plan(seed):
    """Per run, on a shard of its own: for each of three large layouts one conversion per origin, the target
    drawn from those derivable from positions (+ incident energy)."""
    rng = np.random.Generator(np.random.PCG64([seed, 96]))
    big = (1 << 20) + 7
    cut = np.sort(rng.integers(1, big, size=3))
    ragged = np.diff([0, *cut, big]).tolist()
    ragged.insert(int(rng.integers(5)), 0)
    layouts = [('heavy:dense', {'n': big}, False), ('heavy:events', {'n': 3, 'counts': [400001] * 3}, True),
               ('heavy:ragged', {'n': 5, 'counts': ragged}, True)]
    out = []
    for cls, lay, binned in layouts:
        for origin in G.ORIGINS:
            sub = [*_POSITIONS, 'incident_energy']
            ok = [(t, s) for t in G.TARGETS for s in (True, False)
                  if t not in G.GEOMETRY_TARGETS and G.decide(
                      origin, t, s, [*(sub if t == 'energy_transfer' else _POSITIONS), *AUX, origin])[0] == 'ok']
            t, s = ok[int(rng.integers(len(ok)))]
            base = ((G.ORIGINS.index(origin) * 16 + G.TARGETS.index(t)) * 2 + int(s))
            index = _subset_index(base, sub if t == 'energy_transfer' else _POSITIONS)
            out.append((index, {'container': ('dataarray', 'dataset')[len(out) % 2], 'binned': binned, 'copy': False,
                                'axis': {'family': 'heavy', 'cls': [cls], **lay}}))
    return out


# ------------------------------------------------------------ state / aliasing / naming classes ---
# The returned target is "what the documented formulas give from the coordinates that were present" at the time of
# the call: a value of its own.  Classes in which that can fail although the values compared right after the call
# are right (result sharing memory with an argument, answers remembered per object), plus forced geometry / size /
# spelling classes.  Deterministic parts of every run (state_plan()).
STATE_CLASSES = {
    'inplace:values': 'every supplied coordinate modified in place (+= / *=) between two calls on the same object',
    'inplace:slice': 'one pixel of every supplied per-pixel coordinate modified in place between two calls',
    'inplace:unit': 'unit of the origin coordinate changed in place between two calls',
    'neutral:sample': 'sample exactly at the origin (0-d zero vector in the unit of the positions)',
    'neutral:source': 'source exactly at the origin (0-d zero vector in the unit of the positions)',
    'neutral:L1': 'supplied L1 exactly zero',
    'neutral:pulse_time': 'pulse_time exactly zero',
    'sizes': 'number of pixels 2 / 4 / 8 / 9 / 10 (around the lengths of vectors and 3x3 matrices)',
    'unicode:target': 'target spelled with compatibility characters that merely normalise (NFKC) to a target name',
    'unicode:origin': 'origin spelled with compatibility characters that merely normalise (NFKC) to an origin name',
    'unicode:coord': 'a coordinate whose name merely normalises (NFKC) to a geometry / energy coordinate name',
}
STATE_FAMILIES = ('inplace', 'neutral', 'sizes', 'unicode')
ALIAS_EVENTS = ('alias:argument_written', 'alias:result_written', 'alias:repeat')
_UNIT2 = {'tof': ('ms', 1e3), 'wavelength': ('nm', 10.0), 'energy': ('eV', 1e3), 'Q': ('1/nm', 0.1)}
_FULLWIDTH = {chr(c): chr(c + 0xFEE0) for c in range(0x21, 0x7F)}
_COMPAT = {'h': '\u210e', 'l': '\u2113', '1': '\u00b9', '2': '\u2082', 'Q': '\uff31'}


def lookalike(name, k=0):
    """A string that is not `name` but normalises (NFKC) to it: fullwidth first letter / fi ligature, letter-like
    symbols (PLANCK CONSTANT, SCRIPT SMALL L, KELVIN SIGN), superscript / subscript digits / all fullwidth."""
    import unicodedata

    forms = [_FULLWIDTH[name[0]] + name[1:], ''.join(_FULLWIDTH[c] for c in name)]
    if 'fi' in name:
        forms.append(name.replace('fi', '\ufb01'))
    sub = ''.join(_COMPAT.get(c, c) for c in name)
    if sub != name:
        forms.append(sub)
    forms.append(name[:-1] + _FULLWIDTH[name[-1]])
    out = forms[k % len(forms)]
    assert out != name and unicodedata.normalize('NFKC', out) == name
    return out


def _class_subsets(seed):
    """The coordinate subsets of axis_plan(): (base, index, present, verdict, nodes, mode, leaves)."""
    rng = np.random.Generator(np.random.PCG64([seed, 97]))
    seen = set()
    for base in range(4 * 16 * 2):
        origin, target, scatter, _ = config_of(base * 2048)
        en = ('incident_energy', 'final_energy')[(base // 2) % 2]
        other = ('incident_energy', 'final_energy')[1 - (base // 2) % 2]
        extra = [en] if target == 'energy_transfer' else []
        subsets = [[*G.SUBSET[:9], *extra], [*_POSITIONS, *extra]]
        shallow = []
        for mode in (('direct_inelastic', 'indirect_inelastic') if target == 'energy_transfer' else ('elastic',)):
            sh = G.shallow_inputs(target, G.rules(origin, target, scatter, mode), given=(origin, *AUX))
            if sh:
                shallow.append(sh)
        subsets += shallow
        if shallow:
            sh = shallow[0]
            drop = sh[int(rng.integers(len(sh)))]
            subsets.append([x for x in sh if x != drop])
        subsets.append([*G.SUBSET[:9], *extra, other if extra else en])
        for sub in subsets:
            index = _subset_index(base, sub)
            if index in seen:
                continue
            seen.add(index)
            present = [x for x in G.SUBSET if x in sub]
            have = [*present, *AUX, origin]
            verdict, nodes, mode = G.decide(origin, target, scatter, have)
            leaves = []
            if verdict == 'ok':
                leaves = G.used_inputs(target, have, G.table_for(origin, target, scatter, mode))
            yield base, index, present, verdict, nodes, mode, leaves


def state_plan(seed):
    """[(index, variant)] for STATE_CLASSES, on the coordinate subsets of axis_plan(): per subset one case of each
    family; sub-classes rotate separately for derivable and refused configurations.  Every case of these families
    ends with the aliasing checks (write into the result, look at the arguments, repeat the call)."""
    out, rot = [], {}

    def nxt(key, options):
        k = rot.get(key, 0)
        rot[key] = k + 1
        return options[k % len(options)]

    def emit(index, axis, verdict, select=None):
        # container x layout x (slice copied or not) rotate per class, separately for derivable / refused
        j = nxt(('layout', axis['cls'][0], verdict), range(8))
        v = {'container': ('dataarray', 'dataset')[j % 2], 'binned': bool((j // 2) % 2), 'copy': j >= 4, 'axis': axis}
        if select:
            v['select'] = select
        out.append((index, v))

    for _base, index, present, verdict, _nodes, _mode, leaves in _class_subsets(seed):
        origin, target, scatter, _ = config_of(index)
        # ---- (k)/(l) arguments modified in place between two calls on the same objects
        how = nxt(('inplace', verdict), ['values', 'slice', 'unit', 'values'])
        emit(index, {'family': 'inplace', 'cls': ['inplace:' + how], 'pre': 'modify_' + how}, verdict,
             select=nxt(('inplace-select', verdict), [None, None, None, 'one', None, 'scalar'])
             if how != 'slice' else None)
        # ---- neutral elements of the formulas: x - 0, 0 + x
        read = leaves if verdict == 'ok' else present
        cand = [c for c, names in (('neutral:sample', ['sample_position']), ('neutral:source', ['source_position']),
                                   ('neutral:L1', ['L1']),
                                   ('neutral:sample', ['sample_position']))
                if all(x in read for x in names)]
        if 'pulse_time' in read:  # (few configurations read it: all of them get this class)
            cand = ['neutral:pulse_time']
        if cand:
            c = nxt(('neutral', verdict), cand)
            nm = {'sample': 'sample_position', 'source': 'source_position'}.get(c.split(':')[1], c.split(':')[1])
            axis = {'family': 'neutral', 'cls': [c], 'neutral': nm}
            emit(index, axis, verdict, select=nxt(('neutral-select', c, verdict), [None, None, None, 'scalar', None, 'one', None]))
        # ---- (p) numbers of pixels around the lengths the implementation has inside (3-vectors, 3x3 matrices)
        emit(index, {'family': 'sizes', 'cls': ['sizes'], 'n': nxt(('sizes', verdict), [2, 4, 8, 9, 10])}, verdict)
        # ---- (n) names that are not the documented names but normalise to them
        what = nxt(('unicode', verdict), ['target', 'coord', 'origin', 'coord'])
        k = nxt('unicode-form', [0, 1, 2, 3, 4])
        pool = [x for x in read if x in present]
        if what == 'coord' and not pool:
            what = 'target'
        axis = {'family': 'unicode', 'cls': ['unicode:' + what]}
        if what == 'coord':
            nm = nxt('unicode-coord', pool)
            axis['lookalike'] = (nm, lookalike(nm, k))
        else:
            axis[what + '_form'] = lookalike(origin if what == 'origin' else target, k)
        emit(index, axis, verdict)
    # a neutral element only shows where the quantity that consumes it is computed: supplied lengths without their
    # sum (L1 = 0, Ltotal derived), for every (origin, target, scatter)
    for base in range(4 * 16 * 2):
        origin, target, scatter, _ = config_of(base * 2048)
        sub = [x for x in G.SUBSET[:9] if x != 'Ltotal']
        if target == 'energy_transfer':
            sub.append(('incident_energy', 'final_energy')[(base // 2) % 2])
        index = _subset_index(base, sub)
        verdict = G.decide(origin, target, scatter, [*sub, *AUX, origin])[0]
        emit(index, {'family': 'neutral', 'cls': ['neutral:L1'], 'neutral': 'L1'}, verdict,
             select=nxt(('neutral-select', 'neutral:L1', verdict), [None, None, None, 'scalar', None, 'one', None]))
    return out


# ------------------------------------------------------------ origin coordinate absent / intermediates supplied ---
# "returns the target ... from the coordinates that were present (a supplied coordinate takes precedence over one that
# could be derived), or raises RuntimeError because the target is not derivable from what was supplied": the origin
# names the graph, it is not a precondition.  Data that carry an intermediate quantity of the derivation (or the target
# itself) need not carry the origin coordinate; data that carry both get the supplied intermediate, not the derived one.
ORIGIN_CLASSES = {
    'no_origin:intermediate': 'origin coordinate absent, an intermediate quantity of the derivation supplied',
    'no_origin:target': 'origin coordinate absent, the target coordinate itself supplied',
    'no_origin:nothing': 'origin coordinate absent, geometry / energy coordinates only',
    'no_origin:pipeline': 'second step of a pipeline: converted to an intermediate quantity / the target, origin '
                          'coordinate dropped, converted on under the same origin name',
    'with_origin:intermediate': 'origin coordinate present and an intermediate quantity of the derivation supplied',
    'with_origin:target': 'origin coordinate present and the target coordinate itself supplied',
}
_GROUPS = {'Qxyz': ['Qx', 'Qy', 'Qz'], 'hkl': ['h', 'k', 'l']}


def extra_values(rng, n):
    """Random values (inconsistent with everything else) for the quantities convert() can compute."""
    v = {'dspacing': rng.uniform(0.5, 5, size=n), 'energy_transfer': rng.uniform(-5, 15, size=n),
         'time_at_sample': rng.uniform(1e4, 2e5, size=n), 'Q_vec': rng.normal(size=(n, 3)) * 2,
         'hkl_vec': rng.normal(size=(n, 3)) * 3}
    for nm in ('Qx', 'Qy', 'Qz'):
        v[nm] = rng.normal(size=n) * 2
    for nm in ('h', 'k', 'l'):
        v[nm] = rng.normal(size=n) * 3
    return v


_MODEL_UNIT = {**UNIT, 'position': 'm', 'source_position': 'm', 'sample_position': 'm', 'incident_energy': 'meV',
               'final_energy': 'meV'}


def drop_origin_coord(res, origin, binned):
    """`res` without the coordinate `origin` (dense or event coordinate), by the documented scipp calls."""
    def one(da):
        if da.bins is not None and origin in da.bins.coords:
            da = da.bins.drop_coords(origin)
        return da.drop_coords(origin) if origin in da.coords else da

    if isinstance(res, sc.Dataset):
        if len(res) == 0:
            return res.drop_coords(origin) if origin in res.coords else res
        return sc.Dataset({k: one(v) for k, v in res.items()})
    return one(res)


def read_coords(data, binned):
    """{name: long double values in the units of the model} of every coordinate of `data` the model knows."""
    obj = _item(data)
    names = list(obj.coords)
    if isinstance(obj, sc.DataArray) and obj.bins is not None:
        names += list(obj.bins.coords)
    out = {}
    for nm in names:
        if nm not in _MODEL_UNIT or nm in AUX:
            continue
        vals, unit, _ = get_coord(data, nm, binned)
        want = sc.Unit(_MODEL_UNIT[nm])
        f = si.LD(1) if unit == want else si.factor(unit) / si.factor(want)
        out[nm] = np.asarray(vals).astype(si.LD) * f
    return out


def derivation_nodes(origin, target, table):
    """The quantities on the way from the coordinates of the quantifier to `target` (target first): every name the
    derivation of `target` may read that is neither one of the 11 geometry / energy coordinates, nor an auxiliary
    input, nor the origin."""
    out = []

    def walk(name):
        node = G.node_of(name)
        if name in AUX or name in G.SUBSET or name == origin or node in out:
            return
        out.append(node)
        for inp in table.get(node, ()):
            walk(inp)

    walk(target)
    return out


def origin_plan(seed):
    """[(index, variant)]: for every (origin, target, scatter) and every quantity of the derivation (from the
    executable model): that quantity supplied - without the origin coordinate on the geometry subset from which the
    model then derives the target and on one other subset, with the origin coordinate on one subset - and the origin
    coordinate absent with nothing else supplied (everything / positions only)."""
    out, rot = [], {}

    def nxt(key, options):
        k = rot.get(key, 0)
        rot[key] = k + 1
        return options[k % len(options)]

    def emit(base, sub, cls, supply, drop, **more):
        index = _subset_index(base, sub)
        origin, target, scatter, _ = config_of(index)
        have = [*sub, *AUX, *supply, *(() if drop else (origin,))]
        verdict = G.decide(origin, target, scatter, have)[0]
        j = nxt(('layout', cls, verdict), range(4))
        out.append((index, {'container': ('dataarray', 'dataset')[j % 2], 'binned': bool(j // 2), 'copy': False,
                            'axis': {'family': 'origin', 'cls': [cls], 'supply': supply, 'drop_origin': drop,
                                     **more}}))

    for base in range(4 * 16 * 2):
        origin, target, scatter, _ = config_of(base * 2048)
        en = ('incident_energy', 'final_energy')[(base // 2) % 2]
        extra = [en] if target == 'energy_transfer' else []
        mode = {'incident_energy': 'direct_inelastic', 'final_energy': 'indirect_inelastic'}[en] if extra else 'elastic'
        table = G.rules(origin, target, scatter, mode)
        full, pos = [*G.SUBSET[:9], *extra], [*_POSITIONS, *extra]
        for sub in (full, pos):
            emit(base, sub, 'no_origin:nothing', [], True)
        dn = derivation_nodes(origin, target, table)
        # a pipeline through a quantity that is not on the way to the target (mostly: nothing to go on from there)
        via = nxt('pipe-off', [x for x in ('wavelength', 'energy', 'dspacing', 'Q')])
        if via not in dn and via != origin and 'energy' not in (via, target):
            emit(base, nxt(('pipe', 'off'), [full, pos]), 'no_origin:pipeline', [], False, pre='pipeline', via=via)
        for node in dn:
            supply = _GROUPS.get(node, [node])
            kind = 'target' if G.node_of(target) == node else 'intermediate'
            sh = G.shallow_inputs(target, table, given=(*supply, *AUX))
            subs = [[*sh, *extra]] if sh is not None else []
            subs += [full, pos, extra] if kind == 'intermediate' else [nxt(('other', kind), [full, pos, extra, full])]
            if 'energy' in (origin, target):
                subs.append([*pos, en])          # elastic energy on data with an inelastic coordinate: ambiguous
            elif extra:
                subs += [pos, [*pos, 'incident_energy', 'final_energy']]   # no / both fixed energies: mode undetermined
            done = []
            for sub in subs:
                if set(sub) not in done:
                    done.append(set(sub))
                    emit(base, sub, 'no_origin:' + kind, supply, True)
            emit(base, nxt(('with', kind), [full, pos, [*(sh or ()), *extra]]), 'with_origin:' + kind, supply, False)
            via = target if kind == 'target' else supply[0]
            if via in G.TARGETS:
                emit(base, nxt(('pipe', kind), [full, pos]), 'no_origin:pipeline', [], False, pre='pipeline', via=via)
    return out


# ------------------------------------------------------------ first call in a fresh interpreter ---
# (o) The answer does not depend on what the process imported or called before: a new interpreter that imports only
# numpy / scipp (to hold the data) and the module that defines convert() gives, on its first calls, the outcome the
# model predicts and bit for bit the coordinate the worker process gets for the same data.
_FRESH_BUILD = r"""
import numpy as np
import scipp as sc


def fresh_build(spec):
    coords = {}
    for name, (kind, unit, x) in spec['coords'].items():
        x = np.asarray(x, dtype=np.float64)
        if kind == 'vectors':
            coords[name] = sc.vectors(dims=['pixel'], values=x, unit=unit)
        elif kind == 'vector':
            coords[name] = sc.vector(x, unit=unit)
        elif kind == 'matrix':
            coords[name] = sc.spatial.linear_transform(value=x, unit=unit)
        elif kind == 'scalar':
            coords[name] = sc.scalar(float(x), unit=unit)
        else:
            coords[name] = sc.array(dims=['pixel'], values=x, unit=unit)
    n = spec['n']
    return sc.DataArray(sc.ones(dims=['pixel'], shape=[n], unit='counts'), coords=coords)


def fresh_result(fn, da, call):
    try:
        r = fn(da, call['origin'], call['target'], call['scatter'])
    except RuntimeError:
        return {'outcome': 'refuse'}
    except Exception as e:
        return {'outcome': 'other', 'exc': type(e).__name__, 'msg': str(e)[:300]}
    c = r.coords[call['target']]
    return {'outcome': 'ok', 'unit': str(c.unit), 'dtype': str(c.dtype), 'shape': list(c.values.shape),
            'values': [float(v).hex() for v in np.asarray(c.values, dtype=np.float64).ravel()]}
"""
_FRESH_MAIN = r"""
import json
import sys

spec = json.loads(sys.stdin.read())
das = [fresh_build(c['data']) for c in spec['calls']]
print('READY', flush=True)
try:
    from scippneutron.core.conversions import convert
except BaseException as e:
    print(json.dumps({'import_error': type(e).__name__, 'msg': str(e)[:300]}), flush=True)
    raise SystemExit(0)
for da, call in zip(das, spec['calls']):
    print(json.dumps(fresh_result(convert, da, call)), flush=True)
"""


def _fresh_spec(values, names, origin, n):
    coords = {}
    for nm in names:
        x = np.asarray(values[nm], dtype=np.float64)
        unit = {'incident_energy': 'meV', 'final_energy': 'meV', 'position': 'm', 'source_position': 'm',
                'sample_position': 'm', 'ub_matrix': '1/angstrom', 'sample_rotation': 'dimensionless',
                'pulse_time': 'us'}.get(nm) or UNIT[nm]
        kind = ('matrix' if nm in ('ub_matrix', 'sample_rotation') else 'vectors' if x.ndim == 2 else
                'vector' if x.shape == (3,) and nm in VECTORS else 'scalar' if x.ndim == 0 else 'array')
        coords[nm] = (kind, unit, x.tolist())
    return {'coords': coords, 'n': n}


def fresh_interpreter(ctx, shard, scn):
    import json
    import subprocess
    import sys

    part = shard['part']
    rng = np.random.Generator(np.random.PCG64([shard['seed'], 94, part]))
    origin = G.ORIGINS[part % 4]
    calls, models = [], []
    # the first call is one the model answers with a quantity of another kind than the origin (not a geometry
    # target: the conversion itself runs); the others are drawn from all targets x scatter (refusals included)
    for k in range(3):
        for _ in range(200):
            target = G.TARGETS[int(rng.integers(len(G.TARGETS)))]
            scatter = bool(rng.integers(2))
            sub = [*_POSITIONS, *(['incident_energy', 'final_energy'][int(rng.integers(2)):][:1]
                                  if target == 'energy_transfer' or rng.random() < 0.2 else [])]
            have = [*sub, *AUX, origin]
            verdict, _nodes, _mode = G.decide(origin, target, scatter, have)
            if k > 0 or (verdict == 'ok' and target != origin and target not in G.GEOMETRY_TARGETS):
                break
        values = make_values(rng, origin, N)
        calls.append({'origin': origin, 'target': target, 'scatter': scatter,
                      'data': _fresh_spec(values, have, origin, N)})
        models.append(verdict)
    ns = {}
    exec(_FRESH_BUILD, ns)  # noqa: S102  (the same builder source the new interpreter runs)
    try:
        proc = subprocess.run([sys.executable, '-c', _FRESH_BUILD + _FRESH_MAIN], input=json.dumps({'calls': calls}),  # noqa: S603
                              capture_output=True, text=True, timeout=300, check=False)
        lines = proc.stdout.splitlines()
        if not lines or lines[0] != 'READY':
            raise RuntimeError(f'harness failed before the package was imported: {proc.stderr[-500:]}')
        got = [json.loads(x) for x in lines[1:]]
        mine = [ns['fresh_result'](scn.convert, ns['fresh_build'](c['data']), c) for c in calls]
    except Exception:  # noqa: BLE001
        ctx.oracle_error('C02 fresh interpreter')
        return
    ctx.hit(FRESH_CLASS)
    case = {'class': 'fresh interpreter', 'part': part,
            'calls': [{k: v for k, v in c.items() if k != 'data'} | {'present': sorted(c['data']['coords'])}
                      for c in calls], 'model': models}
    if got and 'import_error' in got[0]:
        ctx.event('fresh_interpreter')
        ctx.violation('fresh_interpreter', f'a new interpreter cannot import the module that defines convert(): '
                      f'{got[0]["import_error"]}: {got[0]["msg"]}', case, how='import')
        return
    for k, (c, want) in enumerate(zip(calls, models, strict=True)):
        ctx.event('fresh_interpreter')
        label = f'call {k + 1} in a new interpreter ({c["origin"]} -> {c["target"]}, scatter={c["scatter"]})'
        if k >= len(got):
            ctx.violation('fresh_interpreter', f'{label}: the interpreter ended without an answer '
                          f'(exit code {proc.returncode}): {proc.stderr[-300:]}', case, how='crash')
            return
        g = got[k]
        if g['outcome'] != want:
            ctx.violation('fresh_interpreter', f'{label}: outcome {g["outcome"]} {g.get("exc", "")} {g.get("msg", "")}, '
                          f'the model says {want}', case, how='outcome')
        elif g != mine[k]:
            ctx.violation('fresh_interpreter', f'{label}: the coordinate differs from the one the worker process '
                          f'obtains for the same data ({g} / {mine[k]})', case, how='value')
        ctx.count(f'fresh:{want}')


FRESH_CLASS = 'first calls in a new interpreter that imported only the module of convert()'


def quick_indices(rng):
    idx = set()
    small = [s for s in range(2048) if bin(s).count('1') <= 2 or bin(s).count('1') >= 9]
    for base in range(4 * 16 * 2):
        for s in small:
            idx.add(base * 2048 + s)
    extra = rng.integers(0, n_configs(), size=45000)
    idx.update(int(x) for x in extra)
    return sorted(idx)


def plan(tier, seed):
    n = 16
    # the last shard holds the heavy cases of the run (sizes beyond 2**20) and nothing else
    return [*({'part': i, 'parts': n} for i in range(n)), {'part': n, 'parts': n, 'heavy': True}]


def requirements(tier):
    ev = {'convert': 5000, 'value': 1000, 'graph_identity': 1000, 'outer_layout': 100, 'chained': 200,
          'supplied_kept': 5000, 'via_graph': 1000, 'second_use': 300, 'sequence_step': 300,
          'variance:compared': 150, 'variance:origin': 100, 'variance:other': 40, 'variance:none': 20}
    # every contents class reached the value comparison, not only the outcome
    ev.update({'value:' + k: n for k, n in (('empty', 200), ('one', 50), ('scalar', 50), ('noevents', 50),
                                            ('nan_all', 300), ('nan_some', 100), ('inf_all', 50), ('zero_all', 50),
                                            ('one+nan_all', 30), ('scalar+nan_all', 30))})
    ev.update({'value:' + f: 100 for f in FAMILIES})
    ev['value:heavy'] = 12
    ev.update({'value:inplace': 100, 'value:neutral': 60, 'value:sizes': 100, 'value:unicode': 30,
               'unicode:origin': 50, 'fresh_interpreter': 12, 'alias:argument_written': 1000, 'alias:result_written': 1000,
               'alias:repeat': 1000, 'value:origin': 300})
    counters = {'model:ok': 1000, 'model:refuse': 1000, 'contents:empty:ok': 200, 'contents:empty:refuse': 200}
    # every class met derivable and refused configurations (variances: derivable only)
    for c in AXIS_CLASSES:
        counters[f'class:{c}:ok'] = 5
        if not c.startswith('var:') and c != 'second:after_refusal':
            counters[f'class:{c}:refuse'] = 5
    for c in ORIGIN_CLASSES:
        counters[f'class:{c}:ok'] = 20
    counters.update({'class:no_origin:nothing:refuse': 20, 'class:no_origin:target:refuse': 10,
                     'class:no_origin:intermediate:refuse': 3, 'class:no_origin:pipeline:refuse': 5})
    for c in STATE_CLASSES:
        if c not in ('unicode:target', 'unicode:origin'):
            counters[f'class:{c}:ok'] = 5 if c != 'neutral:pulse_time' else 3
        if c not in ('unicode:origin', 'neutral:pulse_time'):
            counters[f'class:{c}:refuse'] = 5
    counters['inplace:values:coordinates_written'] = 100
    counters['inplace:slice:coordinates_written'] = 100
    counters['inplace:unit:coordinates_written'] = 50
    return {'events': ev, 'counters': counters,
            'forced': ['supplied coordinates unaligned', *CONTENTS.values(), *AXIS_CLASSES.values(),
                       *HEAVY_CLASSES.values(), *STATE_CLASSES.values(), *ORIGIN_CLASSES.values(), FRESH_CLASS]}


def _run_variants(ctx, shard, items, run_one, tag_of, max_samples):
    for k, (index, variant) in enumerate(items):
        before = ctx.n_violations
        run_one(k, index, variant)
        ctx.case((index, *tag_of(variant), variant['container'], variant['binned']))
        if k < 2 or (ctx.n_violations > before and len(ctx.samples) < max_samples):
            o, t, s, p = config_of(index)
            ctx.sample({'index': index, 'origin': o, 'target': t, 'scatter': s, 'present': p, 'variant': variant})


def run(shard, ctx):
    import scipp.coords as SCC
    import scippneutron as scn
    from scippneutron.conversion import beamline as KB
    from scippneutron.conversion import tof as KT
    from scippneutron.core import conversions as CV

    rng = np.random.Generator(np.random.PCG64([shard['seed'], shard['index'], 2]))
    heavy = bool(shard.get('heavy'))
    if heavy:
        todo = []
    elif shard['tier'] == 'thorough':
        todo = range(shard['part'], n_configs(), shard['parts'])
        ctx.extra['exhaustive'] = True
        ctx.extra['configurations_total'] = n_configs()
    else:
        allq = quick_indices(np.random.Generator(np.random.PCG64([shard['seed'], 99])))
        todo = allq[shard['part']::shard['parts']]
        ctx.extra['configurations_total'] = n_configs()
        ctx.extra['configurations_in_quick'] = len(allq)
    watch = Watch()
    tr = Tracer()
    for name in KERNEL_NODE:
        mod = KT if hasattr(KT, name) else KB
        tr.watch(getattr(mod, name), name, on_start=watch.kernel_start, on_return=watch.kernel(name))
    tr.watch(SCC.transform_coords, 'transform_coords', on_start=watch.transform)

    def axis_tag(variant):
        ax = variant['axis']
        return ('class', *ax['cls'], variant.get('select', ''), ax.get('var', ''), ax.get('pixdim', ''),
                ax.get('evdim', ''))

    with tr:
        if heavy:
            hplan = heavy_plan(shard['seed'])
            ctx.extra['heavy_cases'] = len(hplan)

            def one(k, index, variant):
                vrng = np.random.Generator(np.random.PCG64([shard['seed'], index, 5, k]))
                run_config(vrng, ctx, scn, CV, watch, index, tr, variant=variant)

            _run_variants(ctx, shard, hplan, one, axis_tag, 8)
            return
        for k, index in enumerate(todo):
            before = ctx.n_violations
            run_config(rng, ctx, scn, CV, watch, index, tr)
            o, t, s, p = config_of(index)
            ctx.case(index)
            if k < 2 or (ctx.n_violations > before and len(ctx.samples) < 6):
                ctx.sample({'index': index, 'origin': o, 'target': t, 'scatter': s, 'present': p})
        # degenerate contents of the supplied coordinates (both tiers, the same deterministic classes)
        vplan = variant_plan(shard['seed'])
        ctx.extra['degenerate_content_cases'] = len(vplan)

        def one(k, index, variant):
            vrng = np.random.Generator(np.random.PCG64([shard['seed'], index, 3, k]))
            run_config(vrng, ctx, scn, CV, watch, index, tr, variant=variant)

        _run_variants(ctx, shard, vplan[shard['part']::shard['parts']], one,
                      lambda v: (':'.join([v.get('select', ''), *v.get('special', ())]),), 8)
        # further input classes: variances, masks, dimension names, item counts, name types, call sequences ...
        aplan = axis_plan(shard['seed'])
        ctx.extra['input_class_cases'] = len(aplan)

        def one(k, index, variant):
            vrng = np.random.Generator(np.random.PCG64([shard['seed'], index, 4, k]))
            run_config(vrng, ctx, scn, CV, watch, index, tr, variant=variant)

        _run_variants(ctx, shard, aplan[shard['part']::shard['parts']], one, axis_tag, 8)
        # state / aliasing / naming classes: in-place modification between calls, neutral elements, sizes, spellings
        splan = state_plan(shard['seed'])
        ctx.extra['state_class_cases'] = len(splan)

        def one(k, index, variant):
            vrng = np.random.Generator(np.random.PCG64([shard['seed'], index, 6, k]))
            run_config(vrng, ctx, scn, CV, watch, index, tr, variant=variant)

        _run_variants(ctx, shard, splan[shard['part']::shard['parts']], one, axis_tag, 8)
        # origin coordinate absent / intermediate quantities supplied: derivable from what is present is not refused
        oplan = origin_plan(shard['seed'])
        ctx.extra['origin_class_cases'] = len(oplan)

        def one(k, index, variant):
            vrng = np.random.Generator(np.random.PCG64([shard['seed'], index, 7, k]))
            run_config(vrng, ctx, scn, CV, watch, index, tr, variant=variant)

        _run_variants(ctx, shard, oplan[shard['part']::shard['parts']], one,
                      lambda v: ('class', *v['axis']['cls'], *v['axis']['supply'], v['axis'].get('via', '')), 8)
    # (o) one new interpreter per shard 0..3 (one origin each), three calls in each
    if shard['part'] < 4:
        fresh_interpreter(ctx, shard, scn)


TECHNIQUE = ('runtime outcome monitor on convert() + trace of the kernels that ran and of the graph handed to '
             'transform_coords, against an executable derivability model written from the user guide')
LEVEL_TEXT = ('exploration, exhaustive in the configuration part: thorough enumerates all 262144 (origin, target, '
              'scatter, coordinate-subset) configurations, quick a stratified part; for each, the observed outcome '
              '(value / RuntimeError / anything else), the kernels that actually ran, the graph actually used vs the '
              'graph reported, and the target values are compared with an independent executable model of the '
              'documented derivation rule evaluated in long double on mutually inconsistent coordinates. Coordinate '
              'values are sampled (one random draw per configuration).  Further input classes (variances with a first-'
              'order propagation oracle, masks, dimension names, item counts of Datasets, string / flag types, call '
              'sequences, display / copy between calls, subclasses, ragged bins, sizes beyond 2**20, in-place '
              'modification of the arguments between calls, memory aliasing of result and arguments, neutral elements '
              'as forced geometry, non-normalised spellings, first calls in a new interpreter) are '
              'deterministic parts of every run on five coordinate subsets per (origin, target, scatter).')
LEVEL_NOTE = ('trusted: the derivation rule as documented in the user guide, numpy long double, scipp '
              'transform_coords as the engine being driven')
DESIGN_REF = 'DESIGN.md section 4, C02'
