"""C02 convert() succeeds iff the target is derivable, and matches the formulas."""

from __future__ import annotations

import itertools

import numpy as np
import scipp as sc

from rv import operands as ops
from rv.oracle import convgraph as G
from rv.oracle import geom, si
from rv.trace import Tracer

ID = 'C02'
LEVEL = 'exploration'
RULE = (
    'configuration = (origin in {tof, wavelength, energy, Q}) x (16 targets) x scatter x subset of the 11 '
    'geometry/energy coordinates; thorough enumerates all 262144 configurations (exhaustive), quick takes all '
    'subsets of size <= 2 and >= 9 plus a stratified sample; each configuration gets fresh random, mutually '
    'inconsistent coordinate values (so precedence of supplied coordinates is visible), alternating DataArray / '
    'Dataset and dense / binned; both tiers add ~4300 cases with degenerate contents of the supplied coordinates '
    '(for every origin x target x scatter: subsets along the derivation depth, the shallowest sufficient subset '
    'and two random ones; empty pixel selection, length-1 and 0-d single pixel, binned data without events; every '
    'coordinate the model reads made NaN everywhere / NaN for one pixel / infinite / zero): presence decides, '
    'contents do not; distinct = configurations x contents class; trivial = none'
)
ASSUMPTIONS = [
    'the derivability rule is the one of the user guide: present coordinates are used, missing ones derived '
    'recursively from the documented inputs, failure if an input is missing',
    'auxiliary inputs ub_matrix, sample_rotation, pulse_time are always present',
]
N = 3
AUX = ['ub_matrix', 'sample_rotation', 'pulse_time']
UNIT = {'tof': 'us', 'wavelength': 'angstrom', 'energy': 'meV', 'Q': '1/angstrom', 'dspacing': 'angstrom',
        'energy_transfer': 'meV', 'time_at_sample': 'us', 'L1': 'm', 'L2': 'm', 'Ltotal': 'm', 'two_theta': 'rad',
        'incident_beam': 'm', 'scattered_beam': 'm', 'Qx': '1/angstrom', 'Q_vec': '1/angstrom',
        'hkl_vec': 'dimensionless', 'h': 'dimensionless'}
KERNEL_NODE = {
    'straight_incident_beam': 'incident_beam', 'straight_scattered_beam': 'scattered_beam', 'L1': 'L1', 'L2': 'L2',
    'two_theta': 'two_theta', 'total_beam_length': 'Ltotal', 'total_straight_beam_length_no_scatter': 'Ltotal',
    'wavelength_from_tof': 'wavelength', 'wavelength_from_energy': 'wavelength', 'wavelength_from_Q': 'wavelength',
    'energy_from_tof': 'energy', 'energy_from_wavelength': 'energy', 'dspacing_from_tof': 'dspacing',
    'dspacing_from_wavelength': 'dspacing', 'dspacing_from_energy': 'dspacing', 'Q_from_wavelength': 'Q',
    'Q_elements_from_wavelength': 'Qxyz', 'Q_vec_from_Q_elements': 'Q_vec', 'hkl_vec_from_Q_vec': 'hkl_vec',
    'hkl_elements_from_hkl_vec': 'hkl', 'ub_matrix_from_u_and_b': 'ub_matrix',
    'energy_transfer_direct_from_tof': 'energy_transfer', 'energy_transfer_indirect_from_tof': 'energy_transfer',
    'time_at_sample_from_tof': 'time_at_sample',
}


def expected_kernel(node, inputs, mode):
    if node == 'Ltotal':
        return 'total_beam_length' if inputs == ('L1', 'L2') else 'total_straight_beam_length_no_scatter'
    if node in ('wavelength', 'energy', 'dspacing'):
        return f'{node}_from_{inputs[0]}'
    if node == 'energy_transfer':
        return 'energy_transfer_direct_from_tof' if mode == 'direct_inelastic' else 'energy_transfer_indirect_from_tof'
    for k, n in KERNEL_NODE.items():
        if n == node and k not in ('total_beam_length', 'total_straight_beam_length_no_scatter'):
            return k
    raise KeyError(node)


def graph_key_nodes(graph):
    out = set()
    for k in graph:
        if isinstance(k, tuple):
            out.add({'Qx': 'Qxyz', 'h': 'hkl'}[k[0]])
        else:
            out.add(k)
    return out


# ------------------------------------------------------------ generator ---
def config_of(index):
    sub = index % 2048
    index //= 2048
    scatter = bool(index % 2)
    index //= 2
    target = G.TARGETS[index % 16]
    origin = G.ORIGINS[index // 16]
    present = [n for i, n in enumerate(G.SUBSET) if sub >> i & 1]
    return origin, target, scatter, present


def n_configs():
    return 4 * 16 * 2 * 2048


def make_values(rng, origin):
    """Random, mutually inconsistent values (float64) for every coordinate that may appear."""
    v = {
        'tof': rng.uniform(2e4, 1e5, size=N),
        'wavelength': rng.uniform(0.5, 10, size=N),
        'energy': rng.uniform(1, 100, size=N),
        'Q': rng.uniform(0.5, 10, size=N),
        'position': rng.normal(size=(N, 3)) * 2 + [0, 0.5, 3],
        'source_position': rng.normal(size=3) + [0, 0, -12],
        'sample_position': rng.normal(size=3) * 0.3,
        'incident_beam': rng.normal(size=3) + [0, 0, 9],
        'scattered_beam': rng.normal(size=(N, 3)) * 2 + [0.3, 0, 2],
        'L1': np.float64(rng.uniform(6, 9)),
        'L2': rng.uniform(1, 4, size=N),
        'Ltotal': rng.uniform(15, 25, size=N),
        'two_theta': rng.uniform(0.2, 2.9, size=N),
        'incident_energy': np.float64(rng.uniform(20, 200)),
        'final_energy': rng.uniform(5, 50, size=N),
        'pulse_time': np.float64(rng.uniform(0, 1e5)),
        'ub_matrix': np.triu(rng.uniform(0.5, 2, size=(3, 3))),
        'sample_rotation': geom.random_rotation(rng).astype(np.float64),
    }
    return v


OUTER_NAMES = ('source_position', 'incident_beam', 'L1', 'incident_energy')


def build(rng, origin, present, values, container, binned, outer=None, noevents=False):
    def var(name):
        x = values[name]
        if outer and name in OUTER_NAMES:
            # several source-side settings along their own dimension (e.g. one per run)
            x = np.asarray(x)
            unit = {'incident_energy': 'meV', 'source_position': 'm'}.get(name) or UNIT[name]
            stack = np.stack([x, x * 1.01])
            if x.ndim == 1:
                return sc.vectors(dims=[outer], values=stack, unit=unit)
            return sc.array(dims=[outer], values=stack, unit=unit)
        if name in ('ub_matrix',):
            return sc.spatial.linear_transform(value=x, unit='1/angstrom')
        if name == 'sample_rotation':
            return sc.spatial.linear_transform(value=x)
        if name == 'pulse_time':
            return sc.scalar(float(x), unit='us')
        unit = {'incident_energy': 'meV', 'final_energy': 'meV', 'position': 'm', 'source_position': 'm',
                'sample_position': 'm'}.get(name) or UNIT[name]
        x = np.asarray(x)
        if x.ndim == 2:
            return sc.vectors(dims=['pixel'], values=x, unit=unit)
        if x.ndim == 1 and x.shape == (3,) and name in ('source_position', 'sample_position', 'incident_beam'):
            return sc.vector(x, unit=unit)
        if x.ndim == 0:
            return sc.scalar(float(x), unit=unit)
        return sc.array(dims=['pixel'], values=x, unit=unit)

    coords = {n: var(n) for n in [*present, *AUX]}
    if binned:
        # one event per pixel: event coordinate = origin
        if noevents:
            # every pixel has an empty event list
            ev = sc.DataArray(sc.ones(dims=['event'], shape=[0], unit='counts'),
                              coords={origin: sc.array(dims=['event'], values=values[origin][0:0], unit=UNIT[origin])})
            zero = sc.zeros(dims=['pixel'], shape=[N], dtype='int64', unit=None)
            data = sc.bins(begin=zero, end=zero.copy(), dim='event', data=ev)
        else:
            ev = sc.DataArray(sc.ones(dims=['event'], shape=[N], unit='counts'),
                              coords={origin: sc.array(dims=['event'], values=values[origin], unit=UNIT[origin])})
            data = sc.bins(begin=sc.arange('pixel', N, unit=None), end=sc.arange('pixel', 1, N + 1, unit=None),
                           dim='event', data=ev)
        da = sc.DataArray(data, coords=coords)
    else:
        coords[origin] = var(origin)
        da = sc.DataArray(sc.ones(dims=['pixel'], shape=[N]), coords=coords)
    if container == 'dataset':
        return sc.Dataset({'a': da})
    return da


def model_values(values):
    out = {}
    for k, x in values.items():
        out[k] = np.asarray(x).astype(si.LD)
    return out


def _events(c):
    """Event values of the bins that belong to `c` (a slice of binned data shares the buffer of the whole)."""
    k = c.bins.constituents
    d = k['data']
    vals = np.asarray(d.values)
    b = np.asarray(k['begin'].values).reshape(-1)
    e = np.asarray(k['end'].values).reshape(-1)
    if len(b) == 0:
        return vals[0:0], d.unit
    if b[0] == 0 and e[-1] == len(vals) and np.array_equal(b[1:], e[:-1]):
        return vals, d.unit
    return np.concatenate([vals[i:j] for i, j in zip(b, e, strict=True)]), d.unit


def get_coord(res, name, binned):
    """(values, unit, event_level)"""
    obj = res['a'] if isinstance(res, sc.Dataset) else res
    if binned and name in obj.bins.coords:
        return (*_events(obj.bins.coords[name]), True)
    if name in obj.coords:
        c = obj.coords[name]
        if c.bins is not None:
            return (*_events(c), True)
        return np.asarray(c.values), c.unit, False
    return None, None, False


# ------------------------------------------- degenerate contents of supplied coordinates ---
# "every subset of coordinates present; random coordinate values": whether a coordinate is present decides what
# is derived, never what it contains.  The contents classes below are part of every run.
PER_PIXEL = ('tof', 'wavelength', 'energy', 'Q', 'position', 'scattered_beam', 'L2', 'Ltotal', 'two_theta',
             'final_energy')
VECTORS = ('position', 'source_position', 'sample_position', 'incident_beam', 'scattered_beam')
VECTOR_TARGETS = ('incident_beam', 'scattered_beam', 'Q_vec', 'hkl_vec')
SLICES = {'empty': slice(0, 0), 'one': slice(1, 2), 'scalar': 1}
N_EVENTS = {None: N, 'empty': 0, 'one': 1, 'scalar': 1, 'noevents': 0}
CONTENTS = {
    'empty': 'empty pixel selection (zero-length coordinates)',
    'one': 'single pixel, length-1 slice',
    'scalar': 'single pixel by integer index (0-d coordinates)',
    'noevents': 'binned data without any event',
    'nan_all': 'supplied coordinate NaN everywhere',
    'nan_some': 'supplied coordinate NaN for one pixel',
    'inf_all': 'supplied coordinate infinite',
    'zero_all': 'supplied coordinate zero',
    'one+nan_all': 'single pixel (length-1 slice) whose supplied coordinate is NaN',
    'scalar+nan_all': 'single pixel (0-d) whose supplied coordinate is NaN',
}


def apply_special(values, name, kind):
    x = np.array(values[name], dtype=np.float64)
    if kind == 'nan_some' and name in PER_PIXEL:
        x[1] = np.nan
    else:
        x[...] = {'nan_all': np.nan, 'nan_some': np.nan, 'inf_all': np.inf, 'zero_all': 0.0}[kind]
    values[name] = x if x.ndim else np.float64(x)


def select_values(values, select):
    sl = SLICES[select]
    return {k: (np.asarray(x)[sl] if k in PER_PIXEL else x) for k, x in values.items()}


def check_supplied(ctx, data, res, present, case, vkeys):
    src = data['a'] if isinstance(data, sc.Dataset) else data
    obj = res['a'] if isinstance(res, sc.Dataset) else res
    for nm in present:
        if nm not in obj.coords:
            continue
        a, b = obj.coords[nm], src.coords[nm]
        ctx.event('supplied_kept')
        if a.unit != b.unit or not np.array_equal(np.asarray(a.values), np.asarray(b.values), equal_nan=True):
            ctx.violation('supplied_replaced', f'the supplied coordinate {nm} comes back with different contents '
                          f'({np.asarray(a.values).tolist()} {a.unit} instead of {np.asarray(b.values).tolist()} {b.unit})',
                          case, name=nm, **vkeys)


_BIT = {n: 1 << i for i, n in enumerate(G.SUBSET)}
_LADDER = ('Ltotal', 'two_theta', 'L1', 'L2', 'incident_beam', 'scattered_beam')


def variant_plan(seed):
    """[(index, variant)]: for every (origin, target, scatter), coordinate subsets along the derivation depth
    (everything supplied ... only positions), the shallowest sufficient subset of the model, and two random
    ones; each with an empty pixel selection and one other selection, and - where the model derives the target -
    each coordinate the derivation reads made NaN everywhere plus one other special content, and a single-pixel
    selection whose per-pixel coordinate is NaN."""
    rng = np.random.Generator(np.random.PCG64([seed, 98]))
    out, j, seen = [], 0, set()
    for base in range(4 * 16 * 2):
        origin, target, scatter, _ = config_of(base * 2048)
        subsets = []
        for step in range(len(_LADDER) + 1):
            sub = [n for n in G.SUBSET[:9] if n not in _LADDER[:step]]
            if target == 'energy_transfer':
                sub.append(('incident_energy', 'final_energy')[(base // 2 + step) % 2])
            elif step % 4 == 3:  # bystander energy coordinate
                sub.append(('incident_energy', 'final_energy')[(base // 2 + step // 4) % 2])
            subsets.append(sub)
        for mode in (('direct_inelastic', 'indirect_inelastic') if target == 'energy_transfer' else ('elastic',)):
            sh = G.shallow_inputs(target, G.rules(origin, target, scatter, mode), given=(origin, *AUX))
            if sh:
                subsets.append(sh)
        for _ in range(2):
            subsets.append([n for n in G.SUBSET if rng.random() < 0.5])
        for sub in subsets:
            index = base * 2048 + sum(_BIT[n] for n in sub)
            if index in seen:
                continue
            seen.add(index)
            present = [n for n in G.SUBSET if n in sub]
            verdict, nodes, mode = G.decide(origin, target, scatter, [*present, *AUX, origin])
            todo = [('empty', None), (('one', 'scalar', 'noevents')[j % 3], None)]
            if verdict == 'ok':
                leaves = G.used_inputs(target, [*present, *AUX, origin], G.table_for(origin, target, scatter, mode))
                pp = [n for n in leaves if n in PER_PIXEL and n != origin] or [n for n in leaves if n in PER_PIXEL]
                if pp and todo[1][0] in ('one', 'scalar'):
                    todo.append((todo[1][0], (pp[j % len(pp)], 'nan_all')))
                for leaf in leaves:
                    if leaf in AUX:
                        continue
                    other = (['nan_some'] if leaf in PER_PIXEL else []) + (
                        ['inf_all', 'zero_all'] if leaf not in VECTORS else [])
                    todo.append((None, (leaf, 'nan_all')))
                    if other:
                        todo.append((None, (leaf, other[(j + len(todo)) % len(other)])))
            for select, special in todo:
                v = {'container': ('dataarray', 'dataset')[j % 2], 'binned': j % 4 >= 2 or select == 'noevents',
                     'copy': j % 8 >= 4}
                if select:
                    v['select'] = select
                if special:
                    v['special'] = special
                out.append((index, v))
                j += 1
    return out


class Watch:
    def __init__(self):
        self.kernels = []
        self.graph = None
        self.k_depth = 0

    def kernel_start(self, ev):
        outer = self.k_depth == 0  # not called from inside another kernel (two_theta calls L1/L2 itself)
        self.k_depth += 1
        return outer

    def kernel(self, name):
        def h(ev):
            self.k_depth -= 1
            if ev.pre:
                self.kernels.append(name)
        return h

    def transform(self, ev):
        g = ev.args.get('graph')
        if self.graph is None:
            self.graph = g


def run_config(rng, ctx, scn, CV, watch, index, tracer, variant=None):
    origin, target, scatter, present = config_of(index)
    values = make_values(rng, origin)
    select = special = None
    if variant is None:
        container = 'dataset' if index % 3 == 0 else 'dataarray'
        binned = index % 4 == 1
        # one configuration in nine: source-side coordinates vary along a dimension of their own, named so that
        # it sorts before or after 'pixel'
        outer = ['arun', 'run'][index % 2] if index % 9 == 4 and not binned else None
        data = build(rng, origin, present, values, container, binned, outer=outer)
    else:
        # degenerate contents of the supplied coordinates: presence decides, values (and their number) do not
        container, binned, outer = variant['container'], variant['binned'], None
        select, special = variant.get('select'), variant.get('special')
        if special:
            apply_special(values, *special)
        data = build(rng, origin, present, values, container, binned, noevents=select == 'noevents')
        if select in SLICES:
            data = data['pixel', SLICES[select]]
            if variant.get('copy'):
                data = data.copy()
            values = select_values(values, select)
    # a supplied coordinate counts whatever its alignment flag says (integer slicing and earlier conversions
    # leave coordinates unaligned); one configuration in eleven supplies all of them unaligned
    unaligned = index % 11 == 7 and variant is None
    if unaligned:
        for nm in present:
            try:
                data.coords.set_aligned(nm, False)
            except Exception:  # noqa: BLE001  (event coordinate: lives in the bins)
                pass
        ctx.hit('supplied coordinates unaligned')
    verdict, nodes, mode = G.decide(origin, target, scatter, [*present, *AUX, origin])
    case = {'origin': origin, 'target': target, 'scatter': scatter, 'present': present, 'container': container,
            'binned': binned, 'model': verdict, 'model_detail': nodes, 'index': index, 'outer_dim': outer,
            'unaligned': unaligned}
    vkeys = {}
    if variant is not None:
        case['variant'] = {k: v for k, v in variant.items() if k not in ('container', 'binned')}
        vkeys = {'contents': '+'.join(x for x in (select, special and special[1]) if x)}
    watch.kernels, watch.graph, watch.k_depth = [], None, 0
    # the flag is a truth value: callers also pass numpy booleans (np.any(...)) or 0/1
    flag_form = index % 7
    scatter_arg = scatter
    if flag_form == 1:
        scatter_arg = np.bool_(scatter)
    elif flag_form == 2:
        scatter_arg = int(scatter)
    case['scatter_flag_type'] = type(scatter_arg).__name__
    try:
        style = index % 3  # documented parameter names and order: (data, origin, target, scatter)
        if style == 0:
            res = scn.convert(data, origin, target, scatter_arg)
        elif style == 1:
            res = scn.convert(data=data, origin=origin, target=target, scatter=scatter_arg)
        else:
            res = scn.convert(data, origin, target, scatter=scatter_arg)
        outcome = 'ok'
    except RuntimeError as e:
        res, outcome, err = None, 'refuse', e
    except Exception as e:  # noqa: BLE001
        ctx.violation('wrong_exception', f'convert raised {type(e).__name__} (only RuntimeError is documented): {e}',
                      case, exc=type(e).__name__)
        return
    executed = list(watch.kernels)
    used_graph = watch.graph
    ctx.event('convert')
    ctx.count('model:' + verdict)
    if variant is not None:
        ctx.hit(CONTENTS[vkeys['contents']])
        ctx.count(f'contents:{vkeys["contents"]}:{verdict}')
    if outcome != verdict:
        if verdict == 'ok':
            ctx.violation('refused_derivable', f'convert raised RuntimeError although {target} is derivable from the '
                          f'coordinates present ({err})', case, target=target, origin=origin, **vkeys)
        else:
            ctx.violation('answered_underivable', f'convert returned although {target} is not derivable ({nodes})',
                          case, target=target, origin=origin, **vkeys)
        return
    # ---- the reported graph is the one that is used
    try:
        reported = (CV.deduce_conversion_graph(data, origin, target, scatter_arg) if index % 2 else
                    CV.deduce_conversion_graph(data=data, origin=origin, target=target, scatter=scatter_arg))
        rep_ok = True
    except RuntimeError:
        reported, rep_ok = None, False
    if verdict == 'refuse':
        # mode errors must be reported by deduce_conversion_graph as well
        return
    if not rep_ok:
        ctx.violation('graph_report', 'deduce_conversion_graph raised although convert succeeded', case)
        return
    if used_graph is not None:
        same = set(map(repr, used_graph.keys())) == set(map(repr, reported.keys())) and all(
            used_graph[k] is reported[k] for k in reported if k in used_graph)
        ctx.event('graph_identity')
        if not same:
            ctx.violation('graph_report', 'the graph handed to transform_coords differs from the one '
                          'deduce_conversion_graph reports', dict(case, used=sorted(map(repr, used_graph)),
                                                                  reported=sorted(map(repr, reported))))
    # the explicit-mode factory must agree with the deduced one
    try:
        explicit = (CV.conversion_graph(origin, target, scatter_arg, mode) if index % 2 else
                    CV.conversion_graph(origin=origin, target=target, scatter=scatter_arg, energy_mode=mode))
        if set(map(repr, explicit)) != set(map(repr, reported)) or any(explicit[k] is not reported[k] for k in reported):
            ctx.violation('graph_report', f'conversion_graph({origin}, {target}, {scatter}, {mode}) differs from the '
                          'graph deduce_conversion_graph reports for data in that mode', case)
        ctx.event('explicit_graph')
    except Exception as e:  # noqa: BLE001
        ctx.violation('graph_report', f'conversion_graph raised {type(e).__name__}: {e}', case)
    table = G.table_for(origin, target, scatter, mode)
    if graph_key_nodes(reported) != set(table):
        ctx.violation('graph_content', f'reported graph nodes {sorted(graph_key_nodes(reported))} differ from the '
                      f'documented rule set {sorted(table)}', case)
    # ---- a supplied coordinate is still the supplied one afterwards (never replaced by a derived one)
    if variant is not None or index % 4 == 2:
        check_supplied(ctx, data, res, present, case, vkeys)
    # ---- kernels that ran = derivation the model predicts (never a quantity of the wrong mode)
    want_k = sorted(expected_kernel(n, table[n], mode) for n in nodes)
    if sorted(executed) != want_k:
        ctx.violation('wrong_kernels', f'kernels executed {sorted(executed)} but the documented derivation needs '
                      f'{want_k}', case, mode=mode, **vkeys)
        return
    # ---- value
    if outer:
        ctx.event('outer_layout')
        return
    try:
        with np.errstate(all='ignore'):
            mv = G.evaluate(nodes, model_values({k: values[k] for k in [*present, *AUX, origin]}), table, mode)
        want = mv[target]
        got, unit, ev_level = get_coord(res, target, binned)
        if got is None:
            ctx.violation('no_target', f'result has no coordinate {target}', case, **vkeys)
            return
        if target in ('hkl_vec', 'h'):
            f = si.LD(1) if unit == sc.Unit('dimensionless') else None
        else:
            f = si.factor(unit) / si.factor(sc.Unit(UNIT[target]))
        if f is None:
            ctx.violation('value', f'{target}: unexpected unit {unit}', case, **vkeys)
            return
        g = got.astype(si.LD) * f
        # the result has one value per selected pixel / event, also when there are none
        if ev_level:
            shape = (N_EVENTS[select], *np.shape(want)[np.ndim(want) - (target in VECTOR_TARGETS):])
        else:
            shape = np.shape(want)
        if g.shape != shape:
            ctx.violation('value_shape', f'{target} from {origin}: the result coordinate has shape {g.shape}, the '
                          f'coordinates present give {shape}', case, target=target, **vkeys)
            return
        w = np.broadcast_to(want, g.shape) if g.size else g  # no pixel / no event: only the shape is judged
        with np.errstate(all='ignore'):
            if not g.size:
                err = np.zeros(g.shape)
            elif target in ('two_theta',):
                err = np.abs(g - w)
            elif target == 'energy_transfer':
                scale = np.maximum(np.abs(w), np.abs(mv.get('incident_energy', mv.get('final_energy'))))
                err = np.abs(g - w) / scale
            elif target == 'time_at_sample':
                err = np.abs(g - w) / (np.abs(mv['pulse_time']) + np.abs(mv['tof']))
            elif g.ndim > 1 or target in VECTOR_TARGETS:
                nrm = geom.norm(w)[..., None] if w.ndim > 1 else geom.norm(w)
                err = np.abs(g - w) / np.where(nrm == 0, 1, nrm)
            else:
                err = si.relerr(g, w)
            # NaN where the formulas give NaN, the same infinity where they give one
            same = (np.isnan(g.astype(np.float64)) & np.isnan(np.asarray(w).astype(np.float64))) | (g == w)
        err = np.where(same, 0, err)
        worst = float(np.max(err)) if err.size else 0.0
    except Exception:  # noqa: BLE001
        ctx.oracle_error(f'C02 value {origin}->{target}')
        return
    # ---- chained conversion: converting the *result* again must still honour the supplied coordinates
    if index % 5 == 0 and variant is None:
        t2 = G.TARGETS[(index // 5) % len(G.TARGETS)]
        v2, nodes2, mode2 = G.decide(origin, t2, scatter, [*present, *AUX, origin])
        case2 = dict(case, chained_after=target, target=t2, model=v2)
        try:
            res2 = scn.convert(res, origin, t2, scatter=scatter_arg)
            out2 = 'ok'
        except RuntimeError as e:
            res2, out2, err2 = None, 'refuse', e
        except Exception as e:  # noqa: BLE001
            ctx.violation('wrong_exception', f'second convert raised {type(e).__name__}: {e}', case2, exc=type(e).__name__)
            out2 = None
        ctx.event('chained')
        if out2 is not None and out2 != v2:
            ctx.violation('chained_outcome', f'converting the result of {origin}->{target} on to {t2}: '
                          f'{"raised RuntimeError" if out2 == "refuse" else "returned"} but on the original data the '
                          f'target is {"derivable" if v2 == "ok" else "not derivable"}', case2, target=t2)
        elif out2 == 'ok' and t2 not in ('hkl_vec', 'h', 'time_at_sample', 'energy_transfer', 'incident_beam',
                                         'scattered_beam', 'Q_vec', 'two_theta'):
            try:
                table2 = G.table_for(origin, t2, scatter, mode2)
                mv2 = G.evaluate(nodes2, model_values({k: values[k] for k in [*present, *AUX, origin]}), table2, mode2)
                g2, u2, _ = get_coord(res2, t2, binned)
                f2 = si.factor(u2) / si.factor(sc.Unit(UNIT[t2]))
                e2 = si.relerr(g2.astype(si.LD) * f2, np.broadcast_to(mv2[t2], g2.shape))
                w2 = float(np.max(e2))
                ctx.dev('chained.' + t2, w2)
                if not (w2 <= 1e-9):
                    ctx.violation('chained_value', f'{t2} obtained by converting the result of {origin}->{target} again '
                                  f'differs by {w2:.3g} from the formulas applied to the coordinates originally '
                                  'supplied (a supplied coordinate takes precedence)', case2, target=t2)
            except Exception:  # noqa: BLE001
                ctx.oracle_error(f'C02 chained {origin}->{target}->{t2}')
    ctx.event('value')
    if variant is not None:
        ctx.event('value:' + vkeys['contents'])
    ctx.dev(f'value.{target}', worst)
    if not (worst <= 1e-9):
        ctx.violation('value', f'{target} from {origin}: differs from the documented formulas applied to the '
                      f'coordinates present by {worst:.3g} (supplied coordinates take precedence)', case,
                      target=target, origin=origin, **vkeys)


def quick_indices(rng):
    idx = set()
    small = [s for s in range(2048) if bin(s).count('1') <= 2 or bin(s).count('1') >= 9]
    for base in range(4 * 16 * 2):
        for s in small:
            idx.add(base * 2048 + s)
    extra = rng.integers(0, n_configs(), size=45000)
    idx.update(int(x) for x in extra)
    return sorted(idx)


def plan(tier, seed):
    n = 16
    return [{'part': i, 'parts': n} for i in range(n)]


def requirements(tier):
    ev = {'convert': 5000, 'value': 1000, 'graph_identity': 1000, 'outer_layout': 100, 'chained': 200,
          'supplied_kept': 5000}
    # every contents class reached the value comparison, not only the outcome
    ev.update({'value:' + k: n for k, n in (('empty', 200), ('one', 50), ('scalar', 50), ('noevents', 50),
                                            ('nan_all', 300), ('nan_some', 100), ('inf_all', 50), ('zero_all', 50),
                                            ('one+nan_all', 30), ('scalar+nan_all', 30))})
    return {'events': ev,
            'counters': {'model:ok': 1000, 'model:refuse': 1000, 'contents:empty:ok': 200,
                         'contents:empty:refuse': 200},
            'forced': ['supplied coordinates unaligned', *CONTENTS.values()]}


def run(shard, ctx):
    import scipp.coords as SCC
    import scippneutron as scn
    from scippneutron.conversion import beamline as KB
    from scippneutron.conversion import tof as KT
    from scippneutron.core import conversions as CV

    rng = np.random.Generator(np.random.PCG64([shard['seed'], shard['index'], 2]))
    if shard['tier'] == 'thorough':
        todo = range(shard['part'], n_configs(), shard['parts'])
        ctx.extra['exhaustive'] = True
        ctx.extra['configurations_total'] = n_configs()
    else:
        allq = quick_indices(np.random.Generator(np.random.PCG64([shard['seed'], 99])))
        todo = allq[shard['part']::shard['parts']]
        ctx.extra['configurations_total'] = n_configs()
        ctx.extra['configurations_in_quick'] = len(allq)
    watch = Watch()
    tr = Tracer()
    for name in KERNEL_NODE:
        mod = KT if hasattr(KT, name) else KB
        tr.watch(getattr(mod, name), name, on_start=watch.kernel_start, on_return=watch.kernel(name))
    tr.watch(SCC.transform_coords, 'transform_coords', on_start=watch.transform)
    with tr:
        for k, index in enumerate(todo):
            before = ctx.n_violations
            run_config(rng, ctx, scn, CV, watch, index, tr)
            o, t, s, p = config_of(index)
            ctx.case(index)
            if k < 2 or (ctx.n_violations > before and len(ctx.samples) < 6):
                ctx.sample({'index': index, 'origin': o, 'target': t, 'scatter': s, 'present': p})
        # degenerate contents of the supplied coordinates (both tiers, the same deterministic classes)
        vplan = variant_plan(shard['seed'])
        ctx.extra['degenerate_content_cases'] = len(vplan)
        for k, (index, variant) in enumerate(vplan[shard['part']::shard['parts']]):
            before = ctx.n_violations
            vrng = np.random.Generator(np.random.PCG64([shard['seed'], index, 3, k]))
            run_config(vrng, ctx, scn, CV, watch, index, tr, variant=variant)
            tag = ':'.join([variant.get('select', ''), *variant.get('special', ())])
            ctx.case((index, tag, variant['container'], variant['binned']))
            if k < 2 or (ctx.n_violations > before and len(ctx.samples) < 8):
                o, t, s, p = config_of(index)
                ctx.sample({'index': index, 'origin': o, 'target': t, 'scatter': s, 'present': p, 'variant': variant})


TECHNIQUE = ('runtime outcome monitor on convert() + trace of the kernels that ran and of the graph handed to '
             'transform_coords, against an executable derivability model written from the user guide')
LEVEL_TEXT = ('exploration, exhaustive in the configuration part: thorough enumerates all 262144 (origin, target, '
              'scatter, coordinate-subset) configurations, quick a stratified part; for each, the observed outcome '
              '(value / RuntimeError / anything else), the kernels that actually ran, the graph actually used vs the '
              'graph reported, and the target values are compared with an independent executable model of the '
              'documented derivation rule evaluated in long double on mutually inconsistent coordinates. Coordinate '
              'values are sampled (one random draw per configuration).')
LEVEL_NOTE = ('trusted: the derivation rule as documented in the user guide, numpy long double, scipp '
              'transform_coords as the engine being driven')
DESIGN_REF = 'DESIGN.md section 4, C02'
