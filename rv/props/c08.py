"""C08 Q-vector and hkl conversions satisfy their defining algebra."""

from __future__ import annotations

import enum

import numpy as np
import scipp as sc

from rv import operands as ops
from rv.oracle import geom, si
from rv.snap import describe
from rv.trace import Tracer

ID = 'C08'
LEVEL = 'exploration'
RULE = (
    'cases = one call of Q_elements_from_wavelength / Q_vec_from_Q_elements / hkl_vec_from_Q_vec / '
    'ub_matrix_from_u_and_b / hkl_elements_from_hkl_vec, or one family (rescale, rotate, scalar-Q agreement) '
    'on generated beams in generic orientation (scattering angle classes: generic, log-uniform 1e-9..1e-1 from 0 '
    'and from pi, exactly 0 and pi; one incident beam for all pixels or one per pixel), wavelengths 0.01..100 '
    'angstrom as float64 / float32 / integer, dense, 0-d or events; every shard runs the forced combinations '
    'float32 wavelength x (small angle, back-scattering) x layout, every layout of (wavelength: 0-d, per pixel, per '
    'wavelength, 2-d, events) x (incident, scattered beam: 0-d or per pixel) with and without VARIANCES on the '
    'wavelength (float64 and float32; propagated first order, refusals of scipp counted), caller dims named like '
    'internal names; in situ: shipped graph, graph factories, the kernels as nodes of a caller graph (UB from U and B '
    'coordinates), coordinates with variances, masked dense / event data, str subclasses for start/origin/target, '
    'second use / call after a caught refusal / copies and display between calls; one shard with 2**20 + 7 and '
    '3 x 400001 element operands; every shard also: U / R exactly the identity in every representation (0-d / array, '
    'quaternion / matrix), operand and dim lengths 2..5, 8..10 (the element types have 3, 4, 9 components), WRITE PROBES on '
    'every kernel and operand class incl. the neutral elements (after a call each argument is written in place - values, a '
    'slice, the unit - : the earlier result keeps its contents, the same objects passed again give the result for the new '
    'contents; the result is written in place: arguments unchanged, same call gives the original result), the same probe on '
    'the coordinates of a workspace after transform_coords / convert, the graph factories as BUILDING BLOCKS (node set and '
    'input set as documented; every documented input supplied by an alias / function node of the caller merged in front of '
    'or behind elastic_hkl, also with the beamline graph, judged against the R, U, B, beams the workspace describes), dim '
    'names and start / target names that are not in NFC / NFKC form, first call of the kernels / graph factories in a fresh '
    'interpreter (two per run); '
    'R and U Haar-random or axis permutations (quaternion or 3x3 form), B upper triangular with condition '
    'number up to 1e6; distinct = (function, units, dtype, matrix representation, cond decade, shape class, '
    'angle class) signatures'
)
ASSUMPTIONS = [
    'a scipp rotation3 holds a unit quaternion (x, y, z, w); its matrix is the standard one',
    'cond(R UB) is taken from a float64 SVD',
    'refusals that are scipp rules are counted, not judged: VariancesError when a wavelength with variances would '
    'have to be broadcast against the beams, VariancesError when components with variances are packed into a '
    'vector3; DimensionError of Q_vec_from_Q_elements for components of different sizes',
    'variances: one operand with variances (the wavelength) entering as the power law 1/lambda, first order: '
    'sd(Q_c) = |Q_c| sd(lambda)/lambda',
    'h, k, l returned by hkl_elements_from_hkl_vec are the documented .fields views of the vector: not write-probed; input '
    'coordinates kept in the result of transform_coords share their buffers with the input workspace (scipp): only COMPUTED '
    'coordinates are write-probed',
    'documented node sets of graph.tof: elastic_Q_vec = {(Qx, Qy, Qz), Q_vec}, elastic_hkl = that + {(h, k, l), hkl_vec, '
    'ub_matrix}, plus wavelength when start is tof; inputs: start, incident_beam, scattered_beam (+ sample_rotation, u_matrix, '
    'b_matrix; + Ltotal for tof)',
    'a name that is not a valid start / target is refused with whatever exception the lookup raises (counted)',
]
EPS = si.EPS64
LEN_UNITS = ['m', 'mm', 'cm', 'angstrom', 'one']  # 'one': beams given as dimensionless direction vectors of any length
WAV_UNITS = ['angstrom', 'nm', 'm']


def quat_to_matrix(q):
    """Rotation matrix of quaternion(s) (x, y, z, w), long double, normalising first."""
    q = np.asarray(q, dtype=si.LD)
    q = q / np.sqrt(np.sum(q * q, axis=-1, keepdims=True))
    x, y, z, w = q[..., 0], q[..., 1], q[..., 2], q[..., 3]
    m = np.empty(q.shape[:-1] + (3, 3), dtype=si.LD)
    m[..., 0, 0] = 1 - 2 * (y * y + z * z)
    m[..., 0, 1] = 2 * (x * y - z * w)
    m[..., 0, 2] = 2 * (x * z + y * w)
    m[..., 1, 0] = 2 * (x * y + z * w)
    m[..., 1, 1] = 1 - 2 * (x * x + z * z)
    m[..., 1, 2] = 2 * (y * z - x * w)
    m[..., 2, 0] = 2 * (x * z - y * w)
    m[..., 2, 1] = 2 * (y * z + x * w)
    m[..., 2, 2] = 1 - 2 * (x * x + y * y)
    return m


def as_matrix(var, res=None):
    """(..., 3, 3) long double matrices of a rotation3 / linear_transform3 variable, laid out like the elements of res
    (dense: res.shape; binned: one per event)."""
    vals = np.asarray(var.values) if res is None else ops.align(var, res)
    if ops.elem_dtype(var) == sc.DType.rotation3:
        return quat_to_matrix(vals)
    return vals.astype(si.LD)


def bvec(var, res):
    return ops.align(var, res)


def elem_variances(v):
    """Variable (dense or binned like v) holding the variances of v as VALUES, or None if v carries none."""
    if ops.is_binned(v):
        c = v.bins.constituents
        if c['data'].variances is None:
            return None
        return sc.bins(begin=c['begin'], end=c['end'], dim=c['dim'], data=sc.variances(c['data']))
    return None if v.variances is None else sc.variances(v)


def outer_dims(v):
    return set(v.dims)


def variances_need_broadcast(wavelength, *beams):
    """scipp refuses to broadcast an operand with variances (the copies would be correlated): a wavelength with
    variances is supported only where its dims cover the dims of the beams."""
    if elem_variances(wavelength) is None:
        return False
    return any(not set(b.dims) <= outer_dims(wavelength) for b in beams)


class Monitors:
    def __init__(self, ctx):
        self.ctx = ctx
        self.meta = {}

    def _case(self, name, ev):
        return {'function': name, **self.meta, 'args': {k: describe(v) for k, v in ev.args.items()}}

    def q_elements(self, ev):
        name = 'Q_elements_from_wavelength'
        ctx = self.ctx
        if ev.exc is not None:
            try:
                allowed = isinstance(ev.exc, sc.VariancesError) and variances_need_broadcast(
                    ev.args['wavelength'], ev.args['incident_beam'], ev.args['scattered_beam'])
            except Exception:  # noqa: BLE001
                allowed = False
            if allowed:  # scipp's rule, not the package's: counted, not judged
                ctx.event(name + '.refusal')
                ctx.count('refusal: wavelength variances would have to be broadcast (VariancesError)')
                return
            ctx.violation('raised', f'{name} raised {type(ev.exc).__name__}: {ev.exc}', self._case(name, ev))
            return
        try:
            a = ev.args
            res = ev.result
            qx = res['Qx']
            var_in = elem_variances(a['wavelength'])
            var_out = [elem_variances(res[c]) for c in ('Qx', 'Qy', 'Qz')]
            lam_unit = ops.elem_unit(a['wavelength'])
            lam = ops.align(a['wavelength'], qx).astype(si.LD)  # in its own unit: Q in 1/unit
            b1 = geom.v3(ops.align(a['incident_beam'], qx))
            b2 = geom.v3(ops.align(a['scattered_beam'], qx))
            ei = b1 / geom.norm(b1)[..., None]
            ef = b2 / geom.norm(b2)[..., None]
            k = 2 * si.PI / lam
            want = k[..., None] * (ei - ef)
            got = np.stack([ops.result_values(res[c]).astype(si.LD) for c in ('Qx', 'Qy', 'Qz')], axis=-1)
            f32 = ops.elem_dtype(a['wavelength']) == sc.DType.float32
            # forward bound of the definition at the inputs AS GIVEN (DESIGN section 3: condition number x 64 eps
            # per input).  The beams are float64 vectors: normalising them in double precision leaves an ABSOLUTE
            # error of a few eps64 in e_i - e_f (the difference cancels at small angles), i.e. 64 eps64 x 2pi/lambda.
            # The wavelength enters as the factor 1/lambda (condition number 1): a RELATIVE term 64 eps(lambda) |Q_vec|,
            # eps(lambda) = eps32 for a single-precision wavelength.  For double-precision (and integer) wavelengths
            # the relative term is at most twice the absolute one and the absolute bound alone is kept (it is the
            # tighter of the two and is what the unchanged definition meets with a margin of ~15).
            qn = geom.norm(want)
            tol = 64 * EPS * np.abs(k) + (64 * si.EPS32 * qn if f32 else 0)
            err = np.max(np.abs(got - want), axis=-1)
            with np.errstate(divide='ignore', invalid='ignore'):
                frac = np.where(tol > 0, err / tol, np.where(err > 0, np.inf, 0))
            frac = np.where(np.isfinite(got).all(axis=-1) | ~np.isfinite(want).all(axis=-1), frac, np.inf)
            worst = float(np.max(frac)) if frac.size else 0.0
            unit_ok = all(ops.elem_unit(res[c]) == sc.Unit('one') / lam_unit for c in ('Qx', 'Qy', 'Qz'))
            vworst = None
            if var_in is not None and all(v is not None for v in var_out):
                # first-order propagation through the power law Q_c = (2 pi e_c) / lambda of ONE operand with
                # variances: sd(Q_c) = |Q_c| sd(lambda) / lambda.  Bound: the bound of Q_c itself times
                # sd(lambda)/lambda, plus 64 eps(lambda) sd(Q_c) for the factor sd(lambda)/lambda.
                rel = np.sqrt(ops.align(var_in, qx).astype(si.LD)) / np.abs(lam)
                sd_want = np.abs(want) * rel[..., None]
                sd_got = np.sqrt(np.stack([ops.result_values(v).astype(si.LD) for v in var_out], axis=-1))
                vtol = (tol * rel)[..., None] + 64 * (si.EPS32 if f32 else EPS) * sd_want
                verr = np.abs(sd_got - sd_want)
                with np.errstate(divide='ignore', invalid='ignore'):
                    vfrac = np.where(vtol > 0, verr / vtol, np.where(verr > 0, np.inf, 0))
                vfrac = np.where(np.isnan(vfrac), np.inf, vfrac)
                vworst = float(np.max(vfrac)) if vfrac.size else 0.0
        except Exception:  # noqa: BLE001
            ctx.oracle_error(name)
            return
        ctx.event(name)
        if var_in is not None:
            ctx.event(name + '.variances')
            if any(v is None for v in var_out):
                ctx.violation('variances', f'{name}: the wavelength carries variances but '
                              f'{[c for c, v in zip(("Qx", "Qy", "Qz"), var_out, strict=True) if v is None]} carry none',
                              self._case(name, ev), mechanism='dropped')
            else:
                ctx.dev('Q_elements: |sd(Q_c) - |Q_c| sd(lambda)/lambda| / bound (x 64)', vworst * 64)
                if vworst > 1:
                    j = int(np.argmax(vfrac))
                    ctx.violation('variances', f'{name}: standard deviation of a component differs from first-order '
                                  f'propagation |Q_c| sd(lambda)/lambda by {vworst:.3g} x the bound; got '
                                  f'{float(sd_got.reshape(-1)[j])!r}, expected {float(sd_want.reshape(-1)[j])!r}',
                                  self._case(name, ev), mechanism='propagation')
        elif any(v is not None for v in var_out):
            ctx.violation('variances', f'{name}: result carries variances although no operand does',
                          self._case(name, ev), mechanism='invented')
        if f32:
            ctx.event(name + '.f32')
            ctx.dev('Q_elements.f32: |err| / (eps32 |Q_vec| + eps64 2pi/lambda)', worst * 64)
        else:
            ctx.dev('Q_elements: |err| / (eps 2pi/lambda)', worst * 64)
        if not unit_ok:
            ctx.violation('unit', f'{name}: unit {ops.elem_unit(qx)} expected 1/{lam_unit}', self._case(name, ev))
        elif worst > 1:
            i = int(np.argmax(frac))
            bound = '64 (eps32 |Q_vec| + eps64 2pi/lambda)' if f32 else '64 eps 2pi/lambda'
            ctx.violation('q_vector', f'{name}: differs from (2pi/lambda)(e_i - e_f) by {worst:.3g} x the bound {bound}; '
                          f'|err| = {float(err.reshape(-1)[i]):.3g}, |Q_vec| = {float(qn.reshape(-1)[i]):.3g}',
                          dict(self._case(name, ev), got=[repr(x) for x in got.reshape(-1, 3)[i]],
                               expected=[repr(x) for x in want.reshape(-1, 3)[i]]),
                          wavelength_dtype='float32' if f32 else 'float64')

    def q_vec(self, ev):
        name = 'Q_vec_from_Q_elements'
        ctx = self.ctx
        if ev.exc is not None:
            try:
                allowed = isinstance(ev.exc, sc.VariancesError) and any(
                    elem_variances(ev.args[c]) is not None for c in ('Qx', 'Qy', 'Qz'))
            except Exception:  # noqa: BLE001
                allowed = False
            if allowed:  # scipp's vector3 cannot hold variances
                ctx.event(name + '.refusal')
                ctx.count('refusal: components with variances cannot be packed into vector3 (VariancesError)')
                return
            try:
                a = ev.args
                mismatch = isinstance(ev.exc, sc.DimensionError) and not (
                    dict(a['Qx'].sizes) == dict(a['Qy'].sizes) == dict(a['Qz'].sizes))
            except Exception:  # noqa: BLE001
                mismatch = False
            if mismatch:  # the documented refusal of components of different sizes
                ctx.event(name + '.refusal')
                ctx.count('refusal: components of different sizes (DimensionError)')
                return
            ctx.violation('raised', f'{name} raised {type(ev.exc).__name__}: {ev.exc}', self._case(name, ev))
            return
        a, res = ev.args, ev.result
        ctx.event(name)
        try:
            want = np.stack([ops.align(a[c], res) if not ops.is_binned(res) else ops.align(a[c], res)
                             for c in ('Qx', 'Qy', 'Qz')], axis=-1)
            got = ops.result_values(res)
            same = np.array_equal(np.asarray(want, dtype=np.float64).view(np.int64), got.view(np.int64))
        except Exception:  # noqa: BLE001
            ctx.oracle_error(name)
            return
        if not same or ops.elem_unit(res) != ops.elem_unit(a['Qx']):
            ctx.violation('reassemble', f'{name}: reassembled vector differs from its components',
                          self._case(name, ev))

    def hkl_elements(self, ev):
        name = 'hkl_elements_from_hkl_vec'
        ctx = self.ctx
        if ev.exc is not None:
            ctx.violation('raised', f'{name} raised {type(ev.exc).__name__}: {ev.exc}', self._case(name, ev))
            return
        ctx.event(name)
        try:
            v = ops.result_values(ev.args['hkl_vec'])
            ok = all(np.array_equal(np.ascontiguousarray(ops.result_values(ev.result[c])).view(np.int64),
                                    np.ascontiguousarray(v[..., i]).view(np.int64))
                     and (not ops.is_binned(ev.result[c]) or np.array_equal(ops.bin_sizes(ev.result[c]),
                                                                            ops.bin_sizes(ev.args['hkl_vec'])))
                     for i, c in enumerate('hkl'))
        except Exception:  # noqa: BLE001
            ctx.oracle_error(name)
            return
        if not ok:
            ctx.violation('split', f'{name}: components differ from the vector', self._case(name, ev))

    def ub(self, ev):
        name = 'ub_matrix_from_u_and_b'
        ctx = self.ctx
        if ev.exc is not None:
            ctx.violation('raised', f'{name} raised {type(ev.exc).__name__}: {ev.exc}', self._case(name, ev))
            return
        try:
            res = ev.result
            U = as_matrix(ev.args['u_matrix'], res)
            B = as_matrix(ev.args['b_matrix'], res)
            want = U @ B
            got = np.asarray(res.values).astype(si.LD)
            scale = np.max(np.abs(B), axis=(-1, -2))
            err = np.max(np.abs(got - want), axis=(-1, -2)) / scale
            worst = float(np.max(err))
        except Exception:  # noqa: BLE001
            ctx.oracle_error(name)
            return
        ctx.event(name)
        ctx.dev('UB: max |UB - U B| / max|B| (eps)', worst / EPS)
        if res.unit != ev.args['b_matrix'].unit:
            ctx.violation('unit', f'{name}: unit {res.unit}', self._case(name, ev))
        elif worst > 16 * EPS:
            ctx.violation('ub_product', f'{name}: differs from U*B by {worst / EPS:.3g} eps max|B|',
                          self._case(name, ev))

    def hkl(self, ev):
        name = 'hkl_vec_from_Q_vec'
        ctx = self.ctx
        if ev.exc is not None:
            ctx.violation('raised', f'{name} raised {type(ev.exc).__name__}: {ev.exc}', self._case(name, ev))
            return
        try:
            a, res = ev.args, ev.result
            R = as_matrix(a['sample_rotation'], res)
            UB = as_matrix(a['ub_matrix'], res)
            Q = geom.v3(bvec(a['Q_vec'], res))
            hkl = ops.result_values(res).astype(si.LD)
            M = R @ UB
            back = 2 * si.PI * np.einsum('...ij,...j->...i', M, hkl)
            # the result carries the unit Q/UB (a scaled dimensionless unit when Q and UB are given in
            # different reciprocal lengths), so in values: 2 pi M hkl = Q
            unit_ok = ops.elem_unit(res) == ops.elem_unit(a['Q_vec']) / a['ub_matrix'].unit
            resid = geom.norm(back - Q)
            cond = np.linalg.cond(M.astype(np.float64))
            tol = 64 * EPS * cond * geom.norm(Q)
            with np.errstate(divide='ignore', invalid='ignore'):
                frac = np.where(tol > 0, resid / tol, 0)
            worst = float(np.max(frac))
        except Exception:  # noqa: BLE001
            ctx.oracle_error(name)
            return
        ctx.event(name)
        ctx.dev('hkl: residual / (eps cond |Q|)', worst * 64)
        if not unit_ok:
            ctx.violation('unit', f'{name}: unit {ops.elem_unit(res)} is not unit(Q)/unit(UB)', self._case(name, ev))
        elif not np.all(np.isfinite(hkl.astype(np.float64))):
            ctx.violation('nonfinite', f'{name}: non-finite hkl', self._case(name, ev))
        elif worst > 1:
            ctx.violation('hkl_residual', f'{name}: |2 pi R UB hkl - Q| = {worst * 64:.3g} eps cond |Q| (bound 64)',
                          dict(self._case(name, ev), cond=float(np.max(cond))))


# ----------------------------------------------------------- generators ---
ANGLE_CLASSES = {
    # name: (forced class, log10 lo, log10 hi of the log-uniform distance d, angle = pi - d instead of d)
    'parallel': ('nearly parallel beams', -9, -6, False),
    'antiparallel': ('nearly antiparallel beams', -9, -6, True),
    'small': ('small-angle beams (two_theta 1e-6..1e-1)', -6, -1, False),
    'back': ('back-scattering beams (pi - two_theta 1e-6..1e-1)', -6, -1, True),
    'sans': ('SANS band (two_theta 1e-4..1e-2)', -4, -2, False),
    'back_sans': ('back-scattering band (pi - two_theta 1e-4..1e-2)', -4, -2, True),
}
RANDOM_ANGLE_CLASSES = ['parallel', 'antiparallel', 'small', 'back', 'generic', 'generic', 'generic']


def gen_beams(rng, n, ctx, force=None, single_incident=False):
    """Beams in generic orientation (directions Haar-random, lengths 0.01..1000); the scattering angle of each
    pixel from a class: generic (1e-3..pi), log-uniform near 0 or near pi.  force = one class for all pixels,
    'zero' = scattered along the incident beam exactly (a positive power of two times it), 'pi' = exactly opposite.
    Returns float64 (n, 3) arrays."""
    a = geom.random_unit(rng, n) * (10.0 ** rng.uniform(-2, 3, size=(n, 1)))
    if single_incident:  # one incident beam for all pixels (row 0 is the operand): the angles are measured from it
        a = np.tile(a[:1], (n, 1))
    if force in ('zero', 'pi'):
        b = a * (2.0 ** rng.integers(-6, 7, size=(n, 1))) * (1.0 if force == 'zero' else -1.0)
        ctx.hit('scattered beam exactly along the incident beam (Q = 0)' if force == 'zero'
                else 'scattered beam exactly opposite to the incident beam')
        return a, b
    names = [force] * n if force else [RANDOM_ANGLE_CLASSES[j] for j in rng.integers(0, len(RANDOM_ANGLE_CLASSES), size=n)]
    ang = rng.uniform(1e-3, np.pi, size=n)
    for nm, (label, lo, hi, from_pi) in ANGLE_CLASSES.items():  # fixed order: the draws must not depend on hashing
        if nm not in names:
            continue
        d = 10.0 ** rng.uniform(lo, hi, size=n)
        ang = np.where(np.array(names) == nm, np.pi - d if from_pi else d, ang)
        ctx.hit(label)
    perp = geom.perpendicular_unit(rng, a)
    b = (geom.rotate_towards(a, perp, ang) * (10.0 ** rng.uniform(-2, 3, size=(n, 1)))).astype(np.float64)
    return a, b


def vecs(values, unit):
    values = np.asarray(values, dtype=np.float64)
    if values.ndim == 1:
        return sc.vector(values, unit=unit)
    return sc.vectors(dims=['pixel'], values=values, unit=unit)


AXIS_PERMS = None


def axis_perm_matrices():
    global AXIS_PERMS
    if AXIS_PERMS is None:
        import itertools
        out = []
        for p in itertools.permutations(range(3)):
            for s in itertools.product((1, -1), repeat=3):
                m = np.zeros((3, 3))
                for i in range(3):
                    m[i, p[i]] = s[i]
                if np.linalg.det(m) > 0:
                    out.append(m)
        AXIS_PERMS = out  # the 24 proper rotations of the cube
    return AXIS_PERMS


def matrix_to_quat(m):
    """Quaternion (x, y, z, w) of a rotation matrix (float64)."""
    m = np.asarray(m, dtype=np.float64)
    t = np.trace(m)
    if t > 0:
        s = np.sqrt(t + 1.0) * 2
        w, x, y, z = 0.25 * s, (m[2, 1] - m[1, 2]) / s, (m[0, 2] - m[2, 0]) / s, (m[1, 0] - m[0, 1]) / s
    elif m[0, 0] > m[1, 1] and m[0, 0] > m[2, 2]:
        s = np.sqrt(1.0 + m[0, 0] - m[1, 1] - m[2, 2]) * 2
        w, x, y, z = (m[2, 1] - m[1, 2]) / s, 0.25 * s, (m[0, 1] + m[1, 0]) / s, (m[0, 2] + m[2, 0]) / s
    elif m[1, 1] > m[2, 2]:
        s = np.sqrt(1.0 + m[1, 1] - m[0, 0] - m[2, 2]) * 2
        w, x, y, z = (m[0, 2] - m[2, 0]) / s, (m[0, 1] + m[1, 0]) / s, 0.25 * s, (m[1, 2] + m[2, 1]) / s
    else:
        s = np.sqrt(1.0 + m[2, 2] - m[0, 0] - m[1, 1]) * 2
        w, x, y, z = (m[1, 0] - m[0, 1]) / s, (m[0, 2] + m[2, 0]) / s, (m[1, 2] + m[2, 1]) / s, 0.25 * s
    q = np.array([x, y, z, w])
    return q / np.linalg.norm(q)


def gen_rotation(rng, n, ctx):
    """Rotation variable: scalar or array, quaternion or matrix form; returns (var, kind)."""
    arr = n > 1 and rng.random() < 0.5
    k = n if arr else 1
    mats = []
    for _ in range(k):
        if rng.random() < 0.25:
            mats.append(axis_perm_matrices()[rng.integers(0, 24)])
            ctx.hit('axis permutation rotation')
        else:
            mats.append(geom.random_rotation(rng).astype(np.float64))
    form = 'quat' if rng.random() < 0.6 else 'matrix'
    if form == 'quat':
        q = np.array([matrix_to_quat(m) for m in mats])
        var = sc.spatial.rotations(dims=['pixel'], values=q) if arr else sc.spatial.rotation(value=q[0])
    else:
        mm = np.array(mats)
        var = (sc.spatial.linear_transforms(dims=['pixel'], values=mm) if arr
               else sc.spatial.linear_transform(value=mm[0]))
    return var, form + ('_array' if arr else '_scalar')


def gen_b(rng, n, ctx):
    arr = n > 1 and rng.random() < 0.4
    k = n if arr else 1
    out, conds = [], []
    for _ in range(k):
        target = 10.0 ** rng.uniform(0, 6)
        d = np.sort(10.0 ** rng.uniform(-np.log10(target) / 2, np.log10(target) / 2, size=3))
        d[0], d[2] = d[1] / np.sqrt(target) if target > 1 else d[1], d[1] * np.sqrt(target) if target > 1 else d[1]
        m = np.diag(d * rng.choice([-1, 1], size=3))
        off = rng.uniform(-0.5, 0.5, size=3) * d[0]
        m[0, 1], m[0, 2], m[1, 2] = off
        m *= 10.0 ** rng.uniform(-1, 1)
        out.append(m)
        conds.append(np.linalg.cond(m))
    unit = ['1/angstrom', '1/nm'][rng.integers(0, 2)]
    mm = np.array(out)
    var = (sc.spatial.linear_transforms(dims=['pixel'], values=mm, unit=unit) if arr
           else sc.spatial.linear_transform(value=mm[0], unit=unit))
    dec = int(np.log10(max(conds)))
    if dec >= 5:
        ctx.hit('cond(B) >= 1e5')
    return var, unit, dec


LAYOUTS = ['per_pixel', '2d', 'scalar_lambda', 'binned', 'wav_only']
BEAM_LAYOUTS = [('0', '0'), ('0', 'p'), ('p', '0'), ('p', 'p')]  # (incident, scattered): 0-d or one per pixel
# caller dims named like names that appear as dims / coordinates / event dims inside scipp and scippneutron:
# (pixel dim, wavelength dim, event dim of the bins)
DIM_NAMES = [('x', 'y', 'z'), ('event', 'row', 'event'), ('Qx', 'Q_vec', 'wavelength'), ('wavelength', 'pixel', 'Qx'),
             ('range', 'vertex', 'cutout'), ('rotation', 'slit', 'rotation'),
             # names that are not in NFC / NFKC form; the pixel and the wavelength dim are DIFFERENT strings with the same
             # normal form (decomposed / precomposed accent, ANGSTROM SIGN / A with ring, fullwidth / ASCII, ligature):
             # they are two dims, and the result names them code point by code point
             ('pixe\u0301l', 'pix\u00e9l', 'e\u0301vent'), ('\u212b', '\u00c5', 'A\u030a'), ('\uff54\uff4f\uff46', 'tof', '\ufb01'),
             ('\u2126', '\u03a9', '\u00b5'), ('\u1112\u1161\u11ab', '\ud55c', '\u037e')]
NON_NFC_FROM = 6  # index of the first tuple of non-normalised names


def _forced(dt, angle, layout, beams=None, var=False, dims=None, n=None, nw=5):
    return {'dt': dt, 'angle': angle, 'layout': layout, 'beams': beams, 'var': var, 'dims': dims, 'n': n, 'nw': nw}


# forced cases of every shard (index i of the Q family): the classes a random draw of (wavelength dtype x angle class x
# layout x beam layout x variances x dim names) may or may not produce.
FORCED_Q = {k: _forced(*v) for k, v in {
    3: ('float32', 'sans', 'per_pixel'), 4: ('float32', 'sans', '2d'), 5: ('float32', 'sans', 'scalar_lambda'),
    6: ('float32', 'sans', 'binned'),
    7: ('float32', 'back_sans', '2d'), 8: ('float32', 'back_sans', 'binned'),
    9: ('float32', 'parallel', 'per_pixel'), 10: ('float32', 'antiparallel', 'per_pixel'),
    11: ('float32', 'small', '2d'), 12: ('float32', 'back', '2d'),
    13: ('float64', 'sans', '2d'), 14: ('float64', 'back_sans', 'per_pixel'),
    15: ('float64', 'zero', '2d'), 16: ('float32', 'zero', 'per_pixel'), 17: ('float64', 'pi', 'per_pixel'),
    18: ('float32', 'pi', '2d'),
    19: ('int64', None, 'per_pixel'), 20: ('int32', 'sans', '2d'), 21: ('int64', None, 'binned'),
}.items()}
# every layout scipp allows for (wavelength, incident beam, scattered beam), with and without variances on the
# wavelength (the only operand whose dtype can hold them), double and single precision
_i = 22
for _var in (True, False):
    for _dt in ('float64', 'float32') if _var else ('float64',):
        for _layout in ('scalar_lambda', 'per_pixel', 'wav_only', '2d', 'binned'):
            for _bl in BEAM_LAYOUTS:
                FORCED_Q[_i] = _forced(_dt, ['sans', None, 'back_sans', None][_i % 4], _layout, _bl, _var)
                _i += 1
for _k, _names in enumerate(DIM_NAMES):
    FORCED_Q[_i] = _forced(['float64', 'float32'][_k % 2], None, ['per_pixel', '2d', 'binned'][_k % 3],
                           BEAM_LAYOUTS[(_k + 1) % 4], _k % 2 == 0, _names)
    _i += 1
# dim lengths that coincide with the lengths of the vector types (3 components; quaternion 4; matrix 9), one below, one above
SIZE_PAIRS = [(3, 3), (2, 3), (4, 3), (3, 2), (3, 4), (4, 4), (9, 3), (3, 9), (9, 9), (8, 10)]
for _k, (_n, _nw) in enumerate(SIZE_PAIRS):
    FORCED_Q[_i] = _forced(['float64', 'float32'][_k % 2], None, '2d', BEAM_LAYOUTS[_k % 4], False, None, _n, _nw)
    _i += 1
N_FORCED_Q = _i


def make_binned_var(values, variances, sizes, dim_outer, unit, dtype, dim):
    sizes = np.asarray(sizes, dtype=np.int64)
    end = np.cumsum(sizes)
    data = sc.array(dims=[dim], values=values, variances=variances, unit=unit, dtype=dtype)
    return sc.bins(begin=sc.array(dims=[dim_outer], values=end - sizes, unit=None, dtype='int64'),
                   end=sc.array(dims=[dim_outer], values=end, unit=None, dtype='int64'), dim=dim, data=data)


def lam_var_given(lam):
    return np.asarray(ops.result_values(elem_variances(lam)), dtype=np.float64)


def like_dims(v, ref):
    """v laid out with the dims of ref (transposed or broadcast)."""
    if v.dims == ref.dims:
        return v
    if set(v.dims) == set(ref.dims):
        return v.transpose(ref.dims).copy()
    return sc.broadcast(v, dims=ref.dims, shape=ref.shape).copy()


def q_family(rng, ctx, K, KB, mon, i=-1, n=None, families=True):
    fc = FORCED_Q.get(i) or _forced(None, None, None)
    n = int(rng.integers(1, 40)) if n is None else n
    n, nw = fc['n'] or n, fc['nw']
    if fc['n']:
        ctx.hit(f'dim lengths {n} x {nw} (vector types have 3, 4, 9 components)')
    wdt, angle_class, layout = fc['dt'], fc['angle'], fc['layout']
    r_single, r_sc0, r_var = rng.random(3)
    inc0, sca0 = (n == 1 or r_single < 0.5), r_sc0 < 0.15  # beam given once (0-d) or per pixel
    if fc['beams']:
        inc0, sca0 = fc['beams'][0] == '0', fc['beams'][1] == '0'
    P, W, E = fc['dims'] or ('pixel', 'wavelength', 'event')
    if fc['dims']:
        ctx.hit('caller dims named like internal / coordinate names' if DIM_NAMES.index(fc['dims']) < NON_NFC_FROM
                else 'caller dims whose names are not in NFC / NFKC form (pairs with the same normal form)')
    # the angle classes are measured pixel by pixel between the two operands as given: with one scattered beam for
    # per-pixel incident beams the roles are generated the other way round
    a, b = gen_beams(rng, n, ctx, force=angle_class, single_incident=inc0 or sca0)
    if sca0 and not inc0:
        a, b = b, a
    u1, u2 = LEN_UNITS[rng.integers(0, 5)], LEN_UNITS[rng.integers(0, 5)]
    if 0 <= i < 3:  # dimensionless beams in every shard: incident, scattered, both
        u1, u2 = [('one', u2 if u2 != 'one' else 'm'), (u1 if u1 != 'one' else 'm', 'one'), ('one', 'one')][i]
    for which, u in (('incident', u1), ('scattered', u2)):
        if u == 'one':
            ctx.hit(f'dimensionless {which} beam')
    uw = WAV_UNITS[rng.integers(0, 3)]
    r_dt, r_layout = rng.random(), LAYOUTS[rng.integers(0, 5)]
    dt = wdt or ('float32' if r_dt < 0.2 else 'float64')
    layout = layout or r_layout
    f32 = dt == 'float32'
    var = fc['var'] if i in FORCED_Q else (r_var < 0.15 and not dt.startswith('int'))
    lam_si = 10.0 ** rng.uniform(-12, -8, size=(n, nw))
    rel_sd = 10.0 ** rng.uniform(-6, -0.5, size=(n, nw))  # sd(lambda)/lambda of the wavelengths with variances
    if dt.startswith('int'):  # whole numbers of angstrom (1..100) or nm (1..10): the integer part of the quantifier's range
        uw = WAV_UNITS[rng.integers(0, 2)]
        lam_si = rng.integers(1, 101 if uw == 'angstrom' else 11, size=(n, nw)) * (1e-10 if uw == 'angstrom' else 1e-9)
        ctx.hit('integer wavelength')
    fw = float(si.lookup(sc.Unit(uw))[0])
    lam_v = np.rint(lam_si / fw) if dt.startswith('int') else lam_si / fw
    lam_var = (rel_sd * lam_v) ** 2

    def arr(dims, sel):
        if not dims:
            return sc.scalar(lam_v[sel], variance=lam_var[sel] if var else None, unit=uw, dtype=dt)
        return sc.array(dims=dims, values=lam_v[sel], variances=lam_var[sel] if var else None, unit=uw, dtype=dt)

    if layout == 'per_pixel':
        lam = arr([P], (slice(None), 0))
    elif layout == '2d':
        lam = arr([P, W], (slice(None), slice(None)))
    elif layout == 'scalar_lambda':
        lam = arr([], (0, 0))
    elif layout == 'wav_only':
        lam = arr([W], (0, slice(None)))
    else:
        sizes = rng.integers(0, 6, size=n)
        if i in FORCED_Q and sizes.sum() == 0:
            sizes[0] = 3  # a forced class must reach the kernel with at least one event
        tot = int(sizes.sum())
        lam = make_binned_var(np.resize(lam_v, tot).astype(dt), np.resize(lam_var, tot).astype(dt) if var else None,
                              sizes, P, uw, dt, E)
    if f32 and angle_class in ('sans', 'parallel', 'small'):
        ctx.hit('float32 wavelength, nearly parallel beams')
    if f32 and angle_class in ('back_sans', 'antiparallel', 'back'):
        ctx.hit('float32 wavelength, back-scattering')
    if f32 and layout == 'binned' and angle_class == 'sans':
        ctx.hit('float32 event wavelengths, nearly parallel beams')
    beams = ('0' if inc0 else 'p') + ('0' if sca0 else 'p')
    mon.meta = {'family': 'Q', 'layout': layout, 'beams': beams, 'units': (u1, u2, uw), 'f32': f32,
                'wavelength_dtype': dt, 'angle_class': angle_class or 'mixed', 'wavelength_variances': var,
                'dims': (P, W, E)}
    A, B = (a[:1] if inc0 else a), (b[:1] if sca0 else b)

    def mk(vals, zero_d, unit):
        return vecs(vals[0], unit) if zero_d else sc.vectors(dims=[P], values=np.asarray(vals, dtype=np.float64), unit=unit)

    vb1, vb2 = mk(A, inc0, u1), mk(B, sca0, u2)
    sig = ('Q', layout, u1, u2, uw, dt, beams, angle_class or 'mixed', 'var' if var else 'novar',
           'dims:' + P if fc['dims'] else '')
    if var:
        cls = f'wavelength with variances: {layout}, beams {beams}'
        if variances_need_broadcast(lam, vb1, vb2):
            # what scipp does with an operand with variances that would have to be broadcast is scipp's rule
            # (VariancesError): the monitor counts the refusal; a result, if one is returned, is judged as usual
            ctx.hit(cls + ' (variances would have to be broadcast)')
            try:
                K.Q_elements_from_wavelength(wavelength=lam, incident_beam=vb1, scattered_beam=vb2)
            except sc.VariancesError:
                pass
            return sig
        ctx.hit(cls)
        ctx.hit('float32 wavelength with variances' if f32 else 'float64 wavelength with variances')
    base = K.Q_elements_from_wavelength(wavelength=lam, incident_beam=vb1, scattered_beam=vb2)
    if var:
        try:  # vector3 cannot hold variances: the monitor counts the refusal (or judges the vector if one is returned)
            K.Q_vec_from_Q_elements(**base)
        except sc.VariancesError:
            pass
    qv = K.Q_vec_from_Q_elements(**{c: sc.values(v) for c, v in base.items()})
    if fc['dims']:
        # the dims of the result are the dims of the operands, name by name (str equality = code point by code point)
        ctx.event('dim_names')
        want_dims = set(lam.dims) | set(vb1.dims) | set(vb2.dims)
        ev_dim = [qv.bins.constituents['dim']] if ops.is_binned(qv) else []
        if set(qv.dims) != want_dims or any(set(v.dims) != want_dims for v in base.values()) or ev_dim not in ([], [E]):
            ctx.violation('dim_names', f'dims of the result {[ascii(d) for d in qv.dims + tuple(ev_dim)]} are not the dims of the '
                          f'operands {sorted(ascii(d) for d in want_dims)}', dict(mon.meta))
    if layout != 'binned' and families:
        kk = np.abs(2 * np.pi / np.asarray(ops.align(lam, qv), dtype=np.float64))
        # bounds of the families: the forward bound of the definition at the inputs as given, once per evaluation
        # that enters the comparison.  Absolute term eps64 x 2pi/lambda (double-precision beams, cancelling
        # difference); for a single-precision wavelength also the relative term eps32 |Q_vec| (the result, the
        # scalar Q and anything derived from lambda may be rounded to single precision).
        unit_err = EPS * kk + (si.EPS32 * np.linalg.norm(qv.values, axis=-1) if f32 else 0)
        sfx = '.f32' if f32 else ''
        per = ' (eps32 |Q| + eps64 2pi/lambda)' if f32 else ' lambda/2pi (eps)'

        def judge(event, devname, d, bound, kind, text, unit=unit_err, unit_text=None):
            with np.errstate(divide='ignore', invalid='ignore'):
                r = np.where(unit > 0, d / unit, np.where(d > 0, np.inf, 0))
            r = np.where(np.isnan(r), np.inf, r)
            w = float(np.max(r))
            ctx.event(event)
            if f32:
                ctx.event(event + '.f32')
            ctx.dev(devname + sfx, w)
            if w > bound:
                ctx.violation(kind, text.format(w=f'{w:.3g}', unit=unit_text or (
                    '(eps32 |Q_vec| + eps64 2pi/lambda)' if f32 else 'eps x 2pi/lambda'), bound=bound), dict(mon.meta))

        def sds(elements):
            """(..., 3) standard deviations of the components, laid out like qv."""
            return np.sqrt(np.stack([np.asarray(like_dims(sc.variances(elements[c]), qv).values, dtype=np.float64)
                                     for c in ('Qx', 'Qy', 'Qz')], axis=-1))

        if var:
            # unit of the comparisons of standard deviations: sd(Q_c) = |Q_c| sd(lambda)/lambda, so the unit of Q
            # times sd(lambda)/lambda, plus one eps(lambda) of the standard deviation itself
            rel = np.sqrt(np.asarray(ops.align(sc.variances(lam), qv), dtype=np.float64)) / np.abs(
                np.asarray(ops.align(lam, qv), dtype=np.float64))
            sd0 = sds(base)
            unit_sd = unit_err * rel + (si.EPS32 if f32 else EPS) * np.max(sd0, axis=-1)
            sd_text = '(unit of Q x sd(lambda)/lambda + eps sd)'
        # independence of beam lengths
        k1, k2 = 2.0 ** int(rng.integers(-10, 11)), 2.0 ** int(rng.integers(-10, 11))
        el2 = K.Q_elements_from_wavelength(wavelength=lam, incident_beam=mk(A * k1, inc0, u1),
                                           scattered_beam=mk(B * k2, sca0, u2))
        sc2 = K.Q_vec_from_Q_elements(**{c: sc.values(v) for c, v in el2.items()})
        judge('family.rescale', 'family.rescale 2^k: |dQ|' + per, np.max(np.abs(sc2.values - qv.values), axis=-1), 128,
              'depends_on_beam_length', 'Q_vec changes by {w} x {unit} when the beams are rescaled by powers of two '
              '(bound {bound})')
        if var:
            judge('family.rescale.variances', 'family.rescale 2^k: |d sd(Q_c)| / (unit of Q x sd(lambda)/lambda + eps sd)',
                  np.max(np.abs(sds(el2) - sd0), axis=-1), 128, 'depends_on_beam_length',
                  'the standard deviations of Qx, Qy, Qz change by {w} x {unit} when the beams are rescaled by powers '
                  'of two (bound {bound})', unit=unit_sd, unit_text=sd_text)
        # norm equals scalar Q of the same beams (observed two_theta + Q_from_wavelength)
        tt = KB.two_theta(incident_beam=vb1, scattered_beam=vb2)
        Qs = like_dims(K.Q_from_wavelength(wavelength=lam, two_theta=tt), qv)
        judge('family.norm_vs_scalar_Q', 'family.|Q_vec| vs scalar Q: diff' + per,
              np.abs(np.linalg.norm(qv.values, axis=-1) - np.asarray(Qs.values, dtype=np.float64)), 128,
              'norm_vs_scalar_q', '|Q_vec| differs from the scalar Q of the same beams by {w} x {unit} (bound {bound})')
        decided = True
        if var and f32:
            # single-precision variances: products of the operands as given (var(lambda) x (4 pi sin theta)^2) can fall
            # below the normal range of float32 for nearly parallel beams / wavelengths in metres; what the scalar Q
            # carries then depends on the order of evaluation -- undecided, not judged
            e0 = geom.v3(A) / geom.norm(A)[..., None] - geom.v3(B) / geom.norm(B)[..., None]
            small = float(np.min(lam_var_given(lam))) * min(1.0, float(np.min((2 * si.PI * geom.norm(e0)) ** 2)))
            if small < 1e-30:
                decided = False
                ctx.count('undecided: float32 variances of the scalar Q near the single-precision underflow range')
        if var and Qs.variances is not None and decided:
            # one operand with variances: the components are fully correlated, sd(|Q_vec|) = |Q_vec| sd(lambda)/lambda
            # = sqrt(sum sd(Q_c)^2), which is what the scalar Q of the same wavelength must carry
            judge('family.norm_vs_scalar_Q.variances',
                  'family.sqrt(sum var Q_c) vs sd(scalar Q) / (unit of Q x sd(lambda)/lambda + eps sd)',
                  np.abs(np.sqrt(np.sum(sd0 * sd0, axis=-1)) - np.sqrt(np.asarray(Qs.variances, dtype=np.float64))), 128,
                  'norm_vs_scalar_q', 'sqrt(var Qx + var Qy + var Qz) differs from the standard deviation of the scalar Q '
                  'of the same beams and wavelength by {w} x {unit} (bound {bound})', unit=unit_sd, unit_text=sd_text)
        # covariance: rotate both beams
        Rm = geom.random_rotation(rng)
        ra = (geom.v3(A) @ Rm.T).astype(np.float64)
        rb = (geom.v3(B) @ Rm.T).astype(np.float64)
        rot = K.Q_vec_from_Q_elements(**{c: sc.values(v) for c, v in K.Q_elements_from_wavelength(
            wavelength=lam, incident_beam=mk(ra, inc0, u1), scattered_beam=mk(rb, sca0, u2)).items()})
        want = (geom.v3(qv.values) @ Rm.T)
        judge('family.rotation', 'family.rotation covariance: |Q(Rb) - R Q(b)|' + per,
              np.max(np.abs(rot.values.astype(si.LD) - want), axis=-1).astype(np.float64), 256,
              'not_covariant', 'Q_vec of rotated beams differs from the rotated Q_vec by {w} x {unit} (bound {bound})')
    return sig


def reassemble_family(rng, ctx, K, mon):
    """Q_vec_from_Q_elements / hkl split on components given with their dims in a different order."""
    n, m = int(rng.integers(2, 6)), int(rng.integers(2, 6))
    comps = [sc.array(dims=['pixel', 'wavelength'], values=rng.normal(size=(n, m)), unit='1/angstrom') for _ in range(3)]
    which = int(rng.integers(0, 3))
    comps[which] = comps[which].transpose().copy()  # same labels, other memory/dim order
    mon.meta = {'family': 'reassemble', 'transposed_component': 'xyz'[which], 'shape': (n, m)}
    ctx.hit('component with transposed dims')
    K.Q_vec_from_Q_elements(Qx=comps[0], Qy=comps[1], Qz=comps[2])
    return ('reassemble', which, n == m)


def make_rotation(mats, form, arr, dim='pixel'):
    """Rotation variable holding the given matrices as unit quaternions ('quat') or 3x3 matrices ('matrix'), 0-d or array."""
    if form == 'quat':
        q = np.array([matrix_to_quat(m) for m in mats])
        return sc.spatial.rotations(dims=[dim], values=q) if arr else sc.spatial.rotation(value=q[0])
    mm = np.array(mats, dtype=np.float64)
    return sc.spatial.linear_transforms(dims=[dim], values=mm) if arr else sc.spatial.linear_transform(value=mm[0])


# the neutral element in every representation a rotation argument can take (quantifier: "rotations R and U over SO(3)",
# "scalar and array operands"): exactly the identity as 0-d quaternion, 0-d matrix, array of quaternions, array of matrices
IDENTITY_FORMS = [('quat', False), ('matrix', False), ('quat', True), ('matrix', True)]
# forced cases of every shard (index i of the hkl family)
FORCED_HKL = {}
for _k, (_f, _a) in enumerate(IDENTITY_FORMS):
    FORCED_HKL[len(FORCED_HKL)] = {'u_identity': (_f, _a)}
    FORCED_HKL[len(FORCED_HKL)] = {'r_identity': (_f, _a)}
    FORCED_HKL[len(FORCED_HKL)] = {'u_identity': (_f, _a), 'r_identity': IDENTITY_FORMS[(_k + 1) % 4]}
# operand lengths that coincide with the lengths of the element types (vector 3, quaternion 4, matrix 3 x 3 = 9), one below,
# one above: arrays of Q, U, R, B of exactly that length
SIZE_POINTS = [2, 3, 4, 5, 8, 9, 10]
for _k, _n in enumerate(SIZE_POINTS):
    FORCED_HKL[len(FORCED_HKL)] = {'n': _n, 'forms': ['quat', 'matrix'][_k % 2]}
N_FORCED_HKL = len(FORCED_HKL)


def identity_label(which, form, arr):
    return f'{which} exactly the identity: {"array of " if arr else "0-d "}{"quaternion" if form == "quat" else "3x3 matrix"}' + (
        's' if arr else '')


def hkl_family(rng, ctx, K, mon, i=-1):
    fc = FORCED_HKL.get(i, {})
    n = fc.get('n') or int(rng.integers(1, 30))
    if fc and 'n' not in fc:
        n = max(n, 2)
    Bv, ub_unit, cdec = gen_b(rng, n, ctx)
    Uv, uform = gen_rotation(rng, n, ctx)
    Rv, rform = gen_rotation(rng, n, ctx)
    if 'n' in fc:  # all operands arrays of exactly this length
        f2 = 'matrix' if fc['forms'] == 'quat' else 'quat'
        Uv = make_rotation([geom.random_rotation(rng).astype(np.float64) for _ in range(n)], fc['forms'], True)
        Rv = make_rotation([geom.random_rotation(rng).astype(np.float64) for _ in range(n)], f2, True)
        uform, rform = fc['forms'] + '_array', f2 + '_array'
        Bv = sc.spatial.linear_transforms(dims=['pixel'], values=np.array([np.triu(rng.uniform(0.5, 2, size=(3, 3))) for _ in range(n)]),
                                          unit=ub_unit)
        ctx.hit(f'operand length {n} (element types have 3, 4, 9 components)')
    for which in ('u', 'r'):
        if which + '_identity' in fc:
            form, arr = fc[which + '_identity']
            v = make_rotation([np.eye(3)] * (n if arr else 1), form, arr)
            ctx.hit(identity_label('U' if which == 'u' else 'R', form, arr))
            if which == 'u':
                Uv, uform = v, form + ('_array' if arr else '_scalar') + '_identity'
            else:
                Rv, rform = v, form + ('_array' if arr else '_scalar') + '_identity'
    mon.meta = {'family': 'hkl', 'u': uform, 'r': rform, 'cond_decade': cdec, 'unit': ub_unit}
    UB = K.ub_matrix_from_u_and_b(u_matrix=Uv, b_matrix=Bv)
    qunit = ['1/angstrom', '1/nm'][rng.integers(0, 2)]
    q = rng.normal(size=(n, 3)) * 10.0 ** rng.uniform(-2, 2)
    Q = sc.vectors(dims=['pixel'], values=q, unit=qunit) if (n > 1 or rng.random() < 0.5) else sc.vector(q[0], unit=qunit)
    h = K.hkl_vec_from_Q_vec(Q_vec=Q, ub_matrix=UB, sample_rotation=Rv)
    parts = K.hkl_elements_from_hkl_vec(hkl_vec=h)
    re = sc.spatial.as_vectors(parts['h'], parts['k'], parts['l'])
    ctx.event('family.split_reassemble')
    if not np.array_equal(re.values.view(np.int64), h.values.view(np.int64)):
        ctx.violation('split', 'splitting hkl into components and reassembling is not lossless', dict(mon.meta))
    return ('hkl', uform, rform, ub_unit, qunit, cdec, 'Q_array' if Q.ndim else 'Q_scalar', ('n', fc['n']) if 'n' in fc else '')


def _bits_equal(x, y):
    """Two variables agree in dims, unit, dtype and in every bit of their elements (dense or binned)."""
    if x.dims != y.dims or x.shape != y.shape or ops.elem_unit(x) != ops.elem_unit(y) or ops.elem_dtype(x) != ops.elem_dtype(y):
        return False
    if ops.is_binned(x) != ops.is_binned(y):
        return False
    if ops.is_binned(x) and not np.array_equal(ops.bin_sizes(x), ops.bin_sizes(y)):
        return False
    vx, vy = ops.result_values(x), ops.result_values(y)
    if not np.array_equal(np.ascontiguousarray(vx).view(np.uint8), np.ascontiguousarray(vy).view(np.uint8)):
        return False
    ex, ey = elem_variances(x), elem_variances(y)
    if (ex is None) != (ey is None):
        return False
    return ex is None or np.array_equal(ops.result_values(ex), ops.result_values(ey), equal_nan=True)


def _instrument(rng, ctx, n, nw=3, force=None, wdt='float64', u_and_b=False):
    """Dense data on (pixel, wavelength) with the coordinates the Q-vector / hkl graphs need."""
    a, b = gen_beams(rng, n, ctx, force=force, single_incident=True)
    coords = {'wavelength': sc.array(dims=['wavelength'], values=rng.uniform(0.5, 10, size=nw), unit='angstrom', dtype=wdt),
              'incident_beam': vecs(a[0], 'm'), 'scattered_beam': vecs(b, 'm'),
              'sample_rotation': sc.spatial.rotation(value=matrix_to_quat(geom.random_rotation(rng).astype(float)))}
    bm = sc.spatial.linear_transform(value=np.triu(rng.uniform(0.5, 2, size=(3, 3))), unit='1/angstrom')
    if u_and_b:
        coords['u_matrix'] = sc.spatial.rotation(value=matrix_to_quat(geom.random_rotation(rng).astype(float)))
        coords['b_matrix'] = bm
    else:
        coords['ub_matrix'] = bm
    return sc.DataArray(sc.ones(dims=['pixel', 'wavelength'], shape=[n, nw]), coords=coords)


def _events(rng, ctx, n, variances=False, masks=False):
    """Binned data: event coordinate wavelength, per-pixel beams; optionally variances on the event wavelengths and
    a bin-level plus an event-level mask."""
    a, b = gen_beams(rng, n, ctx, single_incident=True)
    sizes = rng.integers(0, 5, size=n)
    sizes[0] = 2
    end = np.cumsum(sizes)
    tot = int(end[-1])
    lam = rng.uniform(0.5, 10, size=tot)
    ev = sc.DataArray(sc.ones(dims=['event'], shape=[tot]), coords={'wavelength': sc.array(
        dims=['event'], values=lam, variances=(lam * 10.0 ** rng.uniform(-4, -1, size=tot)) ** 2 if variances else None,
        unit='angstrom')})
    if masks:
        ev.masks['event_mask'] = sc.array(dims=['event'], values=rng.random(tot) < 0.5)
    da = sc.DataArray(sc.bins(begin=sc.array(dims=['pixel'], values=end - sizes, unit=None, dtype='int64'),
                              end=sc.array(dims=['pixel'], values=end, unit=None, dtype='int64'), dim='event', data=ev),
                      coords={'incident_beam': vecs(a[0], 'm'), 'scattered_beam': vecs(b, 'm'),
                              'sample_rotation': sc.spatial.rotation(value=matrix_to_quat(geom.random_rotation(rng).astype(float))),
                              'ub_matrix': sc.spatial.linear_transform(value=np.triu(rng.uniform(0.5, 2, size=(3, 3))),
                                                                       unit='1/angstrom')})
    if masks:
        m = rng.random(n) < 0.5
        m[0] = True
        da.masks['pixel_mask'] = sc.array(dims=['pixel'], values=m)
    return da


def _coord(da, name):
    return da.bins.coords[name] if (da.bins is not None and name in da.bins.coords) else da.coords[name]


class _Start(str, enum.Enum):
    tof = 'tof'
    wavelength = 'wavelength'


def insitu_extras(rng, ctx, K, KB, mon, scn, GT):
    """Deterministic classes of every shard that reach the kernels through the public routes in ways a random draw of
    operands does not: caller graphs, masked data, coordinates with variances, str subclasses, second use, copies."""
    import copy

    def guarded(label, fn, allowed=()):
        try:
            return fn()
        except allowed:
            ctx.count('refusal: ' + label)
            return None
        except Exception as e:  # noqa: BLE001
            ctx.violation('raised_outer', f'{label}: {type(e).__name__}: {e}', dict(mon.meta))
            return None

    def same_coords(kind, what, x, y, names):
        ctx.event(kind)
        for nm in names:
            if not _bits_equal(_coord(x, nm), _coord(y, nm)):
                ctx.violation(kind, f'{what}: coordinate {nm!r} differs', dict(mon.meta))
                return False
        return True

    kernels_graph = {('Qx', 'Qy', 'Qz'): K.Q_elements_from_wavelength, 'Q_vec': K.Q_vec_from_Q_elements,
                     'hkl_vec': K.hkl_vec_from_Q_vec, 'ub_matrix': K.ub_matrix_from_u_and_b,
                     ('h', 'k', 'l'): K.hkl_elements_from_hkl_vec}
    vec_names = ['Qx', 'Qy', 'Qz', 'Q_vec', 'hkl_vec', 'h', 'k', 'l']

    # (d) the kernels as nodes of a caller's graph: every parameter of a node is looked up as a coordinate; UB from
    # the coordinates u_matrix and b_matrix.  The monitors judge each kernel underneath.
    n = int(rng.integers(2, 10))
    da = _instrument(rng, ctx, n, u_and_b=True)
    mon.meta = {'family': 'caller_graph', 'route': 'transform_coords(graph of kernels)'}
    r1 = guarded('caller graph of kernels -> h, k, l, Q_vec, hkl_vec',
                 lambda: da.transform_coords(['h', 'k', 'l', 'Q_vec', 'hkl_vec'], graph=kernels_graph,
                                             keep_intermediate=True, keep_inputs=True))
    mon.meta = {'family': 'caller_graph', 'route': 'convert, UB from u_matrix and b_matrix'}
    r2 = guarded('convert with u_matrix, b_matrix coordinates -> hkl_vec',
                 lambda: scn.convert(da, 'wavelength', 'hkl_vec', scatter=True))
    if r1 is not None:
        ctx.hit('kernels as nodes of a caller graph (UB from u_matrix, b_matrix coordinates)')
        ctx.case(('caller_graph', n))
        if r2 is not None:
            same_coords('caller_graph', 'caller graph of kernels vs convert()', r1, r2, ['hkl_vec'])

    # (e) str subclasses where a str is documented: numpy strings and members of a (str, Enum), numpy bool for scatter
    da = _instrument(rng, ctx, n)
    da_tof = da.copy()
    da_tof.coords['Ltotal'] = sc.norm(da.coords['incident_beam']) + sc.norm(da.coords['scattered_beam'])
    da_tof = da_tof.rename(wavelength='tof')
    da_tof.coords['tof'] = sc.array(dims=['tof'], values=rng.uniform(500, 50000, size=3), unit='us')
    for start, d0 in (('wavelength', da), ('tof', da_tof)):
        for kind, st in (('numpy.str_', np.str_(start)), ('(str, Enum) member', _Start(start))):
            for fac, target in ((GT.elastic_Q_vec, 'Q_vec'), (GT.elastic_hkl, 'hkl_vec')):
                mon.meta = {'family': 'str_subclass', 'factory': fac.__name__, 'start': start, 'type': kind}
                ref = guarded(f'{fac.__name__}({start!r})', lambda: d0.transform_coords(target, graph=fac(start)))  # noqa: B023
                got = guarded(f'{fac.__name__}({kind} {start!r})', lambda: d0.transform_coords(target, graph=fac(st)))  # noqa: B023
                if ref is None or got is None:
                    continue
                ctx.hit(f'start given as {kind}')
                ctx.case(('str_subclass', fac.__name__, start, kind))
                if set(map(str, fac(st))) != set(map(str, fac(start))):
                    ctx.violation('str_subclass', f'graph.tof.{fac.__name__}({kind} {start!r}) has other nodes than '
                                  f'for the plain str: {sorted(map(str, fac(st)))}', dict(mon.meta))
                same_coords('str_subclass', f'{fac.__name__}({kind} {start!r}) vs plain str', got, ref, [target])
        mon.meta = {'family': 'str_subclass', 'route': 'convert', 'start': start}
        ref = guarded('convert(str, str, scatter=bool)', lambda: scn.convert(d0, start, 'hkl_vec', scatter=True))  # noqa: B023
        got = guarded('convert(numpy.str_, numpy.str_, scatter=numpy.bool_)',
                      lambda: scn.convert(d0, np.str_(start), np.str_('hkl_vec'), scatter=np.bool_(True)))  # noqa: B023
        if ref is not None and got is not None:
            ctx.hit('convert: origin, target as numpy.str_, scatter as numpy.bool_')
            same_coords('str_subclass', 'convert with numpy scalars vs Python scalars', got, ref, ['hkl_vec'])

    # (b) masks on the input: per-pixel and 2-d on dense data, bin-level and event-level on events; they must
    # neither change a coordinate nor be changed
    dm = da.copy()
    dm.masks['pixel_mask'] = sc.array(dims=['pixel'], values=np.arange(n) % 2 == 0)
    dm.masks['mask2d'] = sc.array(dims=['pixel', 'wavelength'], values=rng.random((n, 3)) < 0.5)
    for label, masked, names in (('dense, per-pixel and 2-d masks', dm, ['pixel_mask', 'mask2d']),
                                 ('events, bin-level and event-level masks', _events(rng, ctx, n, masks=True), ['pixel_mask'])):
        plain = masked.copy()
        for nm in list(plain.masks):
            del plain.masks[nm]
        if plain.bins is not None:
            buf = plain.bins.constituents
            ev = buf['data'].copy()
            del ev.masks['event_mask']
            plain = sc.DataArray(sc.bins(begin=buf['begin'], end=buf['end'], dim=buf['dim'], data=ev), coords=dict(plain.coords))
        for target in ('Q_vec', 'hkl_vec'):
            mon.meta = {'family': 'masks', 'data': label, 'target': target}
            got = guarded(f'convert of masked data ({label}) -> {target}',
                          lambda: scn.convert(masked, 'wavelength', target, scatter=True))  # noqa: B023
            ref = guarded(f'convert of the same data without masks -> {target}',
                          lambda: scn.convert(plain, 'wavelength', target, scatter=True))  # noqa: B023
            if got is None or ref is None:
                continue
            ctx.hit('masked input: ' + label)
            ctx.case(('masks', label, target))
            same_coords('masks', f'convert of masked data ({label})', got, ref, [target])
            # a dim of the data may be renamed by the conversion (wavelength -> target): the masks follow the data
            ok = all(nm in got.masks and got.masks[nm].shape == masked.masks[nm].shape
                     and set(got.masks[nm].dims) <= set(got.dims) and got.masks[nm].dtype == sc.DType.bool
                     and np.array_equal(got.masks[nm].values, masked.masks[nm].values) for nm in names)
            if masked.bins is not None:
                gm = got.bins.constituents['data'].masks
                ok = ok and 'event_mask' in gm and sc.identical(gm['event_mask'], masked.bins.constituents['data'].masks['event_mask'])
            if not ok:
                ctx.violation('masks', f'convert of masked data ({label}) -> {target}: a mask was dropped or changed',
                              dict(mon.meta))

    # (a) coordinates with variances through the graphs: per-pixel wavelength / tof on dense data, event wavelengths.
    # The components carry the propagated variances (judged by the kernel monitor); packing them into Q_vec is refused
    # by scipp (vector3 holds no variances), which the monitor counts.
    a, b = gen_beams(rng, n, ctx, single_incident=True)
    lam = rng.uniform(0.5, 10, size=n)
    dv = sc.DataArray(sc.ones(dims=['pixel'], shape=[n]), coords={
        'wavelength': sc.array(dims=['pixel'], values=lam, variances=(lam * 10.0 ** rng.uniform(-4, -1, size=n)) ** 2, unit='angstrom'),
        'incident_beam': vecs(a[0], 'm'), 'scattered_beam': vecs(b, 'm')})
    dt_ = dv.copy()
    del dt_.coords['wavelength']
    tof = rng.uniform(500, 50000, size=n)
    dt_.coords['tof'] = sc.array(dims=['pixel'], values=tof, variances=(tof * 10.0 ** rng.uniform(-4, -1, size=n)) ** 2, unit='us')
    dt_.coords['Ltotal'] = sc.norm(dv.coords['incident_beam']) + sc.norm(dv.coords['scattered_beam'])
    for label, start, d0 in (('per-pixel wavelength coordinate', 'wavelength', dv), ('per-pixel tof coordinate', 'tof', dt_),
                             ('event wavelengths', 'wavelength', _events(rng, ctx, n, variances=True))):
        for route, graph in (('graph.tof.elastic_Q_vec', GT.elastic_Q_vec(start)),
                             ('caller graph of kernels', {**GT.elastic_Q_vec(start), **kernels_graph})):
            mon.meta = {'family': 'coordinate_variances', 'data': label, 'route': route}
            got = guarded(f'{route}: {label} with variances -> Qx, Qy, Qz',
                          lambda: d0.transform_coords(['Qx', 'Qy', 'Qz'], graph=graph))  # noqa: B023
            if got is None:
                continue
            ctx.hit('coordinate with variances: ' + label)
            ctx.case(('coordinate_variances', label, route))
            ctx.event('coordinate_variances')
            if any(elem_variances(_coord(got, c)) is None for c in ('Qx', 'Qy', 'Qz')):
                ctx.violation('variances', f'{route}: {label} with variances: a component of Q carries none',
                              dict(mon.meta), mechanism='dropped')
            guarded('Q_vec from components with variances', lambda: d0.transform_coords('Q_vec', graph=graph),  # noqa: B023
                    allowed=(sc.VariancesError,))

    # (g) second use and (j) copies / display between two calls
    da = _instrument(rng, ctx, n)
    c = da.coords
    lam2 = sc.broadcast(c['wavelength'], dims=['pixel', 'wavelength'], shape=[n, 3]).copy()
    mon.meta = {'family': 'second_use'}

    def chain(wavelength, inc, sca, ub, rot, between=lambda x: x):
        el = between(K.Q_elements_from_wavelength(wavelength=wavelength, incident_beam=inc, scattered_beam=sca))
        qv = between(K.Q_vec_from_Q_elements(**el))
        h = between(K.hkl_vec_from_Q_vec(Q_vec=qv, ub_matrix=ub, sample_rotation=rot))
        return {**el, 'Q_vec': qv, 'hkl_vec': h, **K.hkl_elements_from_hkl_vec(hkl_vec=h)}

    def compare(kind, what, x, y):
        ctx.event(kind)
        bad = [nm for nm in vec_names if not _bits_equal(x[nm], y[nm])]
        if bad:
            ctx.violation(kind, f'{what}: {bad} differ from the first evaluation', dict(mon.meta))

    args = (lam2, c['incident_beam'], c['scattered_beam'], c['ub_matrix'], c['sample_rotation'])
    first = guarded('chain of kernels', lambda: chain(*args))
    if first is not None:
        again = guarded('chain of kernels, same objects again', lambda: chain(*args))
        if again is not None:
            ctx.hit('second use: same operand objects passed again')
            compare('second_use', 'same operand objects passed again', again, first)
        # after refusals that were raised and caught: components of different sizes, variances that cannot be packed
        for label, fn, exc in (
                ('components of different sizes', lambda: K.Q_vec_from_Q_elements(
                    Qx=first['Qx'], Qy=first['Qy']['pixel', 1:], Qz=first['Qz']), sc.DimensionError),
                ('components with variances', lambda: K.Q_vec_from_Q_elements(**{
                    k: sc.array(dims=first[k].dims, values=first[k].values, variances=first[k].values ** 2,
                                unit=first[k].unit) for k in ('Qx', 'Qy', 'Qz')}), sc.VariancesError)):
            try:
                fn()
                ctx.count('second use: no refusal for ' + label)
            except exc:
                ctx.hit('second use: call repeated after a refusal was raised and caught')
            except Exception as e:  # noqa: BLE001
                ctx.violation('raised_outer', f'{label}: {type(e).__name__}: {e}', dict(mon.meta))
            again = guarded('chain of kernels after a caught refusal', lambda: chain(*args))
            if again is not None:
                compare('second_use', f'call repeated after the refusal of {label}', again, first)
        # results fed back as inputs: split -> reassemble -> split
        mon.meta = {'family': 'second_use', 'what': 'results fed back'}
        back = guarded('results fed back', lambda: K.hkl_elements_from_hkl_vec(hkl_vec=K.Q_vec_from_Q_elements(
            Qx=first['h'], Qy=first['k'], Qz=first['l'])))
        if back is not None:
            ctx.hit('second use: results fed back as inputs')
            ctx.event('second_use')
            if not all(_bits_equal(back[k], first[k]) for k in 'hkl'):
                ctx.violation('split', 'h, k, l reassembled with Q_vec_from_Q_elements and split again differ',
                              dict(mon.meta))
        # display and copies between two computational calls
        mon.meta = {'family': 'copies'}
        for label, between in (('repr / str', lambda x: (repr(x), str(x), x)[2]), ('copy.copy', copy.copy),
                               ('copy.deepcopy', copy.deepcopy),
                               ('.copy()', lambda x: {k: v.copy() for k, v in x.items()} if isinstance(x, dict) else x.copy())):
            got = guarded(f'chain of kernels with {label} of every intermediate result', lambda: chain(*args, between=between))  # noqa: B023
            if got is not None:
                ctx.hit('display / copies of intermediate results between two calls')
                compare('copies', f'{label} of every intermediate result', got, first)
        ctx.case(('second_use_and_copies', n))
    # the same graph object used twice, and a deep copy of it
    for fac in (GT.elastic_Q_vec, GT.elastic_hkl):
        mon.meta = {'family': 'second_use', 'what': 'graph object', 'factory': fac.__name__}
        g = fac('tof')
        keys = sorted(map(str, g))
        target = 'Q_vec' if fac is GT.elastic_Q_vec else 'hkl_vec'
        r1 = guarded('graph object, first use', lambda: da_tof.transform_coords(target, graph=g))  # noqa: B023
        repr(g)
        r2 = guarded('graph object, second use', lambda: da_tof.transform_coords(target, graph=g))  # noqa: B023
        r3 = guarded('deep copy of a graph object', lambda: da_tof.transform_coords(target, graph=copy.deepcopy(g)))  # noqa: B023
        r4 = guarded('factory called again', lambda: da_tof.transform_coords(target, graph=fac('tof')))  # noqa: B023
        if None in (r1, r2, r3, r4):
            continue
        ctx.hit('second use: graph object used twice, deep-copied, factory called again')
        for r in (r2, r3, r4):
            same_coords('second_use', f'graph.tof.{fac.__name__}: second use / deep copy / second factory call', r, r1, [target])
        if sorted(map(str, g)) != keys:
            ctx.violation('second_use', f'graph.tof.{fac.__name__}: the graph object changed by being used', dict(mon.meta))


# ------------------------------------------------- in-place writes: axes (k) and (l) ---
_UNIT_SWAP = {'angstrom': 'nm', 'nm': 'angstrom', 'm': 'mm', 'mm': 'm', 'cm': 'm', '1/angstrom': '1/nm',
              '1/nm': '1/angstrom'}


def _buffer(v):
    """The variable that owns the elements (the event buffer of a binned variable)."""
    return v.bins.constituents['data'] if ops.is_binned(v) else v


def _other_values(v):
    """(old, new) element values of v: new differs from old in every element and is of the same class (unit quaternion,
    non-singular matrix, positive wavelength)."""
    dt = ops.elem_dtype(v)
    old = np.array(_buffer(v).values, copy=True)
    if dt == sc.DType.rotation3:
        new = np.roll(old, 1, axis=-1)  # (x, y, z, w) -> (-w, x, y, z): another unit quaternion
        new[..., 0] *= -1
    elif dt == sc.DType.linear_transform3:
        new = old * np.array([[1.5], [0.75], [1.25]])  # rows rescaled
    elif old.dtype.kind in 'iu':
        new = old + 1
    else:
        new = old * 1.5
    return old, new


def _write(v, mode):
    """Write into v IN PLACE (same object, same buffer); returns the function that writes the old contents back, or None
    if the mode does not apply to v."""
    buf = _buffer(v)
    if mode == 'unit':
        if ops.is_binned(v) or buf.unit is None:
            return None
        old_unit = buf.unit
        new_unit = next((sc.Unit(b) for a, b in _UNIT_SWAP.items() if sc.Unit(a) == old_unit), None)
        if new_unit is None:
            return None
        buf.unit = new_unit

        def restore():
            buf.unit = old_unit
        return restore
    old, new = _other_values(v)
    if mode == 'slice':
        if buf.ndim < 1 or buf.shape[0] < 2:
            return None
        buf[buf.dims[0], 1:].values = new[1:]
    else:
        buf.values = new

    def restore():
        buf.values = old
    return restore


def _outs(res):
    return dict(res) if isinstance(res, dict) else {'result': res}


def write_probe(ctx, mon, name, fn, kwargs, label, modes=('values', 'slice', 'unit')):
    """Axes (k) and (l) for one kernel call.  (l1) after the call every argument is written in place (all values, a
    slice, the unit): the result obtained earlier keeps its contents.  (k) the call is repeated with the very same
    objects: the monitors judge the new result against the NEW contents, and it equals the result for copies of the
    arguments.  (l2) the result is written in place: the arguments keep their contents and the same call gives the
    original result again."""
    mon.meta = {'family': 'write_in_place', 'kernel': name, 'operands': label}
    case = dict(mon.meta)
    held = {k: v.copy() for k, v in kwargs.items()}
    outs = _outs(fn(**kwargs))
    kept = {k: v.copy() for k, v in outs.items()}
    for k, v in kwargs.items():
        for mode in modes:
            restore = _write(v, mode)
            if restore is None:
                continue
            try:
                ctx.event('alias.result_after_argument_write')
                bad = [o for o in outs if not _bits_equal(outs[o], kept[o])]
                if bad:
                    ctx.violation('aliasing', f'{name} ({label}): the result {bad} obtained earlier changed when the '
                                  f'argument {k!r} was written in place ({mode}) after the call', case,
                                  mechanism='result_follows_argument')
                again = _outs(fn(**kwargs))  # judged by the monitors for the new contents
                ref = _outs(fn(**{a: x.copy() for a, x in kwargs.items()}))
                ctx.event('modify_between_calls')
                bad = [o for o in ref if o not in again or not _bits_equal(again[o], ref[o])]
                if bad:
                    ctx.violation('stale_result', f'{name} ({label}): after {k!r} was modified in place ({mode}) the call '
                                  f'with the same objects gives {bad} different from the result for the new contents', case)
            finally:
                restore()
    for o, v in outs.items():
        try:
            restore = _write(v, 'values')
        except Exception:  # noqa: BLE001 a read-only result is not a defect
            ctx.count('write probe: result not writable')
            continue
        if restore is None:
            continue
        ctx.event('alias.arguments_after_result_write')
        bad = [k for k in kwargs if not _bits_equal(kwargs[k], held[k])]
        if bad:
            ctx.violation('aliasing', f'{name} ({label}): writing in place into the result {o!r} changed the argument(s) '
                          f'{bad}', case, mechanism='argument_follows_result')
            for k in bad:  # put the caller's contents back for what follows
                _buffer(kwargs[k]).values = np.array(_buffer(held[k]).values)
            continue
        again = _outs(fn(**kwargs))
        bad = [x for x in kept if x not in again or not _bits_equal(again[x], kept[x])]
        if bad:
            ctx.violation('aliasing', f'{name} ({label}): after the result {o!r} was written in place the same call on the '
                          f'same arguments gives a different {bad}', case, mechanism='repeat_differs')
    ctx.hit('written in place after / between calls: ' + name)
    ctx.case(('write_in_place', name, label))


def write_family(rng, ctx, K, mon):
    """Deterministic operand classes for the write probes: every representation of the neutral element of each kernel
    (rotation by 0 as quaternion / matrix / arrays of them, B and UB the unit matrix, 2 pi UB = 1, beams of length exactly
    1, wavelength exactly 1) next to generic operands; 0-d, array and event layouts."""
    n = int(rng.integers(2, 7))

    def rot(identity, form, arr):
        return make_rotation([np.eye(3) if identity else geom.random_rotation(rng).astype(np.float64)
                              for _ in range(n if arr else 1)], form, arr)

    def bmat(arr, unit='1/angstrom', identity=False, scale=1.0):
        mm = np.array([np.eye(3) * scale if identity else np.triu(rng.uniform(0.5, 2, size=(3, 3))) for _ in range(n if arr else 1)])
        return (sc.spatial.linear_transforms(dims=['pixel'], values=mm, unit=unit) if arr
                else sc.spatial.linear_transform(value=mm[0], unit=unit))

    def qvec(arr, unit='1/angstrom'):
        q = rng.normal(size=(n, 3))
        return sc.vectors(dims=['pixel'], values=q, unit=unit) if arr else sc.vector(q[0], unit=unit)

    # UB = U B
    for identity in (True, False):
        for form, arr in IDENTITY_FORMS:
            for b_arr in (False, True):
                lab = f'U {"identity" if identity else "generic"} {form}{" array" if arr else " 0-d"}, B {"array" if b_arr else "0-d"}'
                if identity:
                    ctx.hit(identity_label('U', form, arr) + ' (write probe)')
                write_probe(ctx, mon, 'ub_matrix_from_u_and_b', K.ub_matrix_from_u_and_b,
                            {'u_matrix': rot(identity, form, arr), 'b_matrix': bmat(b_arr)}, lab)
    for form in ('quat', 'matrix'):
        ctx.hit('B exactly the unit matrix (write probe)')
        write_probe(ctx, mon, 'ub_matrix_from_u_and_b', K.ub_matrix_from_u_and_b,
                    {'u_matrix': rot(False, form, False), 'b_matrix': bmat(False, unit='one', identity=True)},
                    f'U generic {form} 0-d, B unit matrix')
    # hkl
    for identity in (True, False):
        for form, arr in IDENTITY_FORMS:
            for q_arr in (True, False):
                if arr and not q_arr and identity:
                    continue
                lab = f'R {"identity" if identity else "generic"} {form}{" array" if arr else " 0-d"}, Q {"array" if q_arr else "0-d"}'
                if identity:
                    ctx.hit(identity_label('R', form, arr) + ' (write probe)')
                write_probe(ctx, mon, 'hkl_vec_from_Q_vec', K.hkl_vec_from_Q_vec,
                            {'Q_vec': qvec(q_arr), 'ub_matrix': bmat(False), 'sample_rotation': rot(identity, form, arr)}, lab)
    for form in ('quat', 'matrix'):
        # R the identity and 2 pi UB the unit matrix: hkl = Q
        ctx.hit('R the identity and 2 pi UB the unit matrix (write probe)')
        write_probe(ctx, mon, 'hkl_vec_from_Q_vec', K.hkl_vec_from_Q_vec,
                    {'Q_vec': qvec(True), 'ub_matrix': bmat(False, identity=True, scale=float(1 / (2 * np.pi))),
                     'sample_rotation': rot(True, form, False)}, f'R identity {form} 0-d, 2 pi UB = 1')
        ctx.hit('R the identity and UB the unit matrix (write probe)')
        write_probe(ctx, mon, 'hkl_vec_from_Q_vec', K.hkl_vec_from_Q_vec,
                    {'Q_vec': qvec(True), 'ub_matrix': bmat(False, identity=True), 'sample_rotation': rot(True, form, False)},
                    f'R identity {form} 0-d, UB = 1')
    # components <-> vector
    comps = {c: sc.array(dims=['pixel', 'wavelength'], values=rng.normal(size=(n, 3)), unit='1/angstrom') for c in ('Qx', 'Qy', 'Qz')}
    write_probe(ctx, mon, 'Q_vec_from_Q_elements', K.Q_vec_from_Q_elements, comps, 'dense 2-d components', modes=('values', 'slice'))
    sizes = rng.integers(1, 4, size=n)
    write_probe(ctx, mon, 'Q_vec_from_Q_elements', K.Q_vec_from_Q_elements,
                {c: ops.make_binned(rng.normal(size=int(sizes.sum())), sizes, ['pixel'], (n,), '1/angstrom') for c in ('Qx', 'Qy', 'Qz')},
                'event components', modes=('values', 'slice'))
    write_probe(ctx, mon, 'Q_vec_from_Q_elements', K.Q_vec_from_Q_elements,
                {c: sc.scalar(float(x), unit='1/angstrom') for c, x in zip(('Qx', 'Qy', 'Qz'), rng.normal(size=3), strict=True)},
                '0-d components', modes=('values',))
    # h, k, l are documented views of the vector (``.fields``): written through on purpose, not probed
    ctx.count('write probe skipped: hkl_elements_from_hkl_vec returns the documented .fields views of its argument')
    # Q elements
    a, b = gen_beams(rng, n, ctx, single_incident=True)
    lam = rng.uniform(0.5, 10, size=(n, 3))
    ax = np.eye(3)
    cases = [
        ('per-pixel wavelength, beams 0-d / per pixel', sc.array(dims=['pixel'], values=lam[:, 0], unit='angstrom'), vecs(a[0], 'm'), vecs(b, 'm')),
        ('2-d wavelength, beams per pixel', sc.array(dims=['pixel', 'wavelength'], values=lam, unit='angstrom'), vecs(a, 'm'), vecs(b, 'mm')),
        ('0-d wavelength, 0-d beams', sc.scalar(lam[0, 0], unit='angstrom'), vecs(a[0], 'm'), vecs(b[0], 'm')),
        ('float32 wavelength', sc.array(dims=['wavelength'], values=lam[0], unit='nm', dtype='float32'), vecs(a[0], 'm'), vecs(b, 'm')),
        ('event wavelengths', ops.make_binned(rng.uniform(0.5, 10, size=int(sizes.sum())), sizes, ['pixel'], (n,), 'angstrom'),
         vecs(a[0], 'm'), vecs(b, 'm')),
        ('wavelength exactly 1, beams of length exactly 1 along the axes', sc.scalar(1.0, unit='angstrom'),
         sc.vector(ax[2], unit='one'), sc.vectors(dims=['pixel'], values=np.array([ax[0], ax[1], -ax[0]]), unit='one')),
    ]
    for lab, w, vb1, vb2 in cases:
        if lab.startswith('wavelength exactly 1'):
            ctx.hit('wavelength exactly 1 and beams of length exactly 1 (write probe)')
        write_probe(ctx, mon, 'Q_elements_from_wavelength', K.Q_elements_from_wavelength,
                    {'wavelength': w, 'incident_beam': vb1, 'scattered_beam': vb2}, lab)


WRITE_KERNELS = ['ub_matrix_from_u_and_b', 'hkl_vec_from_Q_vec', 'Q_vec_from_Q_elements', 'Q_elements_from_wavelength']
WRITE_CLASSES = (['written in place after / between calls: ' + k for k in WRITE_KERNELS]
                 + [identity_label(w, f, a) + ' (write probe)' for w in 'UR' for f, a in IDENTITY_FORMS]
                 + ['B exactly the unit matrix (write probe)', 'R the identity and 2 pi UB the unit matrix (write probe)',
                    'R the identity and UB the unit matrix (write probe)',
                    'wavelength exactly 1 and beams of length exactly 1 (write probe)'])


# --------------------------------- graphs as building blocks; writes into a workspace ---
# what the documentation of the kernels lists as INPUTS (parameters that no kernel of the graph computes) and as OUTPUTS
DOC_NODES = {
    'elastic_Q_vec': [('Qx', 'Qy', 'Qz'), 'Q_vec'],
    'elastic_hkl': [('Qx', 'Qy', 'Qz'), 'Q_vec', ('h', 'k', 'l'), 'hkl_vec', 'ub_matrix'],
}
DOC_INPUTS = {
    'elastic_Q_vec': ['incident_beam', 'scattered_beam'],
    'elastic_hkl': ['incident_beam', 'scattered_beam', 'sample_rotation', 'u_matrix', 'b_matrix'],
}
# names that are inputs of the conversions (coordinates of the workspace or outputs of the beamline graphs): no graph of
# graph.tof may define them
INPUT_NAMES = ['sample_rotation', 'u_matrix', 'b_matrix', 'incident_beam', 'scattered_beam', 'Ltotal', 'L1', 'L2', 'two_theta',
               'position', 'source_position', 'sample_position', 'gravity']


def _flat(keys):
    out = set()
    for k in keys:
        out.update(k if isinstance(k, tuple) else (k,))
    return out


def graph_node_sets(ctx, mon, GT):
    import inspect
    for start in ('tof', 'wavelength'):
        for fname in ('elastic_Q_vec', 'elastic_hkl', 'elastic'):
            mon.meta = {'family': 'graph_nodes', 'factory': fname, 'start': start}
            try:
                g = getattr(GT, fname)(start)
                keys = list(g)
                free = set()
                for node in g.values():
                    if callable(node):
                        free.update(inspect.signature(node).parameters)
                    else:
                        free.add(node)
                free -= _flat(keys)
            except Exception as e:  # noqa: BLE001
                ctx.violation('raised_outer', f'graph.tof.{fname}({start!r}): {type(e).__name__}: {e}', dict(mon.meta))
                continue
            ctx.event('graph_nodes')
            ctx.case(('graph_nodes', fname, start))
            bad = sorted(_flat(keys) & (set(INPUT_NAMES) | {start}))
            if bad:
                ctx.violation('graph_nodes', f'graph.tof.{fname}({start!r}) defines node(s) for {bad}, which the conversions '
                              'take as inputs: a node of the caller for the same name is lost when the graphs are merged',
                              dict(mon.meta), mechanism='node_for_an_input')
            if fname in DOC_NODES:
                want = DOC_NODES[fname] + (['wavelength'] if start == 'tof' else [])
                want_free = set(DOC_INPUTS[fname]) | {start} | ({'Ltotal'} if start == 'tof' else set())
                if set(keys) != set(want) or len(keys) != len(want):
                    ctx.violation('graph_nodes', f'graph.tof.{fname}({start!r}) has the nodes {sorted(map(str, keys))}, '
                                  f'documented: {sorted(map(str, want))}', dict(mon.meta), mechanism='node_set')
                elif free != want_free:
                    ctx.violation('graph_nodes', f'graph.tof.{fname}({start!r}) takes the inputs {sorted(free)}, documented: '
                                  f'{sorted(want_free)}', dict(mon.meta), mechanism='input_set')
    ctx.hit('graph factories: node sets and input sets as documented')


def _omega_rotation(omega):
    """User node: rotation of the sample table about the vertical (y) axis from the motor angle."""
    half = 0.5 * omega.to(unit='rad').values
    z = np.zeros_like(half)
    return sc.spatial.rotations(dims=omega.dims, values=np.stack([z, np.sin(half), z, np.cos(half)], axis=-1))


def _copy_node(src):
    """User node computing a quantity from the coordinate ``src`` (here: a copy)."""
    return eval(f'lambda {src}: {src}.copy()')  # noqa: S307 the parameter NAME is what transform_coords looks up


class Truth:
    """What a generated workspace describes, in the harness's own numbers."""

    def __init__(self, rng, ctx, start):
        self.start = start
        self.nrun, self.n, self.nw = int(rng.integers(2, 4)), int(rng.integers(2, 6)), int(rng.integers(2, 5))
        k = si.constants()
        a = geom.random_unit(rng, 1) * rng.uniform(5, 50)
        b = geom.random_unit(rng, self.n) * rng.uniform(0.5, 5, size=(self.n, 1))
        self.sample = rng.normal(size=3)
        self.inc, self.sca = np.asarray(a[0], dtype=np.float64), np.asarray(b, dtype=np.float64)
        self.ltotal = np.asarray(geom.norm(self.inc) + geom.norm(self.sca), dtype=np.float64)
        self.spectral = rng.uniform(0.5, 10, size=self.nw) if start == 'wavelength' else rng.uniform(500, 50000, size=self.nw)
        if start == 'wavelength':
            lam = np.broadcast_to(self.spectral.astype(si.LD), (self.n, self.nw))
        else:  # lambda = h t / (m_n L), in angstrom
            lam = (k['h'] / k['m_n']) * (self.spectral.astype(si.LD) * si.LD(1e-6))[None, :] / self.ltotal.astype(si.LD)[:, None] * si.LD(1e10)
        self.lam = lam
        self.omega = rng.uniform(-180, 180, size=self.nrun)
        half = np.deg2rad(self.omega) / 2
        z = np.zeros_like(half)
        self.rq = np.stack([z, np.sin(half), z, np.cos(half)], axis=-1)
        self.u = matrix_to_quat(geom.random_rotation(rng).astype(np.float64))
        self.b = np.triu(rng.uniform(0.5, 2, size=(3, 3)))
        ei = geom.v3(self.inc) / geom.norm(self.inc)
        ef = geom.v3(self.sca) / geom.norm(self.sca)[..., None]
        self.q = (2 * si.PI / lam)[..., None] * (ei - ef)[:, None, :]  # (pixel, spectral, 3), 1/angstrom
        self.m = quat_to_matrix(self.rq) @ quat_to_matrix(self.u) @ self.b.astype(si.LD)  # (run, 3, 3)

    def variables(self):
        s = self.start
        return {
            s: sc.array(dims=[s], values=self.spectral, unit='angstrom' if s == 'wavelength' else 'us'),
            'incident_beam': vecs(self.inc, 'm'), 'scattered_beam': vecs(self.sca, 'm'),
            'Ltotal': sc.array(dims=['pixel'], values=self.ltotal, unit='m'),
            'sample_rotation': sc.spatial.rotations(dims=['run'], values=self.rq),
            'u_matrix': sc.spatial.rotation(value=self.u),
            'b_matrix': sc.spatial.linear_transform(value=self.b, unit='1/angstrom'),
        }

    def workspace(self, coords):
        return sc.DataArray(sc.ones(dims=['run', 'pixel', self.start], shape=[self.nrun, self.n, self.nw]), coords=coords)

    def judge(self, ctx, mon, res, what):
        """Q_vec and hkl_vec of the result against the quantities the workspace describes: Q = (2 pi / lambda)(e_i - e_f),
        2 pi R UB hkl = Q with the workspace's own R, U, B."""
        try:
            dims, shape = ['run', 'pixel', self.start], [self.nrun, self.n, self.nw]
            missing = [c for c in ('Q_vec', 'hkl_vec', 'h', 'k', 'l') if c not in res.coords]
            if missing:
                ctx.event('graph_blocks')
                ctx.violation('graph_blocks', f'{what}: coordinate(s) {missing} missing from the result', dict(mon.meta))
                return
            full = {}
            for c in ('Q_vec', 'hkl_vec', 'h', 'k', 'l'):
                v = res.coords[c]
                if not set(v.dims) <= set(dims):
                    ctx.event('graph_blocks')
                    ctx.violation('graph_blocks', f'{what}: {c} has dims {v.dims}', dict(mon.meta))
                    return
                full[c] = sc.broadcast(v, dims=[d for d in dims if d not in v.dims] + list(v.dims),
                                       shape=[s for d, s in zip(dims, shape, strict=True) if d not in v.dims] + list(v.shape)
                                       ).transpose(dims).copy()
            qgot = geom.v3(full['Q_vec'].values)
            hkl = geom.v3(full['hkl_vec'].values)
            k = 2 * si.PI / self.lam
            qerr = np.max(np.abs(qgot - self.q[None]), axis=-1) / (256 * EPS * k)[None]
            back = 2 * si.PI * np.einsum('rij,rpwj->rpwi', self.m, hkl)
            cond = np.linalg.cond(self.m.astype(np.float64))[:, None, None]
            tol = 64 * EPS * cond * geom.norm(self.q)[None] + 512 * EPS * k[None]
            herr = geom.norm(back - self.q[None]) / tol
            split_ok = all(np.array_equal(np.asarray(full[c].values), np.asarray(full['hkl_vec'].values)[..., j])
                           for j, c in enumerate('hkl'))
            units_ok = (full['Q_vec'].unit == sc.Unit('1/angstrom') and full['hkl_vec'].unit == sc.Unit('one'))
            dims_ok = set(res.coords['hkl_vec'].dims) == set(dims)
        except Exception:  # noqa: BLE001
            ctx.oracle_error('graph_blocks.judge')
            return
        ctx.event('graph_blocks')
        ctx.dev('graph level: |Q_vec - Q of the workspace| / (256 eps 2pi/lambda)', float(np.max(qerr)))
        ctx.dev('graph level: |2 pi R UB hkl - Q| with the R, U, B of the workspace / bound', float(np.max(herr)))
        if not units_ok:
            ctx.violation('unit', f'{what}: units {full["Q_vec"].unit}, {full["hkl_vec"].unit}', dict(mon.meta))
        elif float(np.max(qerr)) > 1:
            ctx.violation('graph_blocks', f'{what}: Q_vec differs from (2 pi/lambda)(e_i - e_f) of the workspace by '
                          f'{float(np.max(qerr)):.3g} x the bound', dict(mon.meta), quantity='Q_vec')
        elif not np.all(np.isfinite(herr)) or float(np.max(herr)) > 1 or not dims_ok:
            ctx.violation('graph_blocks', f'{what}: 2 pi R UB hkl = Q does not hold with the sample rotation / U / B that the '
                          f'workspace describes: residual {float(np.max(herr)):.3g} x the bound; dims of hkl_vec '
                          f'{res.coords["hkl_vec"].dims}', dict(mon.meta), quantity='hkl_vec')
        elif not split_ok:
            ctx.violation('split', f'{what}: h, k, l differ from the components of hkl_vec', dict(mon.meta))


def graph_blocks(rng, ctx, K, mon, GT):
    """The graphs of graph.tof as building blocks of a caller's graph: every documented input supplied by a node of the
    caller (an alias to a coordinate under another name, or a function of other coordinates), merged in front of and
    behind the library graph; with and without the beamline graph behind it."""
    from scippneutron.conversion.graph import beamline as GB

    def run_ws(what, ws, graph):
        try:
            return ws.transform_coords(('h', 'k', 'l'), graph=graph, rename_dims=False)
        except Exception as e:  # noqa: BLE001
            ctx.violation('raised_outer', f'{what}: {type(e).__name__}: {e}', dict(mon.meta))
            return None

    for start in ('wavelength', 'tof'):
        t = Truth(rng, ctx, start)
        inputs = [start, 'incident_beam', 'scattered_beam', 'sample_rotation', 'u_matrix', 'b_matrix'] + (
            ['Ltotal'] if start == 'tof' else [])
        # control: every input a coordinate under its documented name
        base = {k: v for k, v in t.variables().items() if k in inputs}
        mon.meta = {'family': 'graph_blocks', 'start': start, 'input': 'none', 'node': 'coordinates only', 'merged': '-'}
        r = run_ws('elastic_hkl alone', t.workspace(base), GT.elastic_hkl(start))
        if r is not None:
            t.judge(ctx, mon, r, f'elastic_hkl({start!r}), every input a coordinate')
        for x in inputs:
            for kind in ('alias', 'function'):
                for merged in ('in front of', 'behind'):
                    coords = dict(t.variables())
                    coords = {k: v for k, v in coords.items() if k in inputs}
                    val = coords.pop(x)
                    if x == 'sample_rotation' and kind == 'function':
                        coords['omega'] = sc.array(dims=['run'], values=t.omega, unit='deg')
                        user = {x: _omega_rotation}
                    else:
                        coords['user_' + x] = val
                        user = {x: 'user_' + x} if kind == 'alias' else {x: _copy_node('user_' + x)}
                    lib = GT.elastic_hkl(start)
                    graph = {**user, **lib} if merged == 'in front of' else {**lib, **user}
                    mon.meta = {'family': 'graph_blocks', 'start': start, 'input': x, 'node': kind, 'merged': merged}
                    what = f'{{{kind} node of the caller for {x!r}}} merged {merged} elastic_hkl({start!r})'
                    r = run_ws(what, t.workspace(coords), graph)
                    ctx.case(('graph_blocks', start, x, kind, merged))
                    if r is not None:
                        ctx.hit(f'caller node for an input merged {merged} the library graph')
                        ctx.hit(f'caller node ({kind}) for the input {x if x != start else "<start>"}')
                        t.judge(ctx, mon, r, what)
        # as in the user guide: {**nodes of the caller, **elastic_hkl, **beamline graph}, positions as coordinates
        for x in ('sample_rotation', 'u_matrix', 'b_matrix'):
            for kind in ('alias', 'function'):
                allv = t.variables()
                coords = {k: allv[k] for k in (start, 'sample_rotation', 'u_matrix', 'b_matrix')}
                sample = t.sample
                coords.update({'sample_position': sc.vector(sample, unit='m'), 'source_position': sc.vector(sample - t.inc, unit='m'),
                               'position': sc.vectors(dims=['pixel'], values=sample + t.sca, unit='m')})
                val = coords.pop(x)
                if x == 'sample_rotation' and kind == 'function':
                    coords['omega'] = sc.array(dims=['run'], values=t.omega, unit='deg')
                    user = {x: _omega_rotation}
                else:
                    coords['user_' + x] = val
                    user = {x: 'user_' + x} if kind == 'alias' else {x: _copy_node('user_' + x)}
                mon.meta = {'family': 'graph_blocks', 'start': start, 'input': x, 'node': kind, 'merged': 'with beamline graph'}
                what = f'{{{kind} node of the caller for {x!r}, **elastic_hkl({start!r}), **beamline(scatter=True)}}'
                r = run_ws(what, t.workspace(coords), {**user, **GT.elastic_hkl(start), **GB.beamline(scatter=True)})
                ctx.case(('graph_blocks', start, x, kind, 'beamline'))
                if r is not None:
                    ctx.hit('caller nodes + elastic_hkl + beamline graph, positions as coordinates')
                    # positions are sums of the harness's numbers: the beams the workspace describes are their differences
                    t2 = _with_beams(t, np.asarray(coords['sample_position'].value - coords['source_position'].value),
                                     np.asarray(coords['position'].values - coords['sample_position'].value))
                    t2.judge(ctx, mon, r, what)


def _with_beams(t, inc, sca):
    """Truth of the same workspace with the beams given by differences of the position coordinates."""
    import copy
    t2 = copy.copy(t)
    t2.inc, t2.sca = inc, sca
    k = si.constants()
    lt = (geom.norm(inc) + geom.norm(sca))
    if t.start == 'tof':
        t2.lam = (k['h'] / k['m_n']) * (t.spectral.astype(si.LD) * si.LD(1e-6))[None, :] / lt[:, None] * si.LD(1e10)
    ei = geom.v3(inc) / geom.norm(inc)
    ef = geom.v3(sca) / geom.norm(sca)[..., None]
    t2.q = (2 * si.PI / t2.lam)[..., None] * (ei - ef)[:, None, :]
    return t2


GRAPH_BLOCK_CLASSES = (['graph factories: node sets and input sets as documented',
                        'caller node for an input merged in front of the library graph',
                        'caller node for an input merged behind the library graph',
                        'caller nodes + elastic_hkl + beamline graph, positions as coordinates']
                       + [f'caller node ({k}) for the input {x}' for k in ('alias', 'function')
                          for x in ('<start>', 'incident_beam', 'scattered_beam', 'sample_rotation', 'u_matrix', 'b_matrix', 'Ltotal')])


def workspace_writes(rng, ctx, K, mon, scn, GT):
    """Axis (l) through the public routes: after transform_coords / convert, the input coordinates of the caller's
    workspace are written in place; the coordinates COMPUTED earlier keep their contents (and UB still is U B of the
    contents it was computed from).  U exactly the identity and generic."""
    computed = ['ub_matrix', 'Qx', 'Qy', 'Qz', 'Q_vec', 'hkl_vec', 'h', 'k', 'l']
    n = int(rng.integers(2, 8))
    for u_identity in (True, False):
        for route in ('elastic_hkl graph', 'convert'):
            da = _instrument(rng, ctx, n, u_and_b=True)
            if u_identity:
                da.coords['u_matrix'] = sc.spatial.rotation(value=[0.0, 0.0, 0.0, 1.0])
            mon.meta = {'family': 'workspace_writes', 'route': route, 'u': 'identity' if u_identity else 'generic'}
            try:
                if route == 'convert':
                    out = scn.convert(da, 'wavelength', 'hkl_vec', scatter=True)
                    out = out.transform_coords(['h', 'k', 'l'], graph=GT.elastic_hkl('wavelength'), keep_intermediate=True,
                                               keep_inputs=True)
                else:
                    out = da.transform_coords(['h', 'k', 'l'], graph=GT.elastic_hkl('wavelength'), keep_intermediate=True,
                                              keep_inputs=True, rename_dims=False)
            except Exception as e:  # noqa: BLE001
                ctx.violation('raised_outer', f'{route}: {type(e).__name__}: {e}', dict(mon.meta))
                continue
            have = [c for c in computed if c in out.coords]
            kept = {c: out.coords[c].copy() for c in have}
            ub_want = quat_to_matrix(da.coords['u_matrix'].values) @ np.asarray(da.coords['b_matrix'].values).astype(si.LD)
            for name in ('b_matrix', 'u_matrix', 'sample_rotation', 'wavelength', 'incident_beam', 'scattered_beam'):
                for mode in ('values', 'unit'):
                    restore = _write(da.coords[name], mode)
                    if restore is None:
                        continue
                    try:
                        ctx.event('alias.workspace_coordinate_written')
                        bad = [c for c in have if not _bits_equal(out.coords[c], kept[c])]
                        if bad:
                            ctx.violation('aliasing', f'{route}: the computed coordinate(s) {bad} of the result changed when the '
                                          f'coordinate {name!r} of the input workspace was written in place ({mode}) afterwards',
                                          dict(mon.meta), mechanism='result_follows_argument')
                        if 'ub_matrix' in have:
                            err = float(np.max(np.abs(np.asarray(out.coords['ub_matrix'].values).astype(si.LD) - ub_want)))
                            if err > 16 * EPS * float(np.max(np.abs(ub_want))) or out.coords['ub_matrix'].unit != sc.Unit('1/angstrom'):
                                ctx.violation('ub_product', f'{route}: the ub_matrix computed earlier is no longer U B of the '
                                              f'contents it was computed from after {name!r} was written in place ({mode})',
                                              dict(mon.meta))
                    finally:
                        restore()
            ctx.hit('input workspace written in place after the conversion: ' + route + (', U the identity' if u_identity else ''))
            ctx.case(('workspace_writes', route, u_identity))


WORKSPACE_WRITE_CLASSES = ['input workspace written in place after the conversion: ' + r + u
                           for r in ('elastic_hkl graph', 'convert') for u in ('', ', U the identity')]


# ----------------------------------------------------------- axis (n): names ---
NON_NORMAL_NAMES = {
    # fullwidth letters, modifier / script letters (NFKC gives the ASCII name), zero-width space, KELVIN SIGN
    'tof': ['\uff54\uff4f\uff46', 't\uff4ff', '\u1d57of', 'tof\u200b'],
    'wavelength': ['\uff57avelength', 'wavelen\uff47th', 'wave\u2113ength', '\u02b7avelength'],
    'Q_vec': ['\uff31_vec', 'Q\uff3fvec', 'Q_ve\uff43'],
    'hkl_vec': ['\u210ekl_vec', 'h\u212al_vec', 'hkl\uff3fvec', '\uff48kl_vec'],
}


def unicode_names(rng, ctx, mon, scn, GT, da, da_tof):
    """Strings that are not in NFC / NFKC form and merely NORMALISE to a valid name are not that name: the graph
    factories and convert() refuse them (counted) instead of treating them as the valid name."""
    import unicodedata
    for valid, names in NON_NORMAL_NAMES.items():
        for s in names:
            if s == valid:
                continue
            folded = unicodedata.normalize('NFKC', s) == valid
            mon.meta = {'family': 'unicode_names', 'valid': valid, 'given': ascii(s), 'nfkc_equal': folded}
            calls = []
            if valid in ('tof', 'wavelength'):
                calls += [(f'graph.tof.{f}', lambda f=f, s=s: getattr(GT, f)(s)) for f in ('elastic_Q_vec', 'elastic_hkl', 'elastic')]
                d0 = da if valid == 'wavelength' else da_tof
                calls.append(('convert origin', lambda d0=d0, s=s: scn.convert(d0, s, 'Q_vec', scatter=True)))
            else:
                calls.append(('convert target', lambda s=s: scn.convert(da, 'wavelength', s, scatter=True)))
                calls.append(('transform_coords target', lambda s=s: da.transform_coords(s, graph=GT.elastic_hkl('wavelength'))))
            for label, fn in calls:
                ctx.event('unicode_names')
                try:
                    fn()
                except Exception:  # noqa: BLE001 any refusal: the name is not a valid one
                    ctx.count('refusal: name that is not in normal form (' + label.split()[0] + ')')
                    continue
                ctx.violation('unicode_name', f'{label}: the name {ascii(s)} was accepted as {valid!r}', dict(mon.meta))
    ctx.hit('names that only normalise (NFKC) to tof / wavelength / Q_vec / hkl_vec')


# ------------------------------------------------ axis (o): fresh interpreter ---
_FRESH_KERNELS = r'''
import json, sys
import numpy as np
import scipp as sc
from scippneutron.conversion import tof as K
a = json.loads(sys.argv[1])
f = lambda xs: np.array([float.fromhex(x) for x in xs])
lam = sc.array(dims=['pixel'], values=f(a['lam']), unit='angstrom')
inc = sc.vector(f(a['inc']), unit='m')
sca = sc.vectors(dims=['pixel'], values=f(a['sca']).reshape(-1, 3), unit='m')
el = K.Q_elements_from_wavelength(wavelength=lam, incident_beam=inc, scattered_beam=sca)
qv = K.Q_vec_from_Q_elements(**el)
ub = K.ub_matrix_from_u_and_b(u_matrix=sc.spatial.rotation(value=f(a['u'])),
                              b_matrix=sc.spatial.linear_transform(value=f(a['b']).reshape(3, 3), unit='1/angstrom'))
h = K.hkl_vec_from_Q_vec(Q_vec=qv, ub_matrix=ub, sample_rotation=sc.spatial.rotation(value=f(a['r'])))
parts = K.hkl_elements_from_hkl_vec(hkl_vec=h)
out = {'Qx': el['Qx'], 'Qy': el['Qy'], 'Qz': el['Qz'], 'Q_vec': qv, 'ub_matrix': ub, 'hkl_vec': h, **parts}
import scippneutron
print(json.dumps({'file': scippneutron.__file__, 'res': {k: [str(v.unit), list(v.dims), [float(x).hex() for x in np.asarray(v.values).ravel()]]
                  for k, v in out.items()}}))
'''
_FRESH_GRAPH = r'''
import json, sys
import numpy as np
import scipp as sc
from scippneutron.conversion.graph import tof as GT
a = json.loads(sys.argv[1])
f = lambda xs: np.array([float.fromhex(x) for x in xs])
da = sc.DataArray(sc.ones(dims=['pixel'], shape=[len(a['lam'])]), coords={
    'wavelength': sc.array(dims=['pixel'], values=f(a['lam']), unit='angstrom'),
    'incident_beam': sc.vector(f(a['inc']), unit='m'),
    'scattered_beam': sc.vectors(dims=['pixel'], values=f(a['sca']).reshape(-1, 3), unit='m'),
    'u_matrix': sc.spatial.rotation(value=f(a['u'])),
    'b_matrix': sc.spatial.linear_transform(value=f(a['b']).reshape(3, 3), unit='1/angstrom'),
    'sample_rotation': sc.spatial.rotation(value=f(a['r']))})
keys = {fn + ':' + s: sorted(map(str, getattr(GT, fn)(s))) for fn in ('elastic_Q_vec', 'elastic_hkl') for s in ('tof', 'wavelength')}
r = da.transform_coords(['h', 'k', 'l'], graph=GT.elastic_hkl('wavelength'), keep_intermediate=True, rename_dims=False)
import scippneutron
print(json.dumps({'file': scippneutron.__file__, 'keys': keys,
                  'res': {k: [str(r.coords[k].unit), list(r.coords[k].dims), [float(x).hex() for x in np.asarray(r.coords[k].values).ravel()]]
                          for k in ('Qx', 'Qy', 'Qz', 'Q_vec', 'ub_matrix', 'hkl_vec', 'h', 'k', 'l')}}))
'''


def fresh_interpreter(rng, ctx, K, mon, GT, which):
    """One call of every kernel (which='kernels') / of the graph factories (which='graph') as the FIRST thing a fresh
    interpreter does after importing only the module of the entry point; the worker makes the same calls (judged by the
    monitors) and the two results agree bit for bit."""
    import json
    import os
    import subprocess
    import sys
    n = 4
    a, b = gen_beams(rng, n, ctx, single_incident=True)
    args = {'lam': rng.uniform(0.5, 10, size=n), 'inc': a[0], 'sca': b.ravel(),
            'u': matrix_to_quat(geom.random_rotation(rng).astype(np.float64)),
            'r': matrix_to_quat(geom.random_rotation(rng).astype(np.float64)), 'b': np.triu(rng.uniform(0.5, 2, size=(3, 3))).ravel()}
    f = {k: np.asarray(v, dtype=np.float64) for k, v in args.items()}
    mon.meta = {'family': 'fresh_interpreter', 'entry': which}
    lam = sc.array(dims=['pixel'], values=f['lam'], unit='angstrom')
    inc, sca = sc.vector(f['inc'], unit='m'), sc.vectors(dims=['pixel'], values=f['sca'].reshape(-1, 3), unit='m')
    um, bm = sc.spatial.rotation(value=f['u']), sc.spatial.linear_transform(value=f['b'].reshape(3, 3), unit='1/angstrom')
    rm = sc.spatial.rotation(value=f['r'])
    try:
        if which == 'kernels':
            el = K.Q_elements_from_wavelength(wavelength=lam, incident_beam=inc, scattered_beam=sca)
            qv = K.Q_vec_from_Q_elements(**el)
            ub = K.ub_matrix_from_u_and_b(u_matrix=um, b_matrix=bm)
            h = K.hkl_vec_from_Q_vec(Q_vec=qv, ub_matrix=ub, sample_rotation=rm)
            here = {**el, 'Q_vec': qv, 'ub_matrix': ub, 'hkl_vec': h, **K.hkl_elements_from_hkl_vec(hkl_vec=h)}
        else:
            da = sc.DataArray(sc.ones(dims=['pixel'], shape=[n]), coords={
                'wavelength': lam, 'incident_beam': inc, 'scattered_beam': sca, 'u_matrix': um, 'b_matrix': bm, 'sample_rotation': rm})
            r = da.transform_coords(['h', 'k', 'l'], graph=GT.elastic_hkl('wavelength'), keep_intermediate=True, rename_dims=False)
            here = {k: r.coords[k] for k in ('Qx', 'Qy', 'Qz', 'Q_vec', 'ub_matrix', 'hkl_vec', 'h', 'k', 'l')}
    except Exception as e:  # noqa: BLE001
        ctx.violation('raised_outer', f'fresh-interpreter reference calls: {type(e).__name__}: {e}', dict(mon.meta))
        return
    payload = json.dumps({k: [float(x).hex() for x in v.ravel()] for k, v in f.items()})
    env = dict(os.environ)  # PYTHONPATH of the worker: the tree under observation
    try:
        p = subprocess.run([sys.executable, '-c', _FRESH_KERNELS if which == 'kernels' else _FRESH_GRAPH, payload],
                           env=env, capture_output=True, text=True, timeout=300)
    except Exception:  # noqa: BLE001
        ctx.oracle_error('fresh_interpreter.subprocess')
        return
    ctx.event('fresh_interpreter')
    ctx.case(('fresh_interpreter', which))
    if p.returncode != 0:
        tail = (p.stderr or '').strip().splitlines()[-1:] or ['']
        ctx.violation('fresh_interpreter', f'first call in a fresh interpreter that imported only the module of the entry point '
                      f'({which}) failed: {tail[0][:300]}', dict(mon.meta), mechanism='raised')
        return
    try:
        got = json.loads(p.stdout.strip().splitlines()[-1])
        src = os.path.realpath(os.environ.get('RV_REPO_SRC', '/repo/src'))
        if not os.path.realpath(got['file']).startswith(src):
            ctx.inconclusive_because(f'fresh interpreter imported scippneutron from {got["file"]}, not from {src}')
            return
        bad = []
        for k, v in here.items():
            u, d, vals = got['res'][k]
            mine = [float(x).hex() for x in np.asarray(v.values).ravel()]
            if u != str(v.unit) or tuple(d) != tuple(v.dims) or vals != mine:
                bad.append(k)
        keys_bad = []
        if which == 'graph':
            for fn in ('elastic_Q_vec', 'elastic_hkl'):
                for s in ('tof', 'wavelength'):
                    if got['keys'][fn + ':' + s] != sorted(map(str, getattr(GT, fn)(s))):
                        keys_bad.append(f'{fn}({s!r})')
    except Exception:  # noqa: BLE001
        ctx.oracle_error('fresh_interpreter.compare')
        return
    ctx.hit('first call in a fresh interpreter: ' + which)
    if bad or keys_bad:
        ctx.violation('fresh_interpreter', f'first call in a fresh interpreter ({which}): {bad + keys_bad} differ from the same '
                      'call in the worker process', dict(mon.meta), mechanism='differs')


def heavy(rng, ctx, K, KB, mon):
    """Sizes beyond the generic small ones (no literal size threshold appears in the kernels themselves; scipp switches
    to multi-threaded loops for large operands): 2**20 + 7 pixels, 3 x 400001, 2**20 + 7 events, a long Q array
    against scalar matrices.  Every return is judged by the kernel monitors, element by element."""
    big = 2 ** 20 + 7
    a0, b0 = gen_beams(rng, 4099, ctx, single_incident=True)  # 4099 directions, repeated along the long dim
    b_big = np.resize(b0, (big, 3))
    lam = 10.0 ** rng.uniform(-2, 2, size=big)
    rel = 10.0 ** rng.uniform(-6, -0.5, size=big)
    m = 400001
    sizes = np.array([big - m, m, 0])
    cases = (
        ('2**20 + 7 pixels, per-pixel wavelength with variances',
         sc.array(dims=['pixel'], values=lam, variances=(rel * lam) ** 2, unit='angstrom'), vecs(a0[0], 'm'), vecs(b_big, 'mm')),
        ('3 x 400001, float32 wavelength',
         sc.array(dims=['pixel', 'wavelength'], values=np.resize(lam, (3, m)), unit='nm', dtype='float32'),
         vecs(a0[:3], 'm'), vecs(b0[:3], 'm')),
        ('2**20 + 7 events in 3 bins', ops.make_binned(lam, sizes, ['pixel'], (3,), 'angstrom'), vecs(a0[0], 'm'), vecs(b0[:3], 'mm')),
    )
    for label, w, vb1, vb2 in cases:
        mon.meta = {'family': 'large', 'what': label}
        try:
            el = K.Q_elements_from_wavelength(wavelength=w, incident_beam=vb1, scattered_beam=vb2)
            qv = K.Q_vec_from_Q_elements(**{c: (sc.values(v) if not ops.is_binned(v) else v) for c, v in el.items()})
            del el, qv
            ctx.hit('large operands: ' + label)
            ctx.case(('Q', 'large', label))
        except Exception as e:  # noqa: BLE001
            ctx.violation('raised_outer', f'{label}: {type(e).__name__}: {e}', dict(mon.meta))
    mon.meta = {'family': 'large', 'what': 'hkl of 2**20 + 7 Q vectors'}
    try:
        Bv, ub_unit, cdec = gen_b(rng, 1, ctx)
        Uv = sc.spatial.rotation(value=matrix_to_quat(geom.random_rotation(rng).astype(float)))
        Rv = sc.spatial.linear_transform(value=geom.random_rotation(rng).astype(np.float64))
        UB = K.ub_matrix_from_u_and_b(u_matrix=Uv, b_matrix=Bv)
        Q = sc.vectors(dims=['pixel'], values=rng.normal(size=(big, 3)), unit='1/angstrom')
        h = K.hkl_vec_from_Q_vec(Q_vec=Q, ub_matrix=UB, sample_rotation=Rv)
        K.hkl_elements_from_hkl_vec(hkl_vec=h)
        ctx.hit('large operands: hkl of 2**20 + 7 Q vectors')
        ctx.case(('hkl', 'large', cdec))
    except Exception as e:  # noqa: BLE001
        ctx.violation('raised_outer', f'hkl of 2**20 + 7 Q vectors: {type(e).__name__}: {e}', dict(mon.meta))


def plan(tier, seed):
    # quick: 13 workload shards + 1 shard for the large operands + the 2 environment-variant shards of the runner
    # = one wave on 16 cores
    n, k = (13, 185) if tier == 'quick' else (15, 5400)
    return [{'q': k, 'hkl': k} for _ in range(n)] + [{'q': 0, 'hkl': 0, 'heavy': True}]


VAR_CLASSES = [f'wavelength with variances: {layout}, beams {i}{s}' + (
    '' if layout in ('per_pixel', '2d', 'binned') or (i, s) == ('0', '0') else ' (variances would have to be broadcast)')
    for layout in ('scalar_lambda', 'per_pixel', 'wav_only', '2d', 'binned') for i, s in BEAM_LAYOUTS]
HEAVY_CLASSES = ['large operands: ' + x for x in (
    '2**20 + 7 pixels, per-pixel wavelength with variances', '3 x 400001, float32 wavelength',
    '2**20 + 7 events in 3 bins', 'hkl of 2**20 + 7 Q vectors')]


def requirements(tier):
    return {'events': {'Q_elements_from_wavelength': 100, 'Q_vec_from_Q_elements': 100, 'hkl_vec_from_Q_vec': 100,
                       'ub_matrix_from_u_and_b': 100, 'hkl_elements_from_hkl_vec': 100, 'family.rotation': 30,
                       'family.norm_vs_scalar_Q': 30, 'family.rescale': 30,
                       'Q_elements_from_wavelength.f32': 100, 'family.rotation.f32': 30,
                       'family.norm_vs_scalar_Q.f32': 30, 'family.rescale.f32': 30,
                       'Q_elements_from_wavelength.variances': 200, 'Q_elements_from_wavelength.refusal': 50,
                       'Q_vec_from_Q_elements.refusal': 100, 'family.rescale.variances': 50,
                       'family.norm_vs_scalar_Q.variances': 50, 'coordinate_variances': 30, 'masks': 30,
                       'caller_graph': 10, 'str_subclass': 100, 'second_use': 50, 'copies': 30, 'graph_factory': 30,
                       'alias.result_after_argument_write': 1000, 'alias.arguments_after_result_write': 300,
                       'modify_between_calls': 1000, 'alias.workspace_coordinate_written': 100, 'graph_nodes': 50,
                       'graph_blocks': 400, 'unicode_names': 100, 'fresh_interpreter': 2, 'dim_names': 50},
            'forced': ['nearly parallel beams', 'nearly antiparallel beams', 'axis permutation rotation',
                       'cond(B) >= 1e5', 'component with transposed dims',
                       'dimensionless incident beam', 'dimensionless scattered beam',
                       'float32 wavelength, nearly parallel beams', 'float32 wavelength, back-scattering',
                       'float32 event wavelengths, nearly parallel beams',
                       'convert: float32 wavelength coordinate, nearly parallel beams',
                       'convert: float32 wavelength coordinate, back-scattering',
                       'integer wavelength',
                       'scattered beam exactly along the incident beam (Q = 0)',
                       'scattered beam exactly opposite to the incident beam',
                       'float64 wavelength with variances', 'float32 wavelength with variances',
                       'caller dims named like internal / coordinate names',
                       'kernels as nodes of a caller graph (UB from u_matrix, b_matrix coordinates)',
                       'start given as numpy.str_', 'start given as (str, Enum) member',
                       'convert: origin, target as numpy.str_, scatter as numpy.bool_',
                       'masked input: dense, per-pixel and 2-d masks',
                       'masked input: events, bin-level and event-level masks',
                       'coordinate with variances: per-pixel wavelength coordinate',
                       'coordinate with variances: per-pixel tof coordinate',
                       'coordinate with variances: event wavelengths',
                       'second use: same operand objects passed again',
                       'second use: call repeated after a refusal was raised and caught',
                       'second use: results fed back as inputs',
                       'second use: graph object used twice, deep-copied, factory called again',
                       'display / copies of intermediate results between two calls']
            + VAR_CLASSES + HEAVY_CLASSES + WRITE_CLASSES + GRAPH_BLOCK_CLASSES + WORKSPACE_WRITE_CLASSES
            + [identity_label(w, f, a) for w in 'UR' for f, a in IDENTITY_FORMS]
            + [f'operand length {n} (element types have 3, 4, 9 components)' for n in SIZE_POINTS]
            + [f'dim lengths {n} x {nw} (vector types have 3, 4, 9 components)' for n, nw in SIZE_PAIRS]
            + ['caller dims whose names are not in NFC / NFKC form (pairs with the same normal form)',
               'names that only normalise (NFKC) to tof / wavelength / Q_vec / hkl_vec',
               'first call in a fresh interpreter: kernels', 'first call in a fresh interpreter: graph']
            + [v[0] for v in ANGLE_CLASSES.values() if v[0] not in ('nearly parallel beams', 'nearly antiparallel beams')]}


def run(shard, ctx):
    from scippneutron.conversion import beamline as KB
    from scippneutron.conversion import tof as K

    rng = np.random.Generator(np.random.PCG64([shard['seed'], shard['index'], 8]))
    mon = Monitors(ctx)
    tr = Tracer()
    tr.watch(K.Q_elements_from_wavelength, 'Q_elements_from_wavelength', on_return=mon.q_elements)
    tr.watch(K.Q_vec_from_Q_elements, 'Q_vec_from_Q_elements', on_return=mon.q_vec)
    tr.watch(K.hkl_vec_from_Q_vec, 'hkl_vec_from_Q_vec', on_return=mon.hkl)
    tr.watch(K.ub_matrix_from_u_and_b, 'ub_matrix_from_u_and_b', on_return=mon.ub)
    tr.watch(K.hkl_elements_from_hkl_vec, 'hkl_elements_from_hkl_vec', on_return=mon.hkl_elements)
    with tr:
        if shard.get('heavy'):
            heavy(rng, ctx, K, KB, mon)
            return
        for i in range(shard['q']):
            try:
                sig = q_family(rng, ctx, K, KB, mon, i)
            except Exception as e:  # noqa: BLE001
                ctx.violation('raised_outer', f'{type(e).__name__}: {e}', dict(mon.meta))
                continue
            ctx.case(sig)
            if i < 2:
                ctx.sample({'signature': sig, **mon.meta})
        for i in range(max(4, shard['q'] // 4)):
            try:
                ctx.case(reassemble_family(rng, ctx, K, mon))
            except Exception as e:  # noqa: BLE001
                ctx.violation('raised_outer', f'{type(e).__name__}: {e}', dict(mon.meta))
        for i in range(shard['hkl']):
            try:
                sig = hkl_family(rng, ctx, K, mon, i)
            except Exception as e:  # noqa: BLE001
                ctx.violation('raised_outer', f'{type(e).__name__}: {e}', dict(mon.meta))
                continue
            ctx.case(sig)
            if i < 2:
                ctx.sample({'signature': sig, **mon.meta})
        # in situ: through the shipped graph
        import scippneutron as scn
        for j in range(max(2, shard['q'] // 10)):
            n = int(rng.integers(2, 10))
            # every other data set: single-precision wavelength coordinate on a small-angle / back-scattering
            # instrument in generic orientation (the kernels stay monitored underneath)
            wdt = 'float32' if j % 2 else 'float64'
            force = [None, 'sans', None, 'back_sans'][j % 4]
            a, b = gen_beams(rng, n, ctx, force=force, single_incident=True)
            if wdt == 'float32':
                ctx.hit('convert: float32 wavelength coordinate, ' + ('nearly parallel beams' if force == 'sans'
                                                                        else 'back-scattering'))
            da = sc.DataArray(
                sc.ones(dims=['pixel', 'wavelength'], shape=[n, 3]),
                coords={'wavelength': sc.array(dims=['wavelength'], values=rng.uniform(0.5, 10, size=3), unit='angstrom',
                                               dtype=wdt),
                        'incident_beam': vecs(a[0], 'm'), 'scattered_beam': vecs(b, 'm'),
                        'sample_rotation': sc.spatial.rotation(value=matrix_to_quat(geom.random_rotation(rng).astype(float))),
                        'ub_matrix': sc.spatial.linear_transform(value=np.triu(rng.uniform(0.5, 2, size=(3, 3))), unit='1/angstrom')})
            mon.meta = {'family': 'convert', 'wavelength_dtype': wdt, 'angle_class': force or 'mixed'}
            try:
                scn.convert(da, 'wavelength', 'hkl_vec', scatter=True)
                ctx.case(('convert', 'hkl_vec', n, wdt, force or 'mixed'))
                ctx.count('convert_calls')
            except Exception as e:  # noqa: BLE001
                ctx.violation('raised_outer', f'convert to hkl_vec: {type(e).__name__}: {e}', dict(mon.meta))
            # the single-purpose graph factories are a second public route to the same vectors (kernels stay
            # monitored underneath); from time-of-flight as well as from wavelength
            from scippneutron.conversion.graph import tof as GT
            da_tof = da.copy()
            da_tof.coords['Ltotal'] = sc.norm(da.coords['incident_beam']) + sc.norm(da.coords['scattered_beam'])
            da_tof = da_tof.rename(wavelength='tof')
            da_tof.coords['tof'] = sc.array(dims=['tof'], values=rng.uniform(500, 50000, size=3), unit='us')
            for start, d0 in (('wavelength', da), ('tof', da_tof)):
                for target, fac in (('Q_vec', GT.elastic_Q_vec), ('hkl_vec', GT.elastic_hkl), ('h', GT.elastic_hkl)):
                    mon.meta = {'family': 'graph_factory', 'factory': fac.__name__, 'start': start, 'target': target,
                                'wavelength_dtype': wdt, 'angle_class': force or 'mixed'}
                    try:
                        r = d0.transform_coords(target, graph=fac(start)).coords[target]
                        w = scn.convert(d0, start, target, scatter=True).coords[target]
                    except Exception as e:  # noqa: BLE001
                        ctx.violation('raised_outer', f'{fac.__name__}({start!r}) -> {target}: {type(e).__name__}: {e}',
                                      dict(mon.meta))
                        continue
                    ctx.event('graph_factory')
                    ctx.case(('graph_factory', fac.__name__, start, target, n, wdt))
                    if r.unit != w.unit or r.dims != w.dims or not np.array_equal(
                            np.asarray(r.values), np.asarray(w.values), equal_nan=True):
                        ctx.violation('graph_factory', f'graph.tof.{fac.__name__}({start!r}) gives a different {target} '
                                      'than convert() for the same data', dict(mon.meta))
        try:
            insitu_extras(rng, ctx, K, KB, mon, scn, GT)
        except Exception:  # noqa: BLE001
            ctx.oracle_error('insitu_extras')
        # deterministic classes of every shard: in-place writes after / between calls (kernels and workspaces), the graph
        # factories as building blocks of a caller's graph, names that are not in normal form
        for label, fn in (('write_family', lambda: write_family(rng, ctx, K, mon)),
                          ('workspace_writes', lambda: workspace_writes(rng, ctx, K, mon, scn, GT)),
                          ('graph_node_sets', lambda: graph_node_sets(ctx, mon, GT)),
                          ('graph_blocks', lambda: graph_blocks(rng, ctx, K, mon, GT)),
                          ('unicode_names', lambda: unicode_names(rng, ctx, mon, scn, GT, da, da_tof))):
            try:
                fn()
            except Exception:  # noqa: BLE001
                ctx.oracle_error(label)
        if shard['index'] in (1, 2):  # two fresh interpreters per run
            try:
                fresh_interpreter(rng, ctx, K, mon, GT, 'kernels' if shard['index'] == 1 else 'graph')
            except Exception:  # noqa: BLE001
                ctx.oracle_error('fresh_interpreter')


TECHNIQUE = ('runtime monitors (sys.monitoring) on the Q-vector / hkl kernels; long-double defining algebra '
             '(norm, rotation covariance, residual of 2 pi R UB hkl = Q with SVD conditioning)')
LEVEL_TEXT = ('exploration: every observed return of the Q-vector/hkl kernels (direct and via convert) is checked '
              'against the defining algebra in long double: Q_vec = (2pi/lambda)(e_i - e_f) at 64 eps64 2pi/lambda '
              'absolute (double-precision beams) plus 64 eps32 |Q_vec| relative for single-precision wavelengths, '
              '|Q_vec| = scalar Q, independence of beam lengths, covariance under SO(3) (same two-term bounds), residual of '
              '2 pi R UB hkl = Q at 64 eps cond |Q|, UB = U B, lossless split/reassemble; variances of Qx, Qy, Qz for a '
              'wavelength with variances against first-order propagation and against the scalar Q; results do not share '
              'memory with arguments (in-place write probes), no memoisation by object identity, graph factories honour '
              'caller nodes for their documented inputs (judged against the workspace\'s own R, U, B). Sampled inputs, '
              'not a proof.')
LEVEL_NOTE = 'trusted: numpy long double, float64 SVD for condition numbers, scipp spatial containers'
DESIGN_REF = 'DESIGN.md section 4, C08'
