"""C08 Q-vector and hkl conversions satisfy their defining algebra."""

from __future__ import annotations

import numpy as np
import scipp as sc

from rv import operands as ops
from rv.oracle import geom, si
from rv.snap import describe
from rv.trace import Tracer

ID = 'C08'
LEVEL = 'exploration'
RULE = (
    'cases = one call of Q_elements_from_wavelength / Q_vec_from_Q_elements / hkl_vec_from_Q_vec / '
    'ub_matrix_from_u_and_b / hkl_elements_from_hkl_vec, or one family (rescale, rotate, scalar-Q agreement) '
    'on generated beams in generic orientation (scattering angle classes: generic, log-uniform 1e-9..1e-1 from 0 '
    'and from pi, exactly 0 and pi; one incident beam for all pixels or one per pixel), wavelengths 0.01..100 '
    'angstrom as float64 / float32 / integer, dense, 0-d or events; every shard runs the forced combinations '
    'float32 wavelength x (small angle, back-scattering) x layout; '
    'R and U Haar-random or axis permutations (quaternion or 3x3 form), B upper triangular with condition '
    'number up to 1e6; distinct = (function, units, dtype, matrix representation, cond decade, shape class, '
    'angle class) signatures'
)
ASSUMPTIONS = [
    'a scipp rotation3 holds a unit quaternion (x, y, z, w); its matrix is the standard one',
    'cond(R UB) is taken from a float64 SVD',
]
EPS = si.EPS64
LEN_UNITS = ['m', 'mm', 'cm', 'angstrom', 'one']  # 'one': beams given as dimensionless direction vectors of any length
WAV_UNITS = ['angstrom', 'nm', 'm']


def quat_to_matrix(q):
    """Rotation matrix of quaternion(s) (x, y, z, w), long double, normalising first."""
    q = np.asarray(q, dtype=si.LD)
    q = q / np.sqrt(np.sum(q * q, axis=-1, keepdims=True))
    x, y, z, w = q[..., 0], q[..., 1], q[..., 2], q[..., 3]
    m = np.empty(q.shape[:-1] + (3, 3), dtype=si.LD)
    m[..., 0, 0] = 1 - 2 * (y * y + z * z)
    m[..., 0, 1] = 2 * (x * y - z * w)
    m[..., 0, 2] = 2 * (x * z + y * w)
    m[..., 1, 0] = 2 * (x * y + z * w)
    m[..., 1, 1] = 1 - 2 * (x * x + z * z)
    m[..., 1, 2] = 2 * (y * z - x * w)
    m[..., 2, 0] = 2 * (x * z - y * w)
    m[..., 2, 1] = 2 * (y * z + x * w)
    m[..., 2, 2] = 1 - 2 * (x * x + y * y)
    return m


def as_matrix(var, res=None):
    """(..., 3, 3) long double matrices of a rotation3 / linear_transform3 variable."""
    v = var
    if res is not None and v.dims != res.dims:
        v = sc.broadcast(v, dims=res.dims, shape=res.shape)
    vals = np.asarray(v.values)
    if v.dtype == sc.DType.rotation3:
        return quat_to_matrix(vals)
    return vals.astype(si.LD)


def bvec(var, res):
    v = var if var.dims == res.dims else sc.broadcast(var, dims=res.dims, shape=res.shape)
    return np.asarray(v.values)


class Monitors:
    def __init__(self, ctx):
        self.ctx = ctx
        self.meta = {}

    def _case(self, name, ev):
        return {'function': name, **self.meta, 'args': {k: describe(v) for k, v in ev.args.items()}}

    def q_elements(self, ev):
        name = 'Q_elements_from_wavelength'
        ctx = self.ctx
        if ev.exc is not None:
            ctx.violation('raised', f'{name} raised {type(ev.exc).__name__}: {ev.exc}', self._case(name, ev))
            return
        try:
            a = ev.args
            res = ev.result
            qx = res['Qx']
            lam_unit = ops.elem_unit(a['wavelength'])
            lam = ops.align(a['wavelength'], qx).astype(si.LD)  # in its own unit: Q in 1/unit
            b1 = geom.v3(ops.align(a['incident_beam'], qx))
            b2 = geom.v3(ops.align(a['scattered_beam'], qx))
            ei = b1 / geom.norm(b1)[..., None]
            ef = b2 / geom.norm(b2)[..., None]
            k = 2 * si.PI / lam
            want = k[..., None] * (ei - ef)
            got = np.stack([ops.result_values(res[c]).astype(si.LD) for c in ('Qx', 'Qy', 'Qz')], axis=-1)
            f32 = ops.elem_dtype(a['wavelength']) == sc.DType.float32
            # forward bound of the definition at the inputs AS GIVEN (DESIGN section 3: condition number x 64 eps
            # per input).  The beams are float64 vectors: normalising them in double precision leaves an ABSOLUTE
            # error of a few eps64 in e_i - e_f (the difference cancels at small angles), i.e. 64 eps64 x 2pi/lambda.
            # The wavelength enters as the factor 1/lambda (condition number 1): a RELATIVE term 64 eps(lambda) |Q_vec|,
            # eps(lambda) = eps32 for a single-precision wavelength.  For double-precision (and integer) wavelengths
            # the relative term is at most twice the absolute one and the absolute bound alone is kept (it is the
            # tighter of the two and is what the unchanged definition meets with a margin of ~15).
            qn = geom.norm(want)
            tol = 64 * EPS * np.abs(k) + (64 * si.EPS32 * qn if f32 else 0)
            err = np.max(np.abs(got - want), axis=-1)
            with np.errstate(divide='ignore', invalid='ignore'):
                frac = np.where(tol > 0, err / tol, np.where(err > 0, np.inf, 0))
            frac = np.where(np.isfinite(got).all(axis=-1) | ~np.isfinite(want).all(axis=-1), frac, np.inf)
            worst = float(np.max(frac)) if frac.size else 0.0
            unit_ok = all(ops.elem_unit(res[c]) == sc.Unit('one') / lam_unit for c in ('Qx', 'Qy', 'Qz'))
        except Exception:  # noqa: BLE001
            ctx.oracle_error(name)
            return
        ctx.event(name)
        if f32:
            ctx.event(name + '.f32')
            ctx.dev('Q_elements.f32: |err| / (eps32 |Q_vec| + eps64 2pi/lambda)', worst * 64)
        else:
            ctx.dev('Q_elements: |err| / (eps 2pi/lambda)', worst * 64)
        if not unit_ok:
            ctx.violation('unit', f'{name}: unit {ops.elem_unit(qx)} expected 1/{lam_unit}', self._case(name, ev))
        elif worst > 1:
            i = int(np.argmax(frac))
            bound = '64 (eps32 |Q_vec| + eps64 2pi/lambda)' if f32 else '64 eps 2pi/lambda'
            ctx.violation('q_vector', f'{name}: differs from (2pi/lambda)(e_i - e_f) by {worst:.3g} x the bound {bound}; '
                          f'|err| = {float(err.reshape(-1)[i]):.3g}, |Q_vec| = {float(qn.reshape(-1)[i]):.3g}',
                          dict(self._case(name, ev), got=[repr(x) for x in got.reshape(-1, 3)[i]],
                               expected=[repr(x) for x in want.reshape(-1, 3)[i]]),
                          wavelength_dtype='float32' if f32 else 'float64')

    def q_vec(self, ev):
        name = 'Q_vec_from_Q_elements'
        ctx = self.ctx
        if ev.exc is not None:
            ctx.violation('raised', f'{name} raised {type(ev.exc).__name__}: {ev.exc}', self._case(name, ev))
            return
        a, res = ev.args, ev.result
        ctx.event(name)
        try:
            want = np.stack([ops.align(a[c], res) if not ops.is_binned(res) else ops.align(a[c], res)
                             for c in ('Qx', 'Qy', 'Qz')], axis=-1)
            got = ops.result_values(res)
            same = np.array_equal(np.asarray(want, dtype=np.float64).view(np.int64), got.view(np.int64))
        except Exception:  # noqa: BLE001
            ctx.oracle_error(name)
            return
        if not same or ops.elem_unit(res) != ops.elem_unit(a['Qx']):
            ctx.violation('reassemble', f'{name}: reassembled vector differs from its components',
                          self._case(name, ev))

    def hkl_elements(self, ev):
        name = 'hkl_elements_from_hkl_vec'
        ctx = self.ctx
        if ev.exc is not None:
            ctx.violation('raised', f'{name} raised {type(ev.exc).__name__}: {ev.exc}', self._case(name, ev))
            return
        ctx.event(name)
        v = np.asarray(ev.args['hkl_vec'].values)
        ok = all(np.array_equal(np.asarray(ev.result[c].values).view(np.int64), v[..., i].view(np.int64))
                 for i, c in enumerate('hkl'))
        if not ok:
            ctx.violation('split', f'{name}: components differ from the vector', self._case(name, ev))

    def ub(self, ev):
        name = 'ub_matrix_from_u_and_b'
        ctx = self.ctx
        if ev.exc is not None:
            ctx.violation('raised', f'{name} raised {type(ev.exc).__name__}: {ev.exc}', self._case(name, ev))
            return
        try:
            res = ev.result
            U = as_matrix(ev.args['u_matrix'], res)
            B = as_matrix(ev.args['b_matrix'], res)
            want = U @ B
            got = np.asarray(res.values).astype(si.LD)
            scale = np.max(np.abs(B), axis=(-1, -2))
            err = np.max(np.abs(got - want), axis=(-1, -2)) / scale
            worst = float(np.max(err))
        except Exception:  # noqa: BLE001
            ctx.oracle_error(name)
            return
        ctx.event(name)
        ctx.dev('UB: max |UB - U B| / max|B| (eps)', worst / EPS)
        if res.unit != ev.args['b_matrix'].unit:
            ctx.violation('unit', f'{name}: unit {res.unit}', self._case(name, ev))
        elif worst > 16 * EPS:
            ctx.violation('ub_product', f'{name}: differs from U*B by {worst / EPS:.3g} eps max|B|',
                          self._case(name, ev))

    def hkl(self, ev):
        name = 'hkl_vec_from_Q_vec'
        ctx = self.ctx
        if ev.exc is not None:
            ctx.violation('raised', f'{name} raised {type(ev.exc).__name__}: {ev.exc}', self._case(name, ev))
            return
        try:
            a, res = ev.args, ev.result
            R = as_matrix(a['sample_rotation'], res)
            UB = as_matrix(a['ub_matrix'], res)
            Q = geom.v3(bvec(a['Q_vec'], res))
            hkl = np.asarray(res.values).astype(si.LD)
            M = R @ UB
            back = 2 * si.PI * np.einsum('...ij,...j->...i', M, hkl)
            # the result carries the unit Q/UB (a scaled dimensionless unit when Q and UB are given in
            # different reciprocal lengths), so in values: 2 pi M hkl = Q
            unit_ok = res.unit == a['Q_vec'].unit / a['ub_matrix'].unit
            resid = geom.norm(back - Q)
            cond = np.linalg.cond(M.astype(np.float64))
            tol = 64 * EPS * cond * geom.norm(Q)
            with np.errstate(divide='ignore', invalid='ignore'):
                frac = np.where(tol > 0, resid / tol, 0)
            worst = float(np.max(frac))
        except Exception:  # noqa: BLE001
            ctx.oracle_error(name)
            return
        ctx.event(name)
        ctx.dev('hkl: residual / (eps cond |Q|)', worst * 64)
        if not unit_ok:
            ctx.violation('unit', f'{name}: unit {res.unit} is not unit(Q)/unit(UB)', self._case(name, ev))
        elif not np.all(np.isfinite(np.asarray(res.values))):
            ctx.violation('nonfinite', f'{name}: non-finite hkl', self._case(name, ev))
        elif worst > 1:
            ctx.violation('hkl_residual', f'{name}: |2 pi R UB hkl - Q| = {worst * 64:.3g} eps cond |Q| (bound 64)',
                          dict(self._case(name, ev), cond=float(np.max(cond))))


# ----------------------------------------------------------- generators ---
ANGLE_CLASSES = {
    # name: (forced class, log10 lo, log10 hi of the log-uniform distance d, angle = pi - d instead of d)
    'parallel': ('nearly parallel beams', -9, -6, False),
    'antiparallel': ('nearly antiparallel beams', -9, -6, True),
    'small': ('small-angle beams (two_theta 1e-6..1e-1)', -6, -1, False),
    'back': ('back-scattering beams (pi - two_theta 1e-6..1e-1)', -6, -1, True),
    'sans': ('SANS band (two_theta 1e-4..1e-2)', -4, -2, False),
    'back_sans': ('back-scattering band (pi - two_theta 1e-4..1e-2)', -4, -2, True),
}
RANDOM_ANGLE_CLASSES = ['parallel', 'antiparallel', 'small', 'back', 'generic', 'generic', 'generic']


def gen_beams(rng, n, ctx, force=None, single_incident=False):
    """Beams in generic orientation (directions Haar-random, lengths 0.01..1000); the scattering angle of each
    pixel from a class: generic (1e-3..pi), log-uniform near 0 or near pi.  force = one class for all pixels,
    'zero' = scattered along the incident beam exactly (a positive power of two times it), 'pi' = exactly opposite.
    Returns float64 (n, 3) arrays."""
    a = geom.random_unit(rng, n) * (10.0 ** rng.uniform(-2, 3, size=(n, 1)))
    if single_incident:  # one incident beam for all pixels (row 0 is the operand): the angles are measured from it
        a = np.tile(a[:1], (n, 1))
    if force in ('zero', 'pi'):
        b = a * (2.0 ** rng.integers(-6, 7, size=(n, 1))) * (1.0 if force == 'zero' else -1.0)
        ctx.hit('scattered beam exactly along the incident beam (Q = 0)' if force == 'zero'
                else 'scattered beam exactly opposite to the incident beam')
        return a, b
    names = [force] * n if force else [RANDOM_ANGLE_CLASSES[j] for j in rng.integers(0, len(RANDOM_ANGLE_CLASSES), size=n)]
    ang = rng.uniform(1e-3, np.pi, size=n)
    for nm, (label, lo, hi, from_pi) in ANGLE_CLASSES.items():  # fixed order: the draws must not depend on hashing
        if nm not in names:
            continue
        d = 10.0 ** rng.uniform(lo, hi, size=n)
        ang = np.where(np.array(names) == nm, np.pi - d if from_pi else d, ang)
        ctx.hit(label)
    perp = geom.perpendicular_unit(rng, a)
    b = (geom.rotate_towards(a, perp, ang) * (10.0 ** rng.uniform(-2, 3, size=(n, 1)))).astype(np.float64)
    return a, b


def vecs(values, unit):
    values = np.asarray(values, dtype=np.float64)
    if values.ndim == 1:
        return sc.vector(values, unit=unit)
    return sc.vectors(dims=['pixel'], values=values, unit=unit)


AXIS_PERMS = None


def axis_perm_matrices():
    global AXIS_PERMS
    if AXIS_PERMS is None:
        import itertools
        out = []
        for p in itertools.permutations(range(3)):
            for s in itertools.product((1, -1), repeat=3):
                m = np.zeros((3, 3))
                for i in range(3):
                    m[i, p[i]] = s[i]
                if np.linalg.det(m) > 0:
                    out.append(m)
        AXIS_PERMS = out  # the 24 proper rotations of the cube
    return AXIS_PERMS


def matrix_to_quat(m):
    """Quaternion (x, y, z, w) of a rotation matrix (float64)."""
    m = np.asarray(m, dtype=np.float64)
    t = np.trace(m)
    if t > 0:
        s = np.sqrt(t + 1.0) * 2
        w, x, y, z = 0.25 * s, (m[2, 1] - m[1, 2]) / s, (m[0, 2] - m[2, 0]) / s, (m[1, 0] - m[0, 1]) / s
    elif m[0, 0] > m[1, 1] and m[0, 0] > m[2, 2]:
        s = np.sqrt(1.0 + m[0, 0] - m[1, 1] - m[2, 2]) * 2
        w, x, y, z = (m[2, 1] - m[1, 2]) / s, 0.25 * s, (m[0, 1] + m[1, 0]) / s, (m[0, 2] + m[2, 0]) / s
    elif m[1, 1] > m[2, 2]:
        s = np.sqrt(1.0 + m[1, 1] - m[0, 0] - m[2, 2]) * 2
        w, x, y, z = (m[0, 2] - m[2, 0]) / s, (m[0, 1] + m[1, 0]) / s, 0.25 * s, (m[1, 2] + m[2, 1]) / s
    else:
        s = np.sqrt(1.0 + m[2, 2] - m[0, 0] - m[1, 1]) * 2
        w, x, y, z = (m[1, 0] - m[0, 1]) / s, (m[0, 2] + m[2, 0]) / s, (m[1, 2] + m[2, 1]) / s, 0.25 * s
    q = np.array([x, y, z, w])
    return q / np.linalg.norm(q)


def gen_rotation(rng, n, ctx):
    """Rotation variable: scalar or array, quaternion or matrix form; returns (var, kind)."""
    arr = n > 1 and rng.random() < 0.5
    k = n if arr else 1
    mats = []
    for _ in range(k):
        if rng.random() < 0.25:
            mats.append(axis_perm_matrices()[rng.integers(0, 24)])
            ctx.hit('axis permutation rotation')
        else:
            mats.append(geom.random_rotation(rng).astype(np.float64))
    form = 'quat' if rng.random() < 0.6 else 'matrix'
    if form == 'quat':
        q = np.array([matrix_to_quat(m) for m in mats])
        var = sc.spatial.rotations(dims=['pixel'], values=q) if arr else sc.spatial.rotation(value=q[0])
    else:
        mm = np.array(mats)
        var = (sc.spatial.linear_transforms(dims=['pixel'], values=mm) if arr
               else sc.spatial.linear_transform(value=mm[0]))
    return var, form + ('_array' if arr else '_scalar')


def gen_b(rng, n, ctx):
    arr = n > 1 and rng.random() < 0.4
    k = n if arr else 1
    out, conds = [], []
    for _ in range(k):
        target = 10.0 ** rng.uniform(0, 6)
        d = np.sort(10.0 ** rng.uniform(-np.log10(target) / 2, np.log10(target) / 2, size=3))
        d[0], d[2] = d[1] / np.sqrt(target) if target > 1 else d[1], d[1] * np.sqrt(target) if target > 1 else d[1]
        m = np.diag(d * rng.choice([-1, 1], size=3))
        off = rng.uniform(-0.5, 0.5, size=3) * d[0]
        m[0, 1], m[0, 2], m[1, 2] = off
        m *= 10.0 ** rng.uniform(-1, 1)
        out.append(m)
        conds.append(np.linalg.cond(m))
    unit = ['1/angstrom', '1/nm'][rng.integers(0, 2)]
    mm = np.array(out)
    var = (sc.spatial.linear_transforms(dims=['pixel'], values=mm, unit=unit) if arr
           else sc.spatial.linear_transform(value=mm[0], unit=unit))
    dec = int(np.log10(max(conds)))
    if dec >= 5:
        ctx.hit('cond(B) >= 1e5')
    return var, unit, dec


LAYOUTS = ['per_pixel', '2d', 'scalar_lambda', 'binned']
# forced cases of every shard (index i of the Q family): the classes a random draw of (wavelength dtype x angle class x
# layout) may or may not produce.  (wavelength dtype, angle class, layout or None = random)
FORCED_Q = {
    3: ('float32', 'sans', 'per_pixel'), 4: ('float32', 'sans', '2d'), 5: ('float32', 'sans', 'scalar_lambda'),
    6: ('float32', 'sans', 'binned'),
    7: ('float32', 'back_sans', '2d'), 8: ('float32', 'back_sans', 'binned'),
    9: ('float32', 'parallel', 'per_pixel'), 10: ('float32', 'antiparallel', 'per_pixel'),
    11: ('float32', 'small', '2d'), 12: ('float32', 'back', '2d'),
    13: ('float64', 'sans', '2d'), 14: ('float64', 'back_sans', 'per_pixel'),
    15: ('float64', 'zero', '2d'), 16: ('float32', 'zero', 'per_pixel'), 17: ('float64', 'pi', 'per_pixel'),
    18: ('float32', 'pi', '2d'),
    19: ('int64', None, 'per_pixel'), 20: ('int32', 'sans', '2d'), 21: ('int64', None, 'binned'),
}


def q_family(rng, ctx, K, KB, mon, i=-1):
    n = int(rng.integers(1, 40))
    wdt, angle_class, layout = FORCED_Q.get(i, (None, None, None))
    single = n == 1 or rng.random() < 0.5  # incident beam given once (0-d) or per pixel
    a, b = gen_beams(rng, n, ctx, force=angle_class, single_incident=single)
    u1, u2 = LEN_UNITS[rng.integers(0, 5)], LEN_UNITS[rng.integers(0, 5)]
    if 0 <= i < 3:  # dimensionless beams in every shard: incident, scattered, both
        u1, u2 = [('one', u2 if u2 != 'one' else 'm'), (u1 if u1 != 'one' else 'm', 'one'), ('one', 'one')][i]
    for which, u in (('incident', u1), ('scattered', u2)):
        if u == 'one':
            ctx.hit(f'dimensionless {which} beam')
    uw = WAV_UNITS[rng.integers(0, 3)]
    r_dt, r_layout = rng.random(), LAYOUTS[rng.integers(0, 4)]
    dt = wdt or ('float32' if r_dt < 0.2 else 'float64')
    layout = layout or r_layout
    f32 = dt == 'float32'
    lam_si = 10.0 ** rng.uniform(-12, -8, size=(n, 5))
    if dt.startswith('int'):  # whole numbers of angstrom (1..100) or nm (1..10): the integer part of the quantifier's range
        uw = WAV_UNITS[rng.integers(0, 2)]
        lam_si = rng.integers(1, 101 if uw == 'angstrom' else 11, size=(n, 5)) * (1e-10 if uw == 'angstrom' else 1e-9)
        ctx.hit('integer wavelength')
    fw = float(si.lookup(sc.Unit(uw))[0])
    lam_v = np.rint(lam_si / fw) if dt.startswith('int') else lam_si / fw
    if layout == 'per_pixel':
        lam = sc.array(dims=['pixel'], values=lam_v[:, 0], unit=uw, dtype=dt)
    elif layout == '2d':
        lam = sc.array(dims=['pixel', 'wavelength'], values=lam_v, unit=uw, dtype=dt)
    elif layout == 'scalar_lambda':
        lam = sc.scalar(lam_v[0, 0], unit=uw, dtype=dt)
    else:
        sizes = rng.integers(0, 6, size=n)
        if i in FORCED_Q and sizes.sum() == 0:
            sizes[0] = 3  # a forced class must reach the kernel with at least one event
        lam = ops.make_binned(np.resize(lam_v, int(sizes.sum())).astype(dt), sizes, ['pixel'], (n,), uw, dtype=dt)
    if f32 and angle_class in ('sans', 'parallel', 'small'):
        ctx.hit('float32 wavelength, nearly parallel beams')
    if f32 and angle_class in ('back_sans', 'antiparallel', 'back'):
        ctx.hit('float32 wavelength, back-scattering')
    if f32 and layout == 'binned' and angle_class == 'sans':
        ctx.hit('float32 event wavelengths, nearly parallel beams')
    mon.meta = {'family': 'Q', 'layout': layout, 'units': (u1, u2, uw), 'f32': f32, 'wavelength_dtype': dt,
                'angle_class': angle_class or 'mixed'}
    vb1 = vecs(a[0], u1) if single else vecs(a, u1)
    vb2 = vecs(b, u2) if n > 1 else sc.vectors(dims=['pixel'], values=b, unit=u2)
    base = K.Q_elements_from_wavelength(wavelength=lam, incident_beam=vb1, scattered_beam=vb2)
    qv = K.Q_vec_from_Q_elements(**base)
    if layout != 'binned':
        A = a[:1] if vb1.ndim == 0 else a
        kk = np.abs(2 * np.pi / np.asarray(ops.align(lam, qv), dtype=np.float64))
        # bounds of the families: the forward bound of the definition at the inputs as given, once per evaluation
        # that enters the comparison.  Absolute term eps64 x 2pi/lambda (double-precision beams, cancelling
        # difference); for a single-precision wavelength also the relative term eps32 |Q_vec| (the result, the
        # scalar Q and anything derived from lambda may be rounded to single precision).
        unit_err = EPS * kk + (si.EPS32 * np.linalg.norm(qv.values, axis=-1) if f32 else 0)
        sfx = '.f32' if f32 else ''
        per = ' (eps32 |Q| + eps64 2pi/lambda)' if f32 else ' lambda/2pi (eps)'

        def judge(event, devname, d, bound, kind, text):
            with np.errstate(divide='ignore', invalid='ignore'):
                r = np.where(unit_err > 0, d / unit_err, np.where(d > 0, np.inf, 0))
            r = np.where(np.isnan(r), np.inf, r)
            w = float(np.max(r))
            ctx.event(event)
            if f32:
                ctx.event(event + '.f32')
            ctx.dev(devname + sfx, w)
            if w > bound:
                ctx.violation(kind, text.format(w=f'{w:.3g}', unit='(eps32 |Q_vec| + eps64 2pi/lambda)' if f32
                                                else 'eps x 2pi/lambda', bound=bound), dict(mon.meta))

        # independence of beam lengths
        k1, k2 = 2.0 ** int(rng.integers(-10, 11)), 2.0 ** int(rng.integers(-10, 11))
        sc2 = K.Q_vec_from_Q_elements(**K.Q_elements_from_wavelength(
            wavelength=lam, incident_beam=vecs(A[0] * k1, u1) if vb1.ndim == 0 else vecs(A * k1, u1),
            scattered_beam=sc.vectors(dims=['pixel'], values=b * k2, unit=u2)))
        judge('family.rescale', 'family.rescale 2^k: |dQ|' + per, np.max(np.abs(sc2.values - qv.values), axis=-1), 128,
              'depends_on_beam_length', 'Q_vec changes by {w} x {unit} when the beams are rescaled by powers of two '
              '(bound {bound})')
        # norm equals scalar Q of the same beams (observed two_theta + Q_from_wavelength)
        tt = KB.two_theta(incident_beam=vb1, scattered_beam=vb2)
        Qs = K.Q_from_wavelength(wavelength=lam, two_theta=tt)
        Qs = sc.broadcast(Qs, dims=qv.dims, shape=qv.shape) if Qs.dims != qv.dims else Qs
        judge('family.norm_vs_scalar_Q', 'family.|Q_vec| vs scalar Q: diff' + per,
              np.abs(np.linalg.norm(qv.values, axis=-1) - np.asarray(Qs.values, dtype=np.float64)), 128,
              'norm_vs_scalar_q', '|Q_vec| differs from the scalar Q of the same beams by {w} x {unit} (bound {bound})')
        # covariance: rotate both beams
        Rm = geom.random_rotation(rng)
        ra = (geom.v3(A) @ Rm.T).astype(np.float64)
        rb = (geom.v3(b) @ Rm.T).astype(np.float64)
        rot = K.Q_vec_from_Q_elements(**K.Q_elements_from_wavelength(
            wavelength=lam, incident_beam=vecs(ra[0], u1) if vb1.ndim == 0 else vecs(ra, u1),
            scattered_beam=sc.vectors(dims=['pixel'], values=rb, unit=u2)))
        want = (geom.v3(qv.values) @ Rm.T)
        judge('family.rotation', 'family.rotation covariance: |Q(Rb) - R Q(b)|' + per,
              np.max(np.abs(rot.values.astype(si.LD) - want), axis=-1).astype(np.float64), 256,
              'not_covariant', 'Q_vec of rotated beams differs from the rotated Q_vec by {w} x {unit} (bound {bound})')
    return ('Q', layout, u1, u2, uw, dt, vb1.ndim, angle_class or 'mixed')


def reassemble_family(rng, ctx, K, mon):
    """Q_vec_from_Q_elements / hkl split on components given with their dims in a different order."""
    n, m = int(rng.integers(2, 6)), int(rng.integers(2, 6))
    comps = [sc.array(dims=['pixel', 'wavelength'], values=rng.normal(size=(n, m)), unit='1/angstrom') for _ in range(3)]
    which = int(rng.integers(0, 3))
    comps[which] = comps[which].transpose().copy()  # same labels, other memory/dim order
    mon.meta = {'family': 'reassemble', 'transposed_component': 'xyz'[which], 'shape': (n, m)}
    ctx.hit('component with transposed dims')
    K.Q_vec_from_Q_elements(Qx=comps[0], Qy=comps[1], Qz=comps[2])
    return ('reassemble', which, n == m)


def hkl_family(rng, ctx, K, mon):
    n = int(rng.integers(1, 30))
    Bv, ub_unit, cdec = gen_b(rng, n, ctx)
    Uv, uform = gen_rotation(rng, n, ctx)
    Rv, rform = gen_rotation(rng, n, ctx)
    mon.meta = {'family': 'hkl', 'u': uform, 'r': rform, 'cond_decade': cdec, 'unit': ub_unit}
    UB = K.ub_matrix_from_u_and_b(u_matrix=Uv, b_matrix=Bv)
    qunit = ['1/angstrom', '1/nm'][rng.integers(0, 2)]
    q = rng.normal(size=(n, 3)) * 10.0 ** rng.uniform(-2, 2)
    Q = sc.vectors(dims=['pixel'], values=q, unit=qunit) if (n > 1 or rng.random() < 0.5) else sc.vector(q[0], unit=qunit)
    h = K.hkl_vec_from_Q_vec(Q_vec=Q, ub_matrix=UB, sample_rotation=Rv)
    parts = K.hkl_elements_from_hkl_vec(hkl_vec=h)
    re = sc.spatial.as_vectors(parts['h'], parts['k'], parts['l'])
    ctx.event('family.split_reassemble')
    if not np.array_equal(re.values.view(np.int64), h.values.view(np.int64)):
        ctx.violation('split', 'splitting hkl into components and reassembling is not lossless', dict(mon.meta))
    return ('hkl', uform, rform, ub_unit, qunit, cdec, 'Q_array' if Q.ndim else 'Q_scalar')


def plan(tier, seed):
    n = 16
    return [{'q': 150 if tier == 'quick' else 5000, 'hkl': 150 if tier == 'quick' else 5000} for _ in range(n)]


def requirements(tier):
    return {'events': {'Q_elements_from_wavelength': 100, 'Q_vec_from_Q_elements': 100, 'hkl_vec_from_Q_vec': 100,
                       'ub_matrix_from_u_and_b': 100, 'hkl_elements_from_hkl_vec': 100, 'family.rotation': 30,
                       'family.norm_vs_scalar_Q': 30, 'family.rescale': 30,
                       'Q_elements_from_wavelength.f32': 100, 'family.rotation.f32': 30,
                       'family.norm_vs_scalar_Q.f32': 30, 'family.rescale.f32': 30},
            'forced': ['nearly parallel beams', 'nearly antiparallel beams', 'axis permutation rotation',
                       'cond(B) >= 1e5', 'component with transposed dims',
                       'dimensionless incident beam', 'dimensionless scattered beam',
                       'float32 wavelength, nearly parallel beams', 'float32 wavelength, back-scattering',
                       'float32 event wavelengths, nearly parallel beams',
                       'convert: float32 wavelength coordinate, nearly parallel beams',
                       'convert: float32 wavelength coordinate, back-scattering',
                       'integer wavelength',
                       'scattered beam exactly along the incident beam (Q = 0)',
                       'scattered beam exactly opposite to the incident beam']
            + [v[0] for v in ANGLE_CLASSES.values() if v[0] not in ('nearly parallel beams', 'nearly antiparallel beams')]}


def run(shard, ctx):
    from scippneutron.conversion import beamline as KB
    from scippneutron.conversion import tof as K

    rng = np.random.Generator(np.random.PCG64([shard['seed'], shard['index'], 8]))
    mon = Monitors(ctx)
    tr = Tracer()
    tr.watch(K.Q_elements_from_wavelength, 'Q_elements_from_wavelength', on_return=mon.q_elements)
    tr.watch(K.Q_vec_from_Q_elements, 'Q_vec_from_Q_elements', on_return=mon.q_vec)
    tr.watch(K.hkl_vec_from_Q_vec, 'hkl_vec_from_Q_vec', on_return=mon.hkl)
    tr.watch(K.ub_matrix_from_u_and_b, 'ub_matrix_from_u_and_b', on_return=mon.ub)
    tr.watch(K.hkl_elements_from_hkl_vec, 'hkl_elements_from_hkl_vec', on_return=mon.hkl_elements)
    with tr:
        for i in range(shard['q']):
            try:
                sig = q_family(rng, ctx, K, KB, mon, i)
            except Exception as e:  # noqa: BLE001
                ctx.violation('raised_outer', f'{type(e).__name__}: {e}', dict(mon.meta))
                continue
            ctx.case(sig)
            if i < 2:
                ctx.sample({'signature': sig, **mon.meta})
        for i in range(max(4, shard['q'] // 4)):
            try:
                ctx.case(reassemble_family(rng, ctx, K, mon))
            except Exception as e:  # noqa: BLE001
                ctx.violation('raised_outer', f'{type(e).__name__}: {e}', dict(mon.meta))
        for i in range(shard['hkl']):
            try:
                sig = hkl_family(rng, ctx, K, mon)
            except Exception as e:  # noqa: BLE001
                ctx.violation('raised_outer', f'{type(e).__name__}: {e}', dict(mon.meta))
                continue
            ctx.case(sig)
            if i < 2:
                ctx.sample({'signature': sig, **mon.meta})
        # in situ: through the shipped graph
        import scippneutron as scn
        for j in range(max(2, shard['q'] // 10)):
            n = int(rng.integers(2, 10))
            # every other data set: single-precision wavelength coordinate on a small-angle / back-scattering
            # instrument in generic orientation (the kernels stay monitored underneath)
            wdt = 'float32' if j % 2 else 'float64'
            force = [None, 'sans', None, 'back_sans'][j % 4]
            a, b = gen_beams(rng, n, ctx, force=force, single_incident=True)
            if wdt == 'float32':
                ctx.hit('convert: float32 wavelength coordinate, ' + ('nearly parallel beams' if force == 'sans'
                                                                        else 'back-scattering'))
            da = sc.DataArray(
                sc.ones(dims=['pixel', 'wavelength'], shape=[n, 3]),
                coords={'wavelength': sc.array(dims=['wavelength'], values=rng.uniform(0.5, 10, size=3), unit='angstrom',
                                               dtype=wdt),
                        'incident_beam': vecs(a[0], 'm'), 'scattered_beam': vecs(b, 'm'),
                        'sample_rotation': sc.spatial.rotation(value=matrix_to_quat(geom.random_rotation(rng).astype(float))),
                        'ub_matrix': sc.spatial.linear_transform(value=np.triu(rng.uniform(0.5, 2, size=(3, 3))), unit='1/angstrom')})
            mon.meta = {'family': 'convert', 'wavelength_dtype': wdt, 'angle_class': force or 'mixed'}
            try:
                scn.convert(da, 'wavelength', 'hkl_vec', scatter=True)
                ctx.case(('convert', 'hkl_vec', n, wdt, force or 'mixed'))
                ctx.count('convert_calls')
            except Exception as e:  # noqa: BLE001
                ctx.violation('raised_outer', f'convert to hkl_vec: {type(e).__name__}: {e}', dict(mon.meta))
            # the single-purpose graph factories are a second public route to the same vectors (kernels stay
            # monitored underneath); from time-of-flight as well as from wavelength
            from scippneutron.conversion.graph import tof as GT
            da_tof = da.copy()
            da_tof.coords['Ltotal'] = sc.norm(da.coords['incident_beam']) + sc.norm(da.coords['scattered_beam'])
            da_tof = da_tof.rename(wavelength='tof')
            da_tof.coords['tof'] = sc.array(dims=['tof'], values=rng.uniform(500, 50000, size=3), unit='us')
            for start, d0 in (('wavelength', da), ('tof', da_tof)):
                for target, fac in (('Q_vec', GT.elastic_Q_vec), ('hkl_vec', GT.elastic_hkl), ('h', GT.elastic_hkl)):
                    mon.meta = {'family': 'graph_factory', 'factory': fac.__name__, 'start': start, 'target': target,
                                'wavelength_dtype': wdt, 'angle_class': force or 'mixed'}
                    try:
                        r = d0.transform_coords(target, graph=fac(start)).coords[target]
                        w = scn.convert(d0, start, target, scatter=True).coords[target]
                    except Exception as e:  # noqa: BLE001
                        ctx.violation('raised_outer', f'{fac.__name__}({start!r}) -> {target}: {type(e).__name__}: {e}',
                                      dict(mon.meta))
                        continue
                    ctx.event('graph_factory')
                    ctx.case(('graph_factory', fac.__name__, start, target, n, wdt))
                    if r.unit != w.unit or r.dims != w.dims or not np.array_equal(
                            np.asarray(r.values), np.asarray(w.values), equal_nan=True):
                        ctx.violation('graph_factory', f'graph.tof.{fac.__name__}({start!r}) gives a different {target} '
                                      'than convert() for the same data', dict(mon.meta))


TECHNIQUE = ('runtime monitors (sys.monitoring) on the Q-vector / hkl kernels; long-double defining algebra '
             '(norm, rotation covariance, residual of 2 pi R UB hkl = Q with SVD conditioning)')
LEVEL_TEXT = ('exploration: every observed return of the Q-vector/hkl kernels (direct and via convert) is checked '
              'against the defining algebra in long double: Q_vec = (2pi/lambda)(e_i - e_f) at 64 eps64 2pi/lambda '
              'absolute (double-precision beams) plus 64 eps32 |Q_vec| relative for single-precision wavelengths, '
              '|Q_vec| = scalar Q, independence of beam lengths, covariance under SO(3) (same two-term bounds), residual of '
              '2 pi R UB hkl = Q at 64 eps cond |Q|, UB = U B, lossless split/reassemble. Sampled inputs, not a proof.')
LEVEL_NOTE = 'trusted: numpy long double, float64 SVD for condition numbers, scipp spatial containers'
DESIGN_REF = 'DESIGN.md section 4, C08'
