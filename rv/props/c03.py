"""C03 Straight-beamline geometry equals its Euclidean definition; 2theta is stable."""

from __future__ import annotations

import numpy as np
import scipp as sc

from rv.oracle import geom, si
from rv.snap import describe
from rv.trace import Tracer

ID = 'C03'
LEVEL = 'exploration'
RULE = (
    'cases = one call of a geometry kernel or data-array accessor on 1..64 generated '
    '(source, sample, detector) triples / beam pairs: norms log-uniform 1e-6..1e6 in a random '
    'length unit, forced angle classes {0, 1e-12, 1e-9, 1e-6, pi/2+-1e-12, pi-1e-9, pi-1e-12, pi}, '
    'plus the invariance family (swap, 2^k and arbitrary rescale, SO(3) rotation, translation); plus, in every '
    'shard, data that carries its own L1 / L2 / Ltotal (effective, calibrated, other unit, float32 / integer) or '
    'the beams instead of the positions, two_theta through every public route, and per-pixel beams / positions '
    'that are nearly uniform (spread 0, 1e-12..1e-9 relative; noise, drift, one odd pixel; either or both beams; '
    'beam norms 1e-6..1e5; 1-d and 2-d layouts); '
    'non-trivial unless a single axis-aligned pair; distinct = (function, unit, shape class, '
    'angle class, norm decade) signatures'
)
ASSUMPTIONS = [
    'Kahan angle formula in long double is exact to ~1e-19 rad (cross-checked with mpmath per run)',
    'vector3 subtraction in scipp is the IEEE float64 subtraction per component',
]
TOL_ANGLE = 1e-14  # property: "about 1e-15 rad"; an arccos of the dot product loses ~1e-8
EPS = si.EPS64
LEN_UNITS = ['mm', 'cm', 'm', 'km', 'angstrom']
ANGLE_CLASSES = ['0', '1e-12', '1e-9', '1e-6', 'pi/2', 'pi-1e-9', 'pi-1e-12', 'pi', 'random', 'axis']


# ------------------------------------------------------------- monitors ---
def _vals(v):
    return np.asarray(v.values)


def _bc(v, res):
    """Vector operand broadcast to the dims of the result -> (..., 3) values."""
    if v.dims != res.dims:
        v = sc.broadcast(v, dims=res.dims, shape=res.shape)
    return np.asarray(v.values)


class Monitors:
    def __init__(self, ctx):
        self.ctx = ctx
        self.origin = 'direct'

    def _case(self, name, ev):
        return {'function': name, 'origin': self.origin,
                'args': {k: describe(v) for k, v in ev.args.items()}}

    def _raised(self, name, ev):
        if ev.exc is not None:
            self.ctx.violation('kernel_raised', f'{name} raised {type(ev.exc).__name__}: {ev.exc}',
                               self._case(name, ev), function=name)
            return True
        return False

    def norm_of(self, name, argname):
        def h(ev):
            if self._raised(name, ev):
                return
            try:
                v = ev.args[argname]
                want = geom.norm(_vals(v))
                got = _vals(ev.result).astype(si.LD)
                err = si.relerr(got, want)
                worst = float(np.max(err)) if err.size else 0.0
                unit_ok = ev.result.unit == v.unit and ev.result.dims == v.dims
            except Exception:  # noqa: BLE001
                self.ctx.oracle_error(name)
                return
            self.ctx.event(name)
            self.ctx.dev(f'relerr.{name}', worst)
            if not unit_ok:
                self.ctx.violation('wrong_unit_or_dims', f'{name}: {ev.result.unit} {ev.result.dims}',
                                   self._case(name, ev), function=name)
            elif worst > 4 * EPS:
                self.ctx.violation('norm', f'{name}: relative error {worst:.3g} > 4 eps',
                                   self._case(name, ev), function=name)
        return h

    def difference(self, name, minuend, subtrahend):
        def h(ev):
            if self._raised(name, ev):
                return
            try:
                a, b = ev.args[minuend], ev.args[subtrahend]
                res = ev.result
                want = _bc(a, res) - _bc(b, res)  # IEEE float64 subtraction: exact model
                got = _vals(res)
                same = np.array_equal(want.view(np.int64), got.view(np.int64)) or np.array_equal(want, got)
                unit_ok = res.unit == a.unit
            except Exception:  # noqa: BLE001
                self.ctx.oracle_error(name)
                return
            self.ctx.event(name)
            if not unit_ok:
                self.ctx.violation('wrong_unit_or_dims', f'{name}: unit {res.unit}',
                                   self._case(name, ev), function=name)
            elif not same:
                self.ctx.violation('difference', f'{name}: result is not {minuend} - {subtrahend}',
                                   self._case(name, ev), function=name)
        return h

    def total_scatter(self, ev):
        name = 'total_beam_length'
        if self._raised(name, ev):
            return
        try:
            l1, l2 = ev.args['L1'], ev.args['L2']
            res = ev.result
            f1 = si.factor(l1.unit) / si.factor(res.unit)
            f2 = si.factor(l2.unit) / si.factor(res.unit)
            a = np.asarray(sc.broadcast(l1, dims=res.dims, shape=res.shape).values).astype(si.LD) * f1
            b = np.asarray(sc.broadcast(l2, dims=res.dims, shape=res.shape).values).astype(si.LD) * f2
            want = a + b
            got = _vals(res).astype(si.LD)
            f32 = res.dtype == sc.DType.float32
            tol = (si.EPS32 if f32 else EPS) * 2
            err = si.relerr(got, want)
            worst = float(np.max(err)) if err.size else 0.0
        except Exception:  # noqa: BLE001
            self.ctx.oracle_error(name)
            return
        self.ctx.event(name)
        self.ctx.dev('relerr.total_beam_length' + ('.f32' if f32 else ''), worst)
        if worst > tol:
            self.ctx.violation('ltotal', f'total_beam_length: L1+L2 off by {worst:.3g}',
                               self._case(name, ev), function=name)

    def total_no_scatter(self, ev):
        name = 'total_straight_beam_length_no_scatter'
        if self._raised(name, ev):
            return
        try:
            s, p = ev.args['source_position'], ev.args['position']
            res = ev.result
            d = _bc(p, res) - _bc(s, res)
            want = geom.norm(d)
            err = si.relerr(_vals(res).astype(si.LD), want)
            worst = float(np.max(err)) if err.size else 0.0
        except Exception:  # noqa: BLE001
            self.ctx.oracle_error(name)
            return
        self.ctx.event(name)
        self.ctx.dev('relerr.' + name, worst)
        if res.unit != p.unit:
            self.ctx.violation('wrong_unit_or_dims', f'{name}: unit {res.unit}', self._case(name, ev),
                               function=name)
        elif worst > 4 * EPS:
            self.ctx.violation('ltotal', f'{name}: |position - source| off by {worst:.3g}',
                               self._case(name, ev), function=name)

    def two_theta(self, ev):
        name = 'two_theta'
        if self._raised(name, ev):
            return
        try:
            b1, b2 = ev.args['incident_beam'], ev.args['scattered_beam']
            res = ev.result
            # NB: the *original* argument objects; the kernel works on normalised copies
            want = geom.angle(_bc(b1, res), _bc(b2, res))
            got = _vals(res).astype(si.LD)
            err = np.abs(got - want)
            worst = float(np.max(err)) if err.size else 0.0
            lo, hi = float(np.min(got)), float(np.max(got))
        except Exception:  # noqa: BLE001
            self.ctx.oracle_error(name)
            return
        self.ctx.event(name)
        self.ctx.dev('abserr.two_theta', worst)
        c = self._case(name, ev)
        if res.unit != sc.Unit('rad') or res.dtype != sc.DType.float64:
            self.ctx.violation('wrong_unit_or_dims', f'two_theta: unit {res.unit} dtype {res.dtype}', c,
                               function=name)
        elif not np.all(np.isfinite(_vals(res))):
            self.ctx.violation('two_theta_nonfinite', 'two_theta: non-finite result', c, function=name)
        elif lo < 0 or hi > float(si.PI) + TOL_ANGLE:
            self.ctx.violation('two_theta_range', f'two_theta outside [0, pi]: [{lo!r}, {hi!r}]', c,
                               function=name)
        elif worst > TOL_ANGLE:
            i = int(np.argmax(err))
            c['worst'] = {'got': repr(np.ravel(got)[i]), 'exact': repr(np.ravel(want)[i]), 'abserr': worst}
            self.ctx.violation('two_theta_accuracy',
                               f'two_theta: absolute error {worst:.3g} rad > {TOL_ANGLE:g}', c,
                               function=name)


# ------------------------------------------------------------ generators ---
def gen_pairs(rng, n, ctx, cls=None, a=None):
    """n beam pairs (float64, in arbitrary length units) with forced angle classes.

    With ``a`` given (n, 3) the first beams are taken as they are (class 'axis' then only affects the second beam).
    """
    given = a is not None
    a = np.array(a, dtype=np.float64) if given else geom.random_unit(rng, n) * (10.0 ** rng.uniform(-6, 6, size=(n, 1)))
    classes = rng.integers(0, len(ANGLE_CLASSES), size=n) if cls is None else np.full(n, cls)
    perp = geom.perpendicular_unit(rng, a)
    ang = np.empty(n, dtype=si.LD)
    for i, c in enumerate(classes):
        name = ANGLE_CLASSES[c]
        if name == '0':
            ang[i] = 0
        elif name == 'pi':
            ang[i] = si.PI
        elif name == 'pi/2':
            ang[i] = si.PI / 2 + si.LD(rng.uniform(-1e-12, 1e-12))
        elif name.startswith('pi-'):
            ang[i] = si.PI - si.LD(float(name[3:])) * si.LD(rng.uniform(0.5, 1.0))
        elif name in ('random', 'axis'):
            ang[i] = si.LD(rng.uniform(0, np.pi))
        else:
            ang[i] = si.LD(float(name)) * si.LD(rng.uniform(0.5, 1.0))
        ctx.hit('angle:' + name)
    # 'axis': the incident beam lies exactly along a coordinate axis (either sign, exact zeros), as in the
    # usual lab frames; the scattered beam is generic or axis-aligned too
    for i, c in enumerate(classes):
        if ANGLE_CLASSES[c] == 'axis' and not given:
            e = np.zeros(3)
            e[rng.integers(0, 3)] = 1.0 if rng.random() < 0.5 else -1.0
            a[i] = e * float(np.linalg.norm(a[i]))
    perp = np.where((np.array([ANGLE_CLASSES[c] for c in classes]) == 'axis')[:, None],
                    geom.perpendicular_unit(rng, a), perp)
    b_dir = geom.rotate_towards(a, perp, ang)
    bn = 10.0 ** rng.uniform(-6, 6, size=(n, 1))
    b = (b_dir * bn).astype(np.float64)
    for i, c in enumerate(classes):
        if ANGLE_CLASSES[c] == '0':  # exactly parallel / antiparallel
            b[i] = a[i] * 2.0 ** int(rng.integers(-8, 9))
        elif ANGLE_CLASSES[c] == 'pi':
            b[i] = -a[i] * 2.0 ** int(rng.integers(-8, 9))
        elif ANGLE_CLASSES[c] == 'axis' and rng.random() < 0.3:
            e = np.zeros(3)
            e[rng.integers(0, 3)] = 1.0 if rng.random() < 0.5 else -1.0
            b[i] = e * float(np.linalg.norm(b[i]))
    return a, b, [ANGLE_CLASSES[c] for c in classes]


def vec(values, unit, dims=('pixel',)):
    values = np.asarray(values, dtype=np.float64)
    if values.ndim == 1:
        return sc.vector(values, unit=unit)
    return sc.vectors(dims=list(dims), values=values, unit=unit)


def invariance_family(rng, ctx, K, a, b, classes):
    """two_theta on transformed copies of the same pairs; compares observed values."""
    n = len(a)
    u1, u2 = LEN_UNITS[rng.integers(0, 5)], LEN_UNITS[rng.integers(0, 5)]

    def tt(x, y):
        return np.asarray(K.two_theta(incident_beam=vec(x, u1), scattered_beam=vec(y, u2)).values)

    base = tt(a, b)
    case = {'family': 'invariance', 'n': n, 'classes': sorted(set(classes)),
            'a0': [float(x).hex() for x in a[0]], 'b0': [float(x).hex() for x in b[0]]}

    def cmp(name, other, tol):
        d = np.abs(other.astype(si.LD) - base.astype(si.LD))
        worst = float(np.max(d / tol))
        ctx.dev('invariance.' + name + ' (fraction of bound)', worst)
        ctx.event('invariance.' + name)
        if worst > 1:
            i = int(np.argmax(d / tol))
            ctx.violation('invariance', f'two_theta changes under {name}: {float(d[i]):.3g} rad '
                          f'(bound {float(np.ravel(tol)[i] if np.ndim(tol) else tol):.3g})',
                          dict(case, transform=name, index=i, cls=classes[i]), transform=name)

    two = 2 * TOL_ANGLE
    cmp('swap', tt(b, a) if u1 == u2 else np.asarray(
        K.two_theta(incident_beam=vec(b, u2), scattered_beam=vec(a, u1)).values), two)
    k1, k2 = 2.0 ** int(rng.integers(-20, 21)), 2.0 ** int(rng.integers(-20, 21))
    cmp('rescale by 2^k', tt(a * k1, b * k2), two)
    s1, s2 = rng.uniform(0.1, 10, size=(n, 1)), rng.uniform(0.1, 10, size=(n, 1))
    cmp('rescale arbitrary', tt(a * s1, b * s2), two + 8 * EPS)
    R = geom.random_rotation(rng)
    ra = (geom.v3(a) @ R.T).astype(np.float64)
    rb = (geom.v3(b) @ R.T).astype(np.float64)
    cmp('rotation', tt(ra, rb), two + 16 * EPS)
    return ('invariance', u1, u2, tuple(sorted(set(classes))))


CONTAINERS = ('dataarray', 'dataarray', 'dataarray_2d', 'dataarray_binned', 'dataarray_int', 'dataset_1', 'dataset_3',
              'dataset_no_items')


def make_container(kind, coords, n):
    """Every kind of object that carries beamline coordinates: the accessors depend on the coordinates only."""
    if kind == 'dataarray':
        return sc.DataArray(sc.ones(dims=['pixel'], shape=[n]), coords=coords)
    if kind == 'dataarray_2d':
        return sc.DataArray(sc.ones(dims=['tof', 'pixel'], shape=[2, n]), coords=coords)
    if kind == 'dataarray_int':
        return sc.DataArray(sc.arange('pixel', n, unit='counts'), coords=coords)
    if kind == 'dataarray_binned':
        sizes = np.arange(n) % 3
        end = np.cumsum(sizes)
        buf = sc.DataArray(sc.ones(dims=['event'], shape=[int(sizes.sum())], unit='counts'),
                           coords={'tof': sc.arange('event', float(sizes.sum()), unit='us')})
        binned = sc.bins(begin=sc.array(dims=['pixel'], values=end - sizes, unit=None, dtype='int64'),
                         end=sc.array(dims=['pixel'], values=end, unit=None, dtype='int64'), dim='event', data=buf)
        return sc.DataArray(binned, coords=coords)
    if kind == 'dataset_1':
        return sc.Dataset({'a': sc.ones(dims=['pixel'], shape=[n])}, coords=coords)
    if kind == 'dataset_3':
        return sc.Dataset({'a': sc.ones(dims=['pixel'], shape=[n]), 'b': sc.arange('pixel', n),
                           'c': sc.zeros(dims=['pixel'], shape=[n], dtype='float32', with_variances=True)},
                          coords=coords)
    if kind == 'dataset_no_items':
        return sc.Dataset(coords=coords)
    raise ValueError(kind)


FLAG_FORMS = (bool, np.bool_, int)


def positions_case(rng, ctx, scn, K, mon, forced=None, flag_form=None):
    """Accessors on data arrays / datasets, incl. translation invariance."""
    n = int(rng.integers(1, 33))
    unit = LEN_UNITS[rng.integers(0, 5)]
    a, b, classes = gen_pairs(rng, n, ctx)
    # common sample at a random place; source = sample - a0 ; detectors = sample + b_i
    a0 = a[0]
    sample = rng.normal(size=3) * 10.0 ** rng.uniform(-3, 3)
    if rng.random() < 0.3:
        sample = np.zeros(3)
        e = np.zeros(3)
        e[rng.integers(0, 3)] = 1.0 if rng.random() < 0.5 else -1.0
        a0 = e * float(np.linalg.norm(a0))
        ctx.hit('axis-aligned beamline, sample at origin')
    source = sample - a0
    pos = sample[None, :] + b
    # what the code will see are the rounded positions: recompute beams from them
    inc = sample - source
    sca = pos - sample[None, :]
    container = CONTAINERS[int(rng.integers(0, len(CONTAINERS)))] if forced is None else forced
    ctx.hit('accessor container ' + container)

    def build(shift):
        coords = {'source_position': vec(source + shift, unit), 'sample_position': vec(sample + shift, unit),
                  'position': vec(pos + shift[None, :], unit)}
        return make_container(container, coords, n)

    da = build(np.zeros(3))
    case = {'family': 'accessors', 'container': container, 'unit': unit, 'n': n,
            'source': [float(x).hex() for x in source], 'sample': [float(x).hex() for x in sample],
            'position0': [float(x).hex() for x in pos[0]]}
    mon.origin = 'accessor'
    # the scatter flag is a truth value: callers also pass numpy booleans (np.any(...), HDF5 attributes) or 0/1
    form = FLAG_FORMS[int(rng.integers(0, len(FLAG_FORMS)))] if flag_form is None else flag_form
    ctx.hit('scatter flag given as ' + form.__name__)
    case['scatter_flag_type'] = form.__name__
    got = {
        'L1': scn.L1(da), 'L2': scn.L2(da), 'two_theta': scn.two_theta(da),
        'Ltotal_scatter': scn.Ltotal(da, scatter=form(True)), 'Ltotal_noscatter': scn.Ltotal(da, scatter=form(False)),
        'incident_beam': scn.incident_beam(da), 'scattered_beam': scn.scattered_beam(da),
    }
    # the single-purpose graph factories are a second public route to the same coordinates
    from scippneutron.conversion.graph import beamline as GB
    for k, fac in (('L1', GB.L1), ('L2', GB.L2), ('two_theta', GB.two_theta), ('incident_beam', GB.incident_beam),
                   ('scattered_beam', GB.scattered_beam),
                   ('Ltotal_scatter', lambda: GB.Ltotal(scatter=form(True))),
                   ('Ltotal_noscatter', lambda: GB.Ltotal(scatter=form(False)))):
        name = k.split('_')[0] if k.startswith('Ltotal') else k
        try:
            r = da.transform_coords(name, graph=fac()).coords[name]
        except Exception as e:  # noqa: BLE001
            ctx.violation('graph_factory_raised', f'transform_coords({name!r}, graph=graph.beamline.{k}()) on a '
                          f'{container} raised {type(e).__name__}: {e}', dict(case, factory=k), factory=k)
            continue
        ctx.event('graph_factory.' + k)
        if r.unit != got[k].unit or r.dims != got[k].dims or not np.array_equal(
                np.asarray(r.values), np.asarray(got[k].values), equal_nan=True):
            ctx.violation('graph_factory', f'graph.beamline.{k}() gives a different {name} than the accessor / the '
                          'full beamline graph for the same positions', dict(case, factory=k), factory=k)
    for nm_, ref_ in (('position', pos), ('source_position', source), ('sample_position', sample)):
        g_ = getattr(scn, nm_)(da)
        ctx.event('accessor.' + nm_)
        if g_.unit != sc.Unit(unit) or not np.array_equal(np.broadcast_to(np.asarray(g_.values), np.shape(ref_)), ref_):
            ctx.violation('accessor', f'scippneutron.{nm_} does not return the supplied {nm_}',
                          dict(case, accessor=nm_), accessor=nm_)
    mon.origin = 'direct'
    want = {
        'L1': geom.norm(inc), 'L2': geom.norm(sca), 'two_theta': geom.angle(np.broadcast_to(inc, sca.shape), sca),
        'Ltotal_scatter': geom.norm(inc).astype(np.float64).astype(si.LD) + geom.norm(sca).astype(np.float64).astype(si.LD),
        'Ltotal_noscatter': geom.norm(pos - source[None, :]),
    }
    for k, w in want.items():
        g = np.asarray(got[k].values).astype(si.LD)
        if k == 'two_theta':
            d = float(np.max(np.abs(g - w)))
            bad = d > TOL_ANGLE
            if got[k].unit != sc.Unit('rad'):
                bad = True
        else:
            d = float(np.max(si.relerr(np.broadcast_to(g, np.shape(w)), w)))
            bad = d > 8 * EPS or got[k].unit != sc.Unit(unit)
        ctx.event('accessor.' + k)
        ctx.dev('accessor.' + k, d)
        if bad:
            ctx.violation('accessor', f'scippneutron.{k} on a {container}: deviation {d:.3g} or wrong unit '
                          f'({got[k].unit})', dict(case, accessor=k), accessor=k)
    for k, w in (('incident_beam', inc), ('scattered_beam', sca)):
        g = np.asarray(got[k].values)
        ctx.event('accessor.' + k)
        if not np.array_equal(np.broadcast_to(g, w.shape), w) or got[k].unit != sc.Unit(unit):
            ctx.violation('accessor', f'scippneutron.{k} is not the difference of the positions',
                          dict(case, accessor=k), accessor=k)
    # translation of the whole beamline
    T = rng.normal(size=3) * 10.0 ** rng.uniform(-3, 4)
    mon.origin = 'accessor'
    moved = np.asarray(scn.two_theta(build(T)).values).astype(si.LD)
    mon.origin = 'direct'
    base = np.asarray(got['two_theta'].values).astype(si.LD)
    minbeam = np.minimum(np.linalg.norm(inc), np.linalg.norm(sca, axis=1))
    scale = np.linalg.norm(T) + np.linalg.norm(sample) + np.linalg.norm(pos, axis=1)
    tol = 2 * TOL_ANGLE + 8 * EPS * scale / minbeam
    d = np.abs(moved - base)
    ctx.event('invariance.translation')
    ctx.dev('invariance.translation (fraction of bound)', float(np.max(d / tol)))
    if np.any(d > tol):
        i = int(np.argmax(d / tol))
        ctx.violation('invariance', f'two_theta changes under translation: {float(d[i]):.3g} rad '
                      f'(bound {float(tol[i]):.3g})', dict(case, T=[float(x) for x in T], index=i),
                      transform='translation')
    return ('accessors', container, unit, tuple(sorted(set(classes))))


def direct_case(rng, ctx, K):
    n = int(rng.integers(1, 65))
    scalar = rng.random() < 0.2
    a, b, classes = gen_pairs(rng, 1 if scalar else n, ctx)
    u1, u2 = LEN_UNITS[rng.integers(0, 5)], LEN_UNITS[rng.integers(0, 5)]
    fn = rng.integers(0, 6)
    if scalar:
        va, vb = vec(a[0], u1), vec(b[0], u2)
    else:
        va = vec(a[0], u1) if rng.random() < 0.5 else vec(a, u1)  # common incident beam or per pixel
        vb = vec(b, u2)
    if not scalar and rng.random() < 0.2:
        # per-pixel incident beam with one common scattered beam (symmetry in the two beams includes shapes)
        va, vb = vec(a, u1), vec(b[0], u2)
        ctx.hit('per-pixel incident, scalar scattered')
    if not scalar and rng.random() < 0.15:
        # the two beams vary along *different* dimensions (several sources x several detectors); dimension
        # names in either alphabetical order
        d1, d2 = (('run', 'spectrum') if rng.random() < 0.5 else ('spectrum', 'run'))
        k = int(rng.integers(2, 5))
        va = sc.vectors(dims=[d1], values=a[:k] if len(a) >= k else np.resize(a, (k, 3)), unit=u1)
        vb = sc.vectors(dims=[d2], values=b, unit=u2)
        ctx.hit('beams along different dimensions')
    shape = 'scalar' if scalar else ('disjoint_dims' if va.ndim and vb.ndim and va.dims != vb.dims else
                                     'per_pixel' if va.ndim and vb.ndim else
                                     'scalar_incident' if vb.ndim else 'scalar_scattered')
    if fn == 0:
        K.two_theta(incident_beam=va, scattered_beam=vb)
        name = 'two_theta'
    elif fn == 1:
        K.L1(incident_beam=va)
        K.L2(scattered_beam=vb)
        name = 'L1L2'
    elif fn == 2:
        if vb.ndim == 0:
            vb = vec(b, u2)
        K.straight_incident_beam(source_position=va, sample_position=vec(b[0] if va.ndim == 0 else b, u1))
        K.straight_scattered_beam(position=vb, sample_position=vec(a[0], u2))
        name = 'beams'
    elif fn == 3:
        K.total_straight_beam_length_no_scatter(source_position=va, position=vec(b, u1) if not scalar else vec(b[0], u1))
        name = 'Ltotal_noscatter'
    else:
        f32 = rng.random() < 0.4
        dt = 'float32' if f32 else 'float64'
        l1 = sc.array(dims=['pixel'], values=np.linalg.norm(a, axis=1), unit=u1, dtype=dt)
        l2 = sc.array(dims=['pixel'], values=np.linalg.norm(b, axis=1), unit=u1,
                      dtype='float64' if rng.random() < 0.3 else dt)
        if scalar:
            l1, l2 = l1['pixel', 0], l2['pixel', 0]
        K.total_beam_length(L1=l1, L2=l2)
        name = 'Ltotal_scatter:' + dt
    dec = int(np.floor(np.log10(np.linalg.norm(a[0])) / 3))
    trivial = scalar and u1 == 'm' and u2 == 'm' and classes[0] == 'random' and name == 'two_theta'
    return (name, u1, u2, shape, tuple(sorted(set(classes))), dec), trivial


# ------------------------------------------- supplied L1 / L2 / Ltotal coordinates ---
# Data that carries its own flight-path lengths next to the positions (or next to the beams): the lengths are
# whatever the instrument definition says (effective, calibrated, another unit); the scattering angle is defined
# by the two beams alone.
SUPPLIED_FORMS = ('effective L1', 'calibrated per-pixel L2', 'L1 in another length unit',
                  'L2 in another length unit', 'L1 and L2', 'Ltotal', 'L1, L2 and Ltotal',
                  'beams instead of positions', 'beams and lengths instead of positions')
LENGTH_DTYPES = ('float64', 'float32', 'int64')
TWO_THETA_ROUTES = ('scn.two_theta', 'scn.convert', 'graph.beamline.beamline(scatter=True)',
                    'graph.beamline.two_theta()', 'scn.conversion_graph(tof->dspacing)')


def _other_unit(rng, unit):
    return [u for u in LEN_UNITS if u != unit][int(rng.integers(0, len(LEN_UNITS) - 1))]


def _length(rng, values, unit, dtype, per_pixel):
    """A length coordinate holding ``values`` (float64 numbers) in ``unit`` as ``dtype``."""
    values = np.asarray(values, dtype=np.float64)
    if dtype == 'int64':
        values = np.ceil(values) + rng.integers(0, 3, size=values.shape)
    if per_pixel:
        return sc.array(dims=['pixel'], values=np.broadcast_to(values, per_pixel).copy(), unit=unit, dtype=dtype)
    return sc.scalar(values.item() if values.ndim == 0 else values.flat[0], unit=unit, dtype=dtype)


def _two_theta_routes(scn, da):
    from scippneutron.conversion.graph import beamline as GB

    return {
        'scn.two_theta': lambda: scn.two_theta(da),
        'scn.convert': lambda: scn.convert(da, 'tof', 'two_theta', scatter=True).coords['two_theta'],
        'graph.beamline.beamline(scatter=True)': lambda: da.transform_coords(
            'two_theta', graph=GB.beamline(scatter=True)).coords['two_theta'],
        'graph.beamline.two_theta()': lambda: da.transform_coords(
            'two_theta', graph=GB.two_theta()).coords['two_theta'],
        'scn.conversion_graph(tof->dspacing)': lambda: da.transform_coords(
            'two_theta', graph=scn.conversion_graph('tof', 'dspacing', scatter=True, energy_mode='elastic')
        ).coords['two_theta'],
    }


def _judge_two_theta_routes(ctx, scn, da, want, case, evname, **keys):
    """two_theta of a container through every public route against the exact angle of the float64 beams."""
    for route, f in _two_theta_routes(scn, da).items():
        try:
            r = f()
        except Exception as e:  # noqa: BLE001
            ctx.violation('two_theta_route_raised', f'{route} raised {type(e).__name__}: {e} ({case["family"]})',
                          dict(case, route=route), route=route, **keys)
            continue
        try:
            g = np.asarray(r.values).astype(si.LD)
            err = np.abs(np.broadcast_to(g, np.shape(want)) - want) if np.ndim(g) <= np.ndim(want) else np.array(
                [np.inf])
            d = float(np.max(err))
            bad_unit = r.unit != sc.Unit('rad')
        except Exception:  # noqa: BLE001
            ctx.oracle_error(evname)
            continue
        ctx.event(evname)
        ctx.event(evname + ':' + route)
        ctx.dev(evname, d)
        if bad_unit or not d <= TOL_ANGLE:
            ctx.violation('two_theta_not_from_beams',
                          f'{route}: two_theta differs from the Euclidean angle of the two beams by {d:.3g} rad '
                          f'(unit {r.unit}); {case["family"]}', dict(case, route=route, abserr=d), route=route, **keys)


def supplied_lengths_case(rng, ctx, scn, mon, form, container, dtype):
    n = int(rng.integers(2, 25))
    unit = LEN_UNITS[rng.integers(0, 5)]
    a, b, classes = gen_pairs(rng, n, ctx)
    sample = rng.normal(size=3) * 10.0 ** rng.uniform(-3, 3) * (rng.random() < 0.7)
    source = sample - a[0]
    pos = sample[None, :] + b
    inc = sample - source
    sca = pos - sample[None, :]
    beams_only = form.startswith('beams')
    if beams_only:
        coords = {'incident_beam': vec(inc, unit), 'scattered_beam': vec(sca, unit)}
    else:
        coords = {'source_position': vec(source, unit), 'sample_position': vec(sample, unit),
                  'position': vec(pos, unit)}
    l1 = float(np.linalg.norm(inc))
    l2 = np.linalg.norm(sca, axis=1)
    supplied = {}
    if form in ('effective L1', 'L1 and L2', 'L1, L2 and Ltotal', 'beams and lengths instead of positions'):
        # a guide makes the flight path longer than the straight distance; a moderator correction may shorten it
        supplied['L1'] = _length(rng, l1 * rng.uniform(0.8, 1.3), unit, dtype, None)
    if form in ('calibrated per-pixel L2', 'L1 and L2', 'L1, L2 and Ltotal', 'beams and lengths instead of positions'):
        supplied['L2'] = _length(rng, l2 * (1 + rng.uniform(-1e-2, 1e-2, size=n)), unit, dtype, (n,))
    if form == 'L1 in another length unit':
        u = _other_unit(rng, unit)
        supplied['L1'] = _length(rng, l1 * float(si.factor(sc.Unit(unit)) / si.factor(sc.Unit(u))), u, 'float64', None)
    if form == 'L2 in another length unit':
        u = _other_unit(rng, unit)
        supplied['L2'] = _length(rng, l2 * float(si.factor(sc.Unit(unit)) / si.factor(sc.Unit(u))), u, 'float64', (n,))
    if form in ('Ltotal', 'L1, L2 and Ltotal'):
        supplied['Ltotal'] = _length(rng, (l1 + l2) * rng.uniform(0.9, 1.2), unit, dtype,
                                     (n,) if rng.random() < 0.7 else None)
    same_unit = all(v.unit == sc.Unit(unit) for v in supplied.values())
    da = make_container(container, {**coords, **supplied}, n)
    ctx.hit('supplied coordinates: ' + form)
    ctx.hit('supplied length dtype ' + dtype)
    case = {'family': 'data with supplied ' + ', '.join(supplied or ['beams']) + ' (' + form + ')', 'form': form,
            'container': container, 'unit': unit, 'n': n,
            'supplied': {k: describe(v) for k, v in supplied.items()},
            'coords': {k: describe(v) for k, v in coords.items()}}
    mon.origin = 'accessor'
    try:
        want_tt = geom.angle(np.broadcast_to(inc, sca.shape), sca)
        _judge_two_theta_routes(ctx, scn, da, want_tt, case, 'supplied_lengths.two_theta', form=form)
        # every coordinate that is NOT supplied keeps its Euclidean definition; a supplied one takes precedence
        # in the unchanged tree and is not judged (the property speaks about positions, not about stored lengths)
        checks = {'incident_beam': ('exact', np.broadcast_to(inc, (3,))), 'scattered_beam': ('exact', sca)}
        if 'L1' not in supplied:
            checks['L1'] = ('rel', geom.norm(inc))
        if 'L2' not in supplied:
            checks['L2'] = ('rel', geom.norm(sca))
        if 'Ltotal' not in supplied and not beams_only:
            checks['Ltotal_noscatter'] = ('rel', geom.norm(pos - source[None, :]))
        if not supplied:
            checks['Ltotal_scatter'] = ('rel', geom.norm(inc).astype(np.float64).astype(si.LD)
                                        + geom.norm(sca).astype(np.float64).astype(si.LD))
        ctx.count('not judged: accessor of a supplied length coordinate', len(supplied))
        if supplied and same_unit and 'Ltotal' not in supplied:
            # L1 + L2 of whatever lengths the data carries: judged by the total_beam_length kernel monitor
            scn.Ltotal(da, scatter=True)
        for k, (how, w) in checks.items():
            try:
                r = (scn.Ltotal(da, scatter=k.endswith('_scatter')) if k.startswith('Ltotal')
                     else getattr(scn, k)(da))
            except Exception as e:  # noqa: BLE001
                ctx.violation('accessor_raised', f'scippneutron.{k} on a {container} with supplied '
                              f'{sorted(supplied)} raised {type(e).__name__}: {e}', dict(case, accessor=k),
                              container=container)
                continue
            g = np.asarray(r.values)
            ctx.event('supplied_lengths.' + k)
            if how == 'exact':
                bad = not np.array_equal(np.broadcast_to(g, np.shape(w)), w)
                d = float(bad)
            else:
                d = float(np.max(si.relerr(np.broadcast_to(g.astype(si.LD), np.shape(w)), w)))
                bad = not d <= 8 * EPS
            if bad or r.unit != sc.Unit(unit):
                ctx.violation('accessor', f'scippneutron.{k} on a {container} that also carries {sorted(supplied)}: '
                              f'deviation {d:.3g} from the Euclidean definition or wrong unit ({r.unit})',
                              dict(case, accessor=k), accessor=k)
    finally:
        mon.origin = 'direct'
    return ('supplied', form, container, unit, dtype, tuple(sorted(set(classes))))


# ------------------------------------------------- nearly uniform per-pixel beams ---
# Per-pixel beams that are almost, but not exactly, the same vector (sample drifting by picometres per scan
# point, source/sample position stored once per pixel with calibration noise): every pixel is judged against
# its OWN beam pair.
SPREADS = ('0', '1e-12', '1e-11', '1e-10', '1e-9')          # |beam_i - beam_0| <= spread * |beam_0|
SPREAD_FORMS = ('noise', 'drift', 'one pixel differs')
UNIFORM_WHICH = ('incident', 'scattered', 'both')
NORM_DECADES = (-6, -5, -3, 0, 3, 5)
NU_LAYOUTS = ('pixel / pixel', '2d / 2d', 'uniform beam along the outer dim only', 'other beam scalar')
NU_POSITIONS = ('per-pixel source_position', 'per-pixel sample_position', 'per-pixel source and sample position')


def nearly_uniform(rng, base, n, spread, form):
    """(n, 3) float64 copies of ``base``, each within spread * |base| of row 0 (= base itself)."""
    base = np.asarray(base, dtype=np.float64)
    rel = float(spread)
    d = np.zeros((n, 3))
    if form == 'noise':
        d = geom.random_unit(rng, n) * rng.uniform(0.3, 1.0, size=(n, 1))
    elif form == 'drift':
        d = np.linspace(0.0, 1.0, n)[:, None] * geom.random_unit(rng, 1)
    else:
        j = int(rng.integers(0, n))
        u = geom.random_unit(rng, 1)[0] * rng.uniform(0.3, 1.0)
        if j == 0:
            d[1:] = u  # pixel 0 is the odd one
        else:
            d[j] = u
    d[0] = 0.0
    return base[None, :] + (rel * float(np.linalg.norm(base))) * d


def _base_beam(rng, decade):
    v = geom.random_unit(rng, 1)[0]
    if rng.random() < 0.25:  # beam along a coordinate axis of the lab frame
        v = np.zeros(3)
        v[rng.integers(0, 3)] = 1.0 if rng.random() < 0.5 else -1.0
    return v * 10.0 ** (decade + rng.uniform(0, 1))


def nearly_uniform_kernel_case(rng, ctx, K, which, spread, form, decade, layout, u1, u2):
    k, m = int(rng.integers(2, 6)), int(rng.integers(2, 9))
    n = k * m
    base = _base_beam(rng, decade)
    if which == 'both':
        a = nearly_uniform(rng, base, n, spread, form)
        _, b0, classes = gen_pairs(rng, 1, ctx, a=base[None, :])
        b = nearly_uniform(rng, b0[0], n, spread, SPREAD_FORMS[int(rng.integers(0, 3))])
    else:
        u = nearly_uniform(rng, base, n, spread, form)
        if layout == 'other beam scalar':
            _, o, classes = gen_pairs(rng, 1, ctx, a=base[None, :])
        else:
            _, o, classes = gen_pairs(rng, n, ctx, a=u)
        a, b = (u, o) if which == 'incident' else (o, u)

    def shaped(x, uniform, unit):
        if len(x) == 1:
            return vec(x[0], unit)
        if layout in ('pixel / pixel', 'other beam scalar'):
            return vec(x, unit)
        x = x.reshape(k, m, 3)
        if layout == 'uniform beam along the outer dim only' and uniform:
            return vec(np.ascontiguousarray(x[:, 0, :]), unit, dims=('run',))
        return vec(x, unit, dims=('run', 'pixel'))

    va = shaped(a, which in ('incident', 'both'), u1)
    vb = shaped(b, which == 'scattered', u2)
    ctx.hit('nearly uniform per-pixel beams: ' + which)
    ctx.hit('nearly uniform spread ' + spread)
    ctx.hit('nearly uniform form: ' + form)
    ctx.hit(f'nearly uniform beam norm 1e{decade}')
    ctx.hit('nearly uniform layout: ' + layout)
    # the kernel monitors judge every return against the per-pixel oracle
    fwd = K.two_theta(incident_beam=va, scattered_beam=vb)
    rev = K.two_theta(incident_beam=vb, scattered_beam=va)
    K.L1(incident_beam=va)
    K.L2(scattered_beam=vb)
    ctx.event('nearly_uniform.kernel')
    f, r = np.asarray(fwd.values).astype(si.LD), np.asarray(rev.values).astype(si.LD)
    if fwd.dims != rev.dims:
        r = np.asarray(sc.transpose(rev, dims=fwd.dims).values).astype(si.LD)
    d = float(np.max(np.abs(f - r)))
    ctx.event('invariance.swap (nearly uniform)')
    ctx.dev('invariance.swap, nearly uniform beams (fraction of bound)', d / (2 * TOL_ANGLE))
    if d > 2 * TOL_ANGLE:
        ctx.violation('invariance', f'two_theta changes under swap of nearly uniform per-pixel beams: {d:.3g} rad',
                      {'family': 'nearly uniform', 'which': which, 'spread': spread, 'form': form,
                       'layout': layout, 'units': [u1, u2], 'a': describe(va), 'b': describe(vb)},
                      transform='swap')
    return ('nearly_uniform', which, spread, form, decade, layout, u1, u2)


def nearly_uniform_positions_case(rng, ctx, scn, mon, where, spread, form, decade, unit, container):
    n = int(rng.integers(4, 33))
    a0 = _base_beam(rng, decade)
    if spread == 'independent':
        a = geom.random_unit(rng, n) * 10.0 ** (decade + rng.uniform(0, 1, size=(n, 1)))
        a0 = a[0]
    else:
        a = nearly_uniform(rng, a0, n, spread, form)
    origin = np.zeros(3) if rng.random() < 0.5 else rng.normal(size=3) * 0.3 * float(np.linalg.norm(a0))
    _, b, classes = gen_pairs(rng, n, ctx, a=a)
    drift = a - a0[None, :]
    if where == 'per-pixel source_position':
        sample = origin
        source = sample[None, :] - a
        pos = sample[None, :] + b
    elif where == 'per-pixel sample_position':
        source = origin - a0
        sample = origin[None, :] + drift           # the sample moves, source and detectors stay
        pos = origin[None, :] + b
    else:
        sample = origin[None, :] + drift
        source = (origin - a0)[None, :] - drift[::-1]
        pos = origin[None, :] + b
    # what the code sees are the float64 positions; the beams are their IEEE differences
    inc = sample - source
    sca = pos - sample
    coords = {'source_position': vec(source, unit), 'sample_position': vec(sample, unit), 'position': vec(pos, unit)}
    da = make_container(container, coords, n)
    ctx.hit('nearly uniform positions: ' + where)
    ctx.hit('per-pixel positions spread ' + spread)
    case = {'family': f'{where}, spread {spread} ({form}), beam norm 1e{decade}', 'container': container,
            'unit': unit, 'n': n, 'coords': {k: describe(v) for k, v in coords.items()}}
    mon.origin = 'accessor'
    try:
        want = geom.angle(np.broadcast_to(inc, sca.shape), sca)
        _judge_two_theta_routes(ctx, scn, da, want, case, 'nearly_uniform.accessor.two_theta', where=where)
        for k, w in (('L1', geom.norm(inc)), ('L2', geom.norm(sca)),
                     ('Ltotal_noscatter', geom.norm(pos - source))):
            r = scn.Ltotal(da, scatter=False) if k.startswith('Ltotal') else getattr(scn, k)(da)
            g = np.asarray(r.values).astype(si.LD)
            d = float(np.max(si.relerr(np.broadcast_to(g, np.shape(w)), w))) if np.ndim(g) <= np.ndim(w) else np.inf
            ctx.event('nearly_uniform.accessor.' + k)
            ctx.dev('nearly_uniform.accessor.' + k, d)
            if not d <= 8 * EPS or r.unit != sc.Unit(unit):
                ctx.violation('accessor', f'scippneutron.{k} with {where} (spread {spread}): deviation {d:.3g} '
                              f'or wrong unit ({r.unit})', dict(case, accessor=k), accessor=k)
        for k, w in (('incident_beam', inc), ('scattered_beam', sca)):
            r = getattr(scn, k)(da)
            ctx.event('nearly_uniform.accessor.' + k)
            g = np.asarray(r.values)
            if g.shape != w.shape or not np.array_equal(g, w) or r.unit != sc.Unit(unit):
                ctx.violation('accessor', f'scippneutron.{k} with {where} (spread {spread}) is not the per-pixel '
                              'difference of the positions', dict(case, accessor=k), accessor=k)
    finally:
        mon.origin = 'direct'
    return ('nearly_uniform_positions', where, spread, form, decade, unit, container)


def forced_sweeps(rng, ctx, scn, K, mon, index, rep):
    """The classes every shard runs whatever the random draws are."""
    kinds = sorted(set(CONTAINERS))
    # data with supplied lengths: every form x every route, containers / dtypes rotate with the shard
    for j, form in enumerate(SUPPLIED_FORMS):
        container = kinds[(j + index + rep) % len(kinds)]
        dtype = LENGTH_DTYPES[(j + index // 2 + rep) % 3] if 'another' not in form else 'float64'
        try:
            ctx.case(supplied_lengths_case(rng, ctx, scn, mon, form, container, dtype))
        except Exception as e:  # noqa: BLE001
            mon.origin = 'direct'
            ctx.violation('accessor_raised', f'data with supplied coordinates ({form}) on a {container} raised '
                          f'{type(e).__name__}: {e}', {'family': 'supplied', 'form': form, 'container': container},
                          container=container)
    # nearly uniform per-pixel beams: which x spread x form in every shard; norm decade, layout, units rotate
    j = 0
    for which in UNIFORM_WHICH:
        for spread in SPREADS:
            for form in SPREAD_FORMS:
                t = j + index + 7 * rep
                decade = NORM_DECADES[t % len(NORM_DECADES)]
                layouts = NU_LAYOUTS if which != 'both' else NU_LAYOUTS[:3]
                layout = layouts[(t // 2) % len(layouts)]
                u1 = LEN_UNITS[(t // 3) % 5]
                u2 = LEN_UNITS[(t // 3 + (t % 3 == 0)) % 5]
                try:
                    ctx.case(nearly_uniform_kernel_case(rng, ctx, K, which, spread, form, decade, layout, u1, u2))
                except Exception as e:  # noqa: BLE001
                    ctx.violation('kernel_raised_outer', f'{type(e).__name__}: {e}',
                                  {'family': 'nearly uniform', 'which': which, 'spread': spread, 'layout': layout})
                j += 1
    j = 0
    for where in NU_POSITIONS:
        for spread in (*SPREADS, 'independent'):
            t = j + index + 5 * rep
            form = SPREAD_FORMS[t % 3]
            decade = NORM_DECADES[(t // 3) % len(NORM_DECADES)]
            unit = LEN_UNITS[(t // 2) % 5]
            container = kinds[t % len(kinds)]
            try:
                ctx.case(nearly_uniform_positions_case(rng, ctx, scn, mon, where, spread, form, decade, unit,
                                                       container))
            except Exception as e:  # noqa: BLE001
                mon.origin = 'direct'
                ctx.violation('accessor_raised', f'accessors with {where} (spread {spread}) on a {container} raised '
                              f'{type(e).__name__}: {e}', {'family': 'nearly uniform positions', 'where': where,
                                                           'container': container}, container=container)
            j += 1


# ---------------------------------------------------------------- driver ---
def plan(tier, seed):
    n_shards = 16
    return [{'direct': 200 if tier == 'quick' else 10000, 'families': 40 if tier == 'quick' else 2000,
             'sweeps': 1 if tier == 'quick' else 30}
            for _ in range(n_shards)]


def requirements(tier):
    ev = {k: 10 for k in ('L1', 'L2', 'straight_incident_beam', 'straight_scattered_beam',
                          'total_beam_length', 'total_straight_beam_length_no_scatter', 'two_theta',
                          'accessor.two_theta', 'accessor.Ltotal_noscatter', 'invariance.rotation',
                          'invariance.translation', 'invariance.swap')}
    return {'events': ev, 'forced': ['angle:' + c for c in ANGLE_CLASSES] + ['axis-aligned beamline, sample at origin', 'per-pixel incident, scalar scattered', 'beams along different dimensions']
            + ['accessor container ' + c for c in sorted(set(CONTAINERS))]
            + ['scatter flag given as ' + f.__name__ for f in FLAG_FORMS]
            + ['supplied coordinates: ' + f for f in SUPPLIED_FORMS]
            + ['supplied length dtype ' + d for d in LENGTH_DTYPES]
            + ['nearly uniform per-pixel beams: ' + w for w in UNIFORM_WHICH]
            + ['nearly uniform spread ' + x for x in SPREADS]
            + ['nearly uniform form: ' + f for f in SPREAD_FORMS]
            + [f'nearly uniform beam norm 1e{d}' for d in NORM_DECADES]
            + ['nearly uniform layout: ' + x for x in NU_LAYOUTS]
            + ['nearly uniform positions: ' + w for w in NU_POSITIONS]
            + ['per-pixel positions spread ' + x for x in (*SPREADS, 'independent')]}


def run(shard, ctx):
    import scippneutron as scn
    from scippneutron.conversion import beamline as K

    rng = np.random.Generator(np.random.PCG64([shard['seed'], shard['index'], 3]))
    mon = Monitors(ctx)
    tr = Tracer()
    tr.watch(K.L1, 'L1', on_return=mon.norm_of('L1', 'incident_beam'))
    tr.watch(K.L2, 'L2', on_return=mon.norm_of('L2', 'scattered_beam'))
    tr.watch(K.straight_incident_beam, 'straight_incident_beam',
             on_return=mon.difference('straight_incident_beam', 'sample_position', 'source_position'))
    tr.watch(K.straight_scattered_beam, 'straight_scattered_beam',
             on_return=mon.difference('straight_scattered_beam', 'position', 'sample_position'))
    tr.watch(K.total_beam_length, 'total_beam_length', on_return=mon.total_scatter)
    tr.watch(K.total_straight_beam_length_no_scatter, 'total_straight_beam_length_no_scatter',
             on_return=mon.total_no_scatter)
    tr.watch(K.two_theta, 'two_theta', on_return=mon.two_theta)
    with tr:
        for i in range(shard['direct']):
            before = ctx.n_violations
            try:
                sig, trivial = direct_case(rng, ctx, K)
            except Exception as e:  # noqa: BLE001
                ctx.violation('kernel_raised_outer', f'{type(e).__name__}: {e}', {'family': 'direct'})
                continue
            ctx.case(sig, trivial=trivial)
            if i < 2 or ctx.n_violations > before:
                ctx.sample({'family': 'direct', 'signature': sig})
        for i in range(shard['families']):
            n = int(rng.integers(4, 65))
            a, b, classes = gen_pairs(rng, n, ctx)
            try:
                ctx.case(invariance_family(rng, ctx, K, a, b, classes))
            except Exception as e:  # noqa: BLE001
                ctx.violation('kernel_raised_outer', f'{type(e).__name__}: {e}', {'family': 'invariance'})
            kinds = sorted(set(CONTAINERS))
            container = kinds[i % len(kinds)]  # every kind of container in every shard
            try:
                sig = positions_case(rng, ctx, scn, K, mon, forced=container, flag_form=FLAG_FORMS[(i // len(kinds)) % 3 if i >= len(kinds) else i % 3])
                ctx.case(sig)
                if i < 2:
                    ctx.sample({'family': 'accessors', 'signature': sig})
            except Exception as e:  # noqa: BLE001
                mon.origin = 'direct'
                ctx.violation('accessor_raised', f'accessor on a {container} raised {type(e).__name__}: {e}',
                              {'family': 'accessors', 'container': container}, container=container)
        for rep in range(shard.get('sweeps', 1)):
            forced_sweeps(rng, ctx, scn, K, mon, shard['index'], rep)
    ctx.extra['mpmath_selftest'] = _selftest(ctx, rng)


def _selftest(ctx, rng):
    try:
        import mpmath as mp
    except ImportError:
        ctx.inconclusive_because('mpmath missing for the angle oracle self-test')
        return None
    a, b, _ = gen_pairs(np.random.Generator(np.random.PCG64(11)), 60, _Null())
    worst = 0.0
    for x, y in zip(a, b, strict=True):
        ld = geom.angle(x, y)
        ex = geom.angle_mp(x, y)
        worst = max(worst, abs(float(mp.mpf(repr(ld).split("'")[1]) - ex)))
    if worst > 1e-17:
        ctx.inconclusive_because(f'long-double angle oracle differs from mpmath by {worst:.3g} rad')
    return {'pairs': 60, 'max_abs_diff_rad': worst}


class _Null:
    def hit(self, *a):
        pass


TECHNIQUE = ('runtime monitors (sys.monitoring) on the 7 geometry kernels and the 8 data-array accessors; '
             'long-double Euclidean/Kahan reference; invariance monitor over transformed re-executions')
LEVEL_TEXT = ('exploration: every observed return of the geometry kernels (direct, through the accessors and '
              'through the shipped graphs) is compared with the Euclidean definition; 2theta against the exact '
              'angle between the float64 beams at 1e-14 rad in forced near-0 / pi/2 / pi classes, plus swap, '
              'rescale, rotation and translation invariance on observed values; data with supplied L1/L2/Ltotal '
              'coordinates and nearly uniform per-pixel beams are judged per pixel against the same definition. '
              'Sampled inputs, not a proof.')
LEVEL_NOTE = ('trusted: numpy long double, mpmath (self-test), scipp vector containers and broadcasting, '
              'IEEE float64 subtraction as the model of a position difference')
DESIGN_REF = 'DESIGN.md section 4, C03'
